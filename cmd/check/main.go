// Command check decides one property: it instruments /repo's working tree, builds the
// harness binaries through `go test -c -overlay` (nothing in /repo is touched), runs the
// scenario workers on all cores, merges their results, matches violations against
// known_findings.jsonl, writes evidence/<id>.json and prints VIOLATION / KNOWN-FINDING lines.
//
//	check <ID> [--tier quick|thorough] [--replay file] [--keep] [--only scenario-substring]
package main

import (
	"crypto/sha1"
	"encoding/hex"
	"encoding/json"
	"flag"
	"fmt"
	"os"
	"os/exec"
	"os/signal"
	"path/filepath"
	"regexp"
	"runtime"
	"sort"
	"strconv"
	"strings"
	"sync"
	"syscall"
	"time"

	"verif/internal/instr"
)

// repo is the tree under test (VERIF_REPO overrides it: used to run a check against a scratch copy with a seeded change).
var repo = "/repo"

var verifDir = "/verif"

var instrMu sync.Mutex

type Build struct {
	Kind   string            // "sched" (instrumented + scheduler) or "plain"
	Coarse []string          // files whose atomics are not scheduling points
	Consts map[string]string // "file.go:name" -> literal
	Track  bool              // happens-before probes
	Race   bool              // build with -race (free-running cross-check)
	GoCmd  string            // toolchain ("" = go)
}

func (b Build) key() string {
	j, _ := json.Marshal(b)
	h := sha1.Sum(j)
	return b.Kind + "-" + hex.EncodeToString(h[:4])
}

type Scenario struct {
	Name    string
	Build   Build
	Pkg     string // "internal" or "root"
	Test    string
	Params  string
	Shards  int
	BudgetS float64
}

type Check struct {
	ID        string
	Level     string // evidence level
	Rule      string // how cases are generated / what counts as distinct
	Assume    []string
	Engine    string // engine name for MANIFEST
	Technique string
	LevelText string
	LevelNote string
	DesignRef string
	Quick     []Scenario
	Thorough  []Scenario
}

// WorkerResult mirrors vh.Result.
type Violation struct {
	Clause    string          `json:"clause"`
	Signature string          `json:"signature"`
	Detail    string          `json:"detail"`
	Cost      int             `json:"cost"`
	Replay    json.RawMessage `json:"replay,omitempty"`
	Count     int64           `json:"count"`
}

type WorkerResult struct {
	Scenario    string         `json:"scenario"`
	Shard       int            `json:"shard"`
	Engine      string         `json:"engine"`
	Executions  int64          `json:"executions"`
	Completed   int64          `json:"completed"`
	Pruned      int64          `json:"pruned"`
	States      int64          `json:"states"`
	Transitions int64          `json:"transitions"`
	MaxDepth    int            `json:"max_depth"`
	Outcomes    []string       `json:"outcomes"`
	OutcomesCap bool           `json:"outcomes_capped"`
	Exhaustive  bool           `json:"exhaustive"`
	Caps        []string       `json:"caps"`
	Bounds      map[string]any `json:"bounds"`
	Samples     []any          `json:"samples"`
	Violations  []*Violation   `json:"violations"`
	WallS       float64        `json:"wall_s"`
	Notes       []string       `json:"notes"`
	Error       string         `json:"error"`
}

type Finding struct {
	Property  string `json:"property"`
	Clause    string `json:"clause"`
	Signature string `json:"signature_re"`
	Scenario  string `json:"scenario_re,omitempty"`
	What      string `json:"what"`
	re, sre   *regexp.Regexp
}

func goEnv() []string {
	env := os.Environ()
	env = append(env, "GOFLAGS=-mod=mod", "GOPROXY=off", "GOSUMDB=off", "GOTOOLCHAIN=local", "GOWORK=off")
	return env
}

func fatal(code int, format string, a ...any) {
	fmt.Fprintf(os.Stderr, "check: "+format+"\n", a...)
	os.Exit(code)
}

func main() {
	if len(os.Args) < 2 {
		fatal(2, "usage: check <ID> [--tier quick|thorough] [--replay file]")
	}
	id := os.Args[1]
	if id == "manifest" {
		writeManifest()
		return
	}
	if id == "conformance" {
		os.Exit(conformance())
	}
	fs := flag.NewFlagSet("check", flag.ExitOnError)
	tier := fs.String("tier", os.Getenv("VERIF_TIER"), "quick or thorough")
	replay := fs.String("replay", "", "replay a violation artefact")
	keep := fs.Bool("keep", false, "keep the scratch directory")
	only := fs.String("only", "", "run only scenarios whose name contains this")
	procs := fs.Int("j", runtime.NumCPU(), "worker processes")
	buildOnly := fs.Bool("build-only", false, "build the binaries and stop (setup warm-up)")
	extra := fs.String("params", "", "extra scenario parameters k=v,... appended to the selected scenarios (experiments)")
	budget := fs.Float64("budget", 0, "override the per-worker budget in seconds (experiments)")
	_ = fs.Parse(os.Args[2:])
	partialRun = *only != "" || *extra != "" || *budget != 0
	if *tier == "" {
		*tier = "quick"
	}
	if d := os.Getenv("VERIF_DIR"); d != "" {
		verifDir = d
	}
	if d := os.Getenv("VERIF_REPO"); d != "" {
		repo = d
	}
	seed, _ := strconv.Atoi(os.Getenv("VERIF_SEED"))
	start := time.Now()

	var checks []*Check
	if id == "all" {
		for _, c := range registry() {
			checks = append(checks, c)
		}
	} else {
		c := findCheck(id)
		if c == nil {
			fatal(2, "unknown property %s", id)
		}
		checks = []*Check{c}
	}
	scratch, err := os.MkdirTemp("", "verif-check-")
	if err != nil {
		fatal(2, "%v", err)
	}
	cleanup := func() {
		if !*keep {
			os.RemoveAll(scratch)
		} else {
			fmt.Fprintln(os.Stderr, "scratch kept:", scratch)
		}
	}
	exit := func(code int) { cleanup(); os.Exit(code) }
	// a reader that closes the pipe early (`check ... | head`) or an interrupt must not leave the scratch
	// directory (instrumented sources, test binaries) behind: writes to a closed pipe just fail, and
	// SIGINT/SIGTERM/SIGHUP clean up before exiting
	signal.Ignore(syscall.SIGPIPE)
	sigc := make(chan os.Signal, 1)
	signal.Notify(sigc, syscall.SIGINT, syscall.SIGTERM, syscall.SIGHUP)
	go func() {
		<-sigc
		cleanup()
		os.Exit(130)
	}()

	if *replay != "" {
		exit(doReplay(checks[0], *replay, scratch))
	}

	// collect scenarios
	type job struct {
		c     *Check
		sc    Scenario
		shard int
		out   string
	}
	var jobs []job
	builds := map[string]Build{}
	pkgsOf := map[string]map[string]bool{}
	for _, c := range checks {
		scs := c.Quick
		if *tier == "thorough" && len(c.Thorough) > 0 {
			scs = c.Thorough
		}
		for _, sc := range scs {
			if *only != "" && !strings.Contains(sc.Name, *only) {
				continue
			}
			if *extra != "" {
				sc.Params += "," + *extra
			}
			if *budget > 0 {
				sc.BudgetS = *budget
			}
			k := sc.Build.key()
			builds[k] = sc.Build
			if pkgsOf[k] == nil {
				pkgsOf[k] = map[string]bool{}
			}
			pkgsOf[k][sc.Pkg] = true
			n := sc.Shards
			if n <= 0 {
				n = 1
			}
			for s := 0; s < n; s++ {
				jobs = append(jobs, job{c: c, sc: sc, shard: s, out: filepath.Join(scratch, "out", fmt.Sprintf("%s.%s.%d.json", c.ID, sanitize(sc.Name), s))})
			}
		}
	}
	os.MkdirAll(filepath.Join(scratch, "out"), 0o755)

	// builds (in parallel)
	bins := map[string]string{} // key+pkg -> binary
	var bmu sync.Mutex
	var bwg sync.WaitGroup
	var berr []string
	for k, b := range builds {
		k, b := k, b
		bwg.Add(1)
		go func() {
			defer bwg.Done()
			out, err := buildAll(scratch, k, b, pkgsOf[k])
			bmu.Lock()
			defer bmu.Unlock()
			if err != nil {
				berr = append(berr, fmt.Sprintf("build %s: %v", k, err))
				return
			}
			for p, bin := range out {
				bins[k+"/"+p] = bin
			}
		}()
	}
	bwg.Wait()
	if len(berr) > 0 {
		sort.Strings(berr)
		fmt.Fprintln(os.Stderr, strings.Join(berr, "\n"))
		fmt.Println("CHECK-BROKEN: build of the instrumented tree failed (not a property verdict)")
		exit(2)
	}
	if *buildOnly {
		fmt.Printf("built %d binaries in %.1fs\n", len(bins), time.Since(start).Seconds())
		exit(0)
	}

	// run workers
	sem := make(chan struct{}, *procs)
	var wg sync.WaitGroup
	var mu sync.Mutex
	results := map[string][]*WorkerResult{} // check id -> results
	var werr []string
	for _, j := range jobs {
		j := j
		wg.Add(1)
		sem <- struct{}{}
		go func() {
			defer wg.Done()
			defer func() { <-sem }()
			bin := bins[j.sc.Build.key()+"/"+j.sc.Pkg]
			n := j.sc.Shards
			if n <= 0 {
				n = 1
			}
			wr, err := runWorker(bin, scratch, j.sc, j.shard, n, *tier, j.out, "")
			mu.Lock()
			defer mu.Unlock()
			if err != nil {
				werr = append(werr, fmt.Sprintf("%s shard %d: %v", j.sc.Name, j.shard, err))
				return
			}
			results[j.c.ID] = append(results[j.c.ID], wr)
		}()
	}
	wg.Wait()
	if len(werr) > 0 {
		sort.Strings(werr)
		fmt.Fprintln(os.Stderr, strings.Join(werr, "\n"))
		fmt.Println("CHECK-BROKEN: a worker failed (not a property verdict)")
		exit(2)
	}

	findings := loadFindings()
	code := 0
	for _, c := range checks {
		if c2 := report(c, results[c.ID], findings, *tier, seed, time.Since(start).Seconds()); c2 > code {
			code = c2
		}
	}
	exit(code)
}

func sanitize(s string) string {
	return strings.Map(func(r rune) rune {
		if r >= 'a' && r <= 'z' || r >= 'A' && r <= 'Z' || r >= '0' && r <= '9' || r == '-' || r == '_' {
			return r
		}
		return '_'
	}, s)
}

// buildAll prepares the overlay for b and builds one test binary per package.
func buildAll(scratch, key string, b Build, pkgs map[string]bool) (map[string]string, error) {
	dir := filepath.Join(scratch, "build", key)
	if err := os.MkdirAll(dir, 0o755); err != nil {
		return nil, err
	}
	overlay := map[string]string{}
	tags := "verif,vplain"
	if b.Kind == "sched" || b.Kind == "conf" {
		tags = "verif,vsched"
		if b.Kind == "conf" {
			tags = "verif,vconf"
		}
		coarse := map[string]bool{}
		for _, f := range b.Coarse {
			coarse[f] = true
		}
		opts := instr.Options{Coarse: coarse, Consts: b.Consts}
		if b.Track {
			opts.Track = instr.DefaultTrack()
		}
		instrMu.Lock() // the type checker's source importer works relative to the process cwd: one instrumentation at a time
		for _, p := range []string{"internal", "internal/clock", "internal/xruntime"} {
			res, err := instr.Package(filepath.Join(repo, p), filepath.Join(dir, "gen", p), opts)
			if err != nil {
				instrMu.Unlock()
				return nil, err
			}
			for o, g := range res.Files {
				overlay[o] = g
			}
		}
		instrMu.Unlock()
		fr := filepath.Join(dir, "gen", "fastrand.go")
		if err := os.WriteFile(fr, []byte(instr.FastrandFile), 0o644); err != nil {
			return nil, err
		}
		overlay[filepath.Join(repo, "internal/xruntime/rand_1.22.go")] = fr
	} else if len(b.Consts) > 0 {
		// plain build: textual replacement of single-line `const NAME = expr` declarations (nothing else is rewritten)
		for k, v := range b.Consts {
			i := strings.IndexByte(k, ':')
			if i < 0 {
				return nil, fmt.Errorf("const key %q: want file.go:NAME", k)
			}
			file, name := k[:i], k[i+1:]
			orig := filepath.Join(repo, "internal", file)
			src, err := os.ReadFile(orig)
			if err != nil {
				return nil, err
			}
			re := regexp.MustCompile(`(?m)^const ` + regexp.QuoteMeta(name) + ` = .*$`)
			if !re.Match(src) {
				return nil, fmt.Errorf("const %s not found in %s", name, file)
			}
			out := re.ReplaceAll(src, []byte("const "+name+" = "+v))
			g := filepath.Join(dir, "gen", "const_"+file)
			if err := os.MkdirAll(filepath.Dir(g), 0o755); err != nil {
				return nil, err
			}
			if err := os.WriteFile(g, out, 0o644); err != nil {
				return nil, err
			}
			overlay[orig] = g
		}
	}
	// runtime tree
	rt := filepath.Join(verifDir, "rt", "vrt")
	err := filepath.Walk(rt, func(p string, fi os.FileInfo, err error) error {
		if err != nil || fi.IsDir() || !strings.HasSuffix(p, ".go") {
			return err
		}
		rel, _ := filepath.Rel(rt, p)
		overlay[filepath.Join(repo, "internal/vrt", rel)] = p
		return nil
	})
	if err != nil {
		return nil, err
	}
	// vatomicq: the same shim with the yields removed (coarse components)
	src, err := os.ReadFile(filepath.Join(rt, "vatomic", "vatomic.go"))
	if err != nil {
		return nil, err
	}
	q := strings.Replace(string(src), "package vatomic", "package vatomicq", 1)
	q = strings.ReplaceAll(q, "vrt.Yield(", "vrt.NoYield(")
	qf := filepath.Join(dir, "gen", "vatomicq.go")
	os.MkdirAll(filepath.Dir(qf), 0o755)
	if err := os.WriteFile(qf, []byte(q), 0o644); err != nil {
		return nil, err
	}
	overlay[filepath.Join(repo, "internal/vrt/vatomicq/vatomicq.go")] = qf
	// harness files; the repository's own tests are left out of exploration builds
	for pkg, sub := range map[string]string{"internal": "internal", "root": ""} {
		pdir := filepath.Join(repo, sub)
		if b.Kind == "conf" {
			continue // conformance build: the repository's own tests, no harness
		}
		ents, _ := os.ReadDir(pdir)
		for _, e := range ents {
			if strings.HasSuffix(e.Name(), "_test.go") {
				overlay[filepath.Join(pdir, e.Name())] = ""
			}
		}
		hd := filepath.Join(verifDir, "harness", pkg)
		hents, _ := os.ReadDir(hd)
		for _, e := range hents {
			if strings.HasSuffix(e.Name(), "_test.go") {
				overlay[filepath.Join(pdir, "zz_verif_"+e.Name())] = filepath.Join(hd, e.Name())
			}
		}
	}
	oj, _ := json.MarshalIndent(map[string]any{"Replace": overlay}, "", " ")
	of := filepath.Join(dir, "overlay.json")
	if err := os.WriteFile(of, oj, 0o644); err != nil {
		return nil, err
	}
	out := map[string]string{}
	gocmd := b.GoCmd
	if gocmd == "" {
		gocmd = "go"
	}
	for p := range pkgs {
		target := "./internal/"
		if p == "root" {
			target = "."
		}
		bin := filepath.Join(dir, p+".test")
		args := []string{"test", "-c", "-overlay", of, "-tags", tags, "-vet=off", "-o", bin}
		if b.Race {
			args = append(args, "-race")
		}
		cmd := exec.Command(gocmd, append(args, target)...)
		cmd.Dir = repo
		cmd.Env = goEnv()
		if o, err := cmd.CombinedOutput(); err != nil {
			return nil, fmt.Errorf("go test -c %s: %v\n%s", target, err, o)
		}
		out[p] = bin
	}
	return out, nil
}

func runWorker(bin, scratch string, sc Scenario, shard, nshards int, tier, out, replay string) (*WorkerResult, error) {
	budget := sc.BudgetS
	if budget == 0 {
		budget = 60
	}
	if tier == "quick" && budget < 150 && replay == "" {
		// every quick scenario completes well inside its budget on an idle 16-core machine; the floor only keeps a
		// loaded machine from cutting a search short (a cut search is reported as exhaustive:false, never as a pass
		// of what it did not cover)
		budget = 150
	}
	timeout := time.Duration(budget*1.5+120) * time.Second
	cmd := exec.Command(bin, "-test.run", "^"+sc.Test+"$", "-test.count=1", "-test.timeout", timeout.String(), "-test.v")
	cmd.Dir = scratch
	cmd.Env = append(os.Environ(),
		"GOMAXPROCS=1", "GOGC=200",
		"VERIF_TIER="+tier,
		fmt.Sprintf("VERIF_SHARD=%d/%d", shard, nshards),
		fmt.Sprintf("VERIF_BUDGET_S=%g", budget),
		"VERIF_OUT="+out,
		"VERIF_PARAMS="+sc.Params,
		"VERIF_REPLAY="+replay,
		"GORACE=log_path="+out+".race halt_on_error=0 exitcode=0",
	)
	o, err := cmd.CombinedOutput()
	b, rerr := os.ReadFile(out)
	if rerr != nil {
		tail := string(o)
		if len(tail) > 4000 {
			tail = tail[len(tail)-4000:]
		}
		return nil, fmt.Errorf("no result file (exit: %v)\n%s", err, tail)
	}
	wr := &WorkerResult{}
	if jerr := json.Unmarshal(b, wr); jerr != nil {
		return nil, fmt.Errorf("bad result file: %v", jerr)
	}
	if wr.Scenario == "" {
		wr.Scenario = sc.Name
	}
	wr.Scenario = sc.Name
	if wr.Error != "" {
		return nil, fmt.Errorf("harness error: %s", wr.Error)
	}
	if err != nil && len(wr.Violations) == 0 {
		tail := string(o)
		if len(tail) > 4000 {
			tail = tail[len(tail)-4000:]
		}
		return nil, fmt.Errorf("worker exited with %v\n%s", err, tail)
	}
	return wr, nil
}

func loadFindings() []*Finding {
	var fs []*Finding
	b, err := os.ReadFile(filepath.Join(verifDir, "known_findings.jsonl"))
	if err != nil {
		return nil
	}
	for _, line := range strings.Split(string(b), "\n") {
		line = strings.TrimSpace(line)
		if !strings.HasPrefix(line, "{") {
			continue // "fixed: ..." lines and comments suppress nothing
		}
		f := &Finding{}
		if err := json.Unmarshal([]byte(line), f); err != nil {
			fatal(2, "known_findings.jsonl: %v", err)
		}
		f.re = regexp.MustCompile("^(?:" + f.Signature + ")$")
		if f.Scenario != "" {
			f.sre = regexp.MustCompile(f.Scenario)
		}
		fs = append(fs, f)
	}
	return fs
}

func matchFinding(fs []*Finding, prop, scenario string, v *Violation) *Finding {
	for _, f := range fs {
		if f.Property != prop || f.Clause != v.Clause {
			continue
		}
		if f.sre != nil && !f.sre.MatchString(scenario) {
			continue
		}
		if f.re.MatchString(v.Signature) {
			return f
		}
	}
	return nil
}

// report merges the worker results of one check, writes evidence and prints the verdict.
// partialRun is set when --only restricts the scenario set; such a run must not overwrite evidence/<id>.json.
var partialRun bool

func report(c *Check, rs []*WorkerResult, findings []*Finding, tier string, seed int, wall float64) int {
	sort.Slice(rs, func(i, j int) bool {
		if rs[i].Scenario != rs[j].Scenario {
			return rs[i].Scenario < rs[j].Scenario
		}
		return rs[i].Shard < rs[j].Shard
	})
	var execs, states, trans, completed, pruned int64
	outcomes := map[string]struct{}{}
	exhaustive := true
	var caps, notes []string
	var samples []any
	perScenario := map[string]map[string]any{}
	maxDepth := 0
	type hit struct {
		scenario string
		v        *Violation
	}
	var hits []hit
	for _, r := range rs {
		execs += r.Executions
		states += r.States
		trans += r.Transitions
		completed += r.Completed
		pruned += r.Pruned
		if r.MaxDepth > maxDepth {
			maxDepth = r.MaxDepth
		}
		for _, o := range r.Outcomes {
			outcomes[r.Scenario+"/"+o] = struct{}{}
		}
		if !r.Exhaustive {
			exhaustive = false
		}
		for _, cp := range r.Caps {
			caps = append(caps, fmt.Sprintf("%s[%d]: %s", r.Scenario, r.Shard, cp))
		}
		for _, n := range r.Notes {
			notes = append(notes, r.Scenario+": "+n)
		}
		if len(samples) < 8 {
			for _, s := range r.Samples {
				if len(samples) < 8 {
					samples = append(samples, s)
				}
			}
		}
		ps := perScenario[r.Scenario]
		if ps == nil {
			ps = map[string]any{"engine": r.Engine, "executions": int64(0), "states": int64(0), "transitions": int64(0), "bounds": r.Bounds, "shards": 0, "max_depth": 0, "wall_s_max": 0.0, "outcomes": 0}
			perScenario[r.Scenario] = ps
		}
		ps["executions"] = ps["executions"].(int64) + r.Executions
		ps["states"] = ps["states"].(int64) + r.States
		ps["transitions"] = ps["transitions"].(int64) + r.Transitions
		ps["shards"] = ps["shards"].(int) + 1
		if r.MaxDepth > ps["max_depth"].(int) {
			ps["max_depth"] = r.MaxDepth
		}
		if r.WallS > ps["wall_s_max"].(float64) {
			ps["wall_s_max"] = r.WallS
		}
		for _, v := range r.Violations {
			hits = append(hits, hit{r.Scenario, v})
		}
	}
	for sc, ps := range perScenario {
		n := 0
		for o := range outcomes {
			if strings.HasPrefix(o, sc+"/") {
				n++
			}
		}
		ps["outcomes"] = n
	}
	// classify violations
	code := 0
	known := map[string]int64{}
	knownWhat := map[string]string{}
	type newV struct {
		scenario string
		v        *Violation
	}
	var fresh []newV
	seen := map[string]bool{}
	sort.SliceStable(hits, func(i, j int) bool { return hits[i].v.Cost < hits[j].v.Cost })
	for _, h := range hits {
		if f := matchFinding(findings, c.ID, h.scenario, h.v); f != nil {
			k := f.Clause + "|" + f.Signature
			known[k] += h.v.Count
			knownWhat[k] = f.What
			continue
		}
		k := h.scenario + "|" + h.v.Clause + "|" + h.v.Signature
		if seen[k] {
			continue
		}
		seen[k] = true
		fresh = append(fresh, newV{h.scenario, h.v})
	}
	var kk []string
	for k := range known {
		kk = append(kk, k)
	}
	sort.Strings(kk)
	for _, k := range kk {
		fmt.Printf("KNOWN-FINDING: property=%s %s (%d executions)\n", c.ID, knownWhat[k], known[k])
	}
	for _, nv := range fresh {
		code = 1
		dir := filepath.Join(verifDir, "replays", c.ID)
		if os.Getenv("VERIF_REPO") != "" {
			dir = filepath.Join(verifDir, "replays-mut", c.ID)
		}
		os.MkdirAll(dir, 0o755)
		h := sha1.Sum([]byte(nv.scenario + nv.v.Clause + nv.v.Signature))
		path := filepath.Join(dir, fmt.Sprintf("%s-%s.json", sanitize(nv.scenario), hex.EncodeToString(h[:4])))
		art := map[string]any{"property": c.ID, "scenario": nv.scenario, "clause": nv.v.Clause, "signature": nv.v.Signature,
			"detail": nv.v.Detail, "cost": nv.v.Cost, "count": nv.v.Count, "replay": nv.v.Replay, "tier": tier}
		b, _ := json.MarshalIndent(art, "", " ")
		os.WriteFile(path, b, 0o644)
		fmt.Printf("VIOLATION property=%s replay=%s\n", c.ID, path)
		fmt.Printf("  scenario=%s clause=%s signature=%s cost=%d count=%d\n  %s\n", nv.scenario, nv.v.Clause, nv.v.Signature, nv.v.Cost, nv.v.Count, firstLines(nv.v.Detail, 12))
	}
	// evidence
	cov := map[string]any{
		"exhaustive":               exhaustive,
		"samples":                  samples,
		"per_scenario":             perScenario,
		"caps_hit":                 caps,
		"max_depth":                maxDepth,
		"rule":                     c.Rule,
		"completed_executions":     completed,
		"pruned_executions":        pruned,
		"distinct_outcomes":        len(outcomes),
		"known_finding_executions": known,
	}
	if len(samples) == 0 {
		cov["samples"] = []any{"(no sample recorded)"}
	}
	switch c.Level {
	case "model_checking":
		cov["states"] = states
		cov["transitions"] = trans
		cov["traces_validated_against_impl"] = execs
		cov["evaluations"] = execs
		cov["distinct_nontrivial"] = len(outcomes)
	default:
		cov["evaluations"] = execs
		cov["distinct_nontrivial"] = len(outcomes)
		cov["states"] = states
		cov["transitions"] = trans
	}
	if caps == nil {
		caps = []string{}
	}
	cov["caps_hit"] = caps
	if notes == nil {
		notes = []string{}
	}
	assume := c.Assume
	if assume == nil {
		assume = []string{}
	}
	ev := map[string]any{
		"property_id": c.ID, "tier": tier, "seed": seed, "level": c.Level, "coverage": cov,
		"assumptions": assume, "wall_s": wall, "violations": len(fresh), "notes": notes,
	}
	evDir := filepath.Join(verifDir, "evidence")
	if os.Getenv("VERIF_REPO") != "" {
		evDir = filepath.Join(verifDir, "evidence-mut") // runs against a scratch copy never touch the real evidence
	} else if partialRun {
		evDir = filepath.Join(verifDir, "evidence-partial") // --only runs cover a subset of the scenarios: not the property's evidence
	}
	os.MkdirAll(evDir, 0o755)
	b, _ := json.MarshalIndent(ev, "", " ")
	if err := os.WriteFile(filepath.Join(evDir, c.ID+".json"), b, 0o644); err != nil {
		fatal(2, "evidence: %v", err)
	}
	fmt.Printf("%s %s: executions=%d states=%d transitions=%d outcomes=%d exhaustive=%v violations=%d known=%d wall=%.1fs\n",
		c.ID, tier, execs, states, trans, len(outcomes), exhaustive, len(fresh), len(known), wall)
	return code
}

func firstLines(s string, n int) string {
	l := strings.Split(s, "\n")
	if len(l) > n {
		l = l[:n]
	}
	return strings.Join(l, "\n  ")
}

func doReplay(c *Check, path, scratch string) int {
	b, err := os.ReadFile(path)
	if err != nil {
		fatal(2, "%v", err)
	}
	var art struct {
		Scenario string `json:"scenario"`
		Tier     string `json:"tier"`
	}
	if err := json.Unmarshal(b, &art); err != nil {
		fatal(2, "%v", err)
	}
	for _, scs := range [][]Scenario{c.Quick, c.Thorough} {
		for _, sc := range scs {
			if sc.Name != art.Scenario {
				continue
			}
			bins, err := buildAll(scratch, sc.Build.key(), sc.Build, map[string]bool{sc.Pkg: true})
			if err != nil {
				fatal(2, "%v", err)
			}
			os.MkdirAll(filepath.Join(scratch, "out"), 0o755)
			wr, err := runWorker(bins[sc.Pkg], scratch, sc, 0, 1, "quick", filepath.Join(scratch, "out", "replay.json"), path)
			if err != nil {
				fatal(2, "%v", err)
			}
			for _, n := range wr.Notes {
				fmt.Println(n)
			}
			if len(wr.Violations) > 0 {
				for _, v := range wr.Violations {
					fmt.Printf("REPRODUCED clause=%s signature=%s\n  %s\n", v.Clause, v.Signature, firstLines(v.Detail, 20))
				}
				return 1
			}
			fmt.Println("replay: no violation")
			return 0
		}
	}
	fatal(2, "scenario %q not found for %s", art.Scenario, c.ID)
	return 2
}

// conformance builds the repository's own internal tests against the INSTRUMENTED package with no
// scheduler active (every shim then delegates to the real primitive it wraps) and runs them: the suite
// must pass exactly as on the plain tree. A guard on the trusted base (DESIGN.md §5).
func conformance() int {
	if d := os.Getenv("VERIF_DIR"); d != "" {
		verifDir = d
	}
	if d := os.Getenv("VERIF_REPO"); d != "" {
		repo = d
	}
	scratch, err := os.MkdirTemp("", "verif-conf-")
	if err != nil {
		fatal(2, "%v", err)
	}
	defer os.RemoveAll(scratch)
	b := Build{Kind: "conf", Track: true}
	bins, err := buildAll(scratch, b.key(), b, map[string]bool{"internal": true})
	if err != nil {
		fmt.Println("CONFORMANCE: build failed:", err)
		return 2
	}
	cmd := exec.Command(bins["internal"], "-test.count=1", "-test.timeout", "20m")
	cmd.Dir = filepath.Join(repo, "internal")
	o, err := cmd.CombinedOutput()
	tail := string(o)
	if len(tail) > 3000 {
		tail = tail[len(tail)-3000:]
	}
	fmt.Println(tail)
	if err != nil {
		fmt.Println("CONFORMANCE: the repository's internal tests FAIL on the instrumented build:", err)
		return 1
	}
	fmt.Println("CONFORMANCE: the repository's internal tests pass on the instrumented build (shims delegating to the real primitives)")
	return 0
}
