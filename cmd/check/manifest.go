package main

import (
	"bufio"
	"encoding/json"
	"fmt"
	"os"
	"path/filepath"
)

// notApplicable: properties not (yet) claimed, with the reason.
var notApplicable = map[string]string{}

const goenv = "GOFLAGS=-mod=mod GOPROXY=off GOSUMDB=off GOTOOLCHAIN=local"

// writeManifest regenerates MANIFEST.json from the registry so the two cannot drift.
func writeManifest() {
	f, err := os.Open(filepath.Join(verifDir, "properties.jsonl"))
	if err != nil {
		fatal(2, "%v", err)
	}
	var ids []string
	sc := bufio.NewScanner(f)
	sc.Buffer(make([]byte, 1<<20), 1<<24)
	for sc.Scan() {
		var p struct {
			ID string `json:"id"`
		}
		if json.Unmarshal(sc.Bytes(), &p) == nil && p.ID != "" {
			ids = append(ids, p.ID)
		}
	}
	reg := map[string]*Check{}
	for _, c := range registry() {
		reg[c.ID] = c
	}
	var checks []map[string]any
	var na []map[string]string
	engines := map[string][]string{}
	for _, id := range ids {
		c := reg[id]
		if c == nil {
			r := notApplicable[id]
			if r == "" {
				r = "check not built yet (construction in progress, see DESIGN.md section 7)"
			}
			na = append(na, map[string]string{"property_id": id, "reason": r})
			continue
		}
		m := map[string]any{
			"property_id":         id,
			"quick_cmd":           fmt.Sprintf("./bin/check %s --tier quick", id),
			"thorough_cmd":        fmt.Sprintf("./bin/check %s --tier thorough", id),
			"evidence_file":       fmt.Sprintf("/verif/evidence/%s.json", id),
			"replay_cmd_template": fmt.Sprintf("./bin/check %s --replay {path}", id),
			"engine":              c.Engine,
			"level_claimed":       map[string]string{"category": c.Level, "text": c.LevelText, "design_ref": c.DesignRef},
			"level_note":          c.LevelNote,
			"technique":           c.Technique,
		}
		checks = append(checks, m)
		engines[c.Engine] = append(engines[c.Engine], id)
	}
	var engs []map[string]any
	for _, e := range engineCatalogue {
		if len(engines[e.Name]) == 0 {
			continue
		}
		engs = append(engs, map[string]any{"name": e.Name, "path": e.Path, "kind_free_text": e.Kind, "serves_properties": engines[e.Name]})
	}
	man := map[string]any{
		"version":   1,
		"setup_cmd": "cd /verif && " + goenv + " go build -o bin/check ./cmd/check && ./bin/check all --build-only",
		"hooks": map[string]any{
			"guard":            "verif",
			"enable":           "no hook is committed to /repo: every check instruments /repo's working tree on the fly (cmd/check -> internal/instr) and builds it with `go test -c -overlay <generated> -tags verif,vsched` (scheduler builds) or `-tags verif,vplain` (plain builds); with the tag off none of the overlay-only files exist",
			"baseline_off_cmd": "cd /repo && " + goenv + " go test -vet=off -count=1 -timeout 25m ./...",
			"source_commits":   []string{},
			"add_only":         true,
		},
		"engines":        engs,
		"checks":         checks,
		"not_applicable": na,
		"notes":          "see DESIGN.md; fix: commits in /repo are listed in known_findings.jsonl as 'fixed:' lines",
	}
	if na == nil {
		man["not_applicable"] = []any{}
	}
	b, _ := json.MarshalIndent(man, "", " ")
	if err := os.WriteFile(filepath.Join(verifDir, "MANIFEST.json"), append(b, '\n'), 0o644); err != nil {
		fatal(2, "%v", err)
	}
	fmt.Printf("MANIFEST.json: %d checks, %d not applicable\n", len(checks), len(na))
}

type engineInfo struct{ Name, Path, Kind string }

var engineCatalogue = []engineInfo{
	{"E1-ICB", "rt/vrt (scheduler, explore.go) + internal/instr", "stateless DFS over schedules of the instrumented real code under a cooperative scheduler, iterative preemption bounding + bounded environment deviations"},
	{"E1-SK", "rt/vrt (scheduler with state-key pruning)", "the same scheduler, exhaustive without preemption bound by visited-set pruning on (shared snapshot, per-thread position and learned values)"},
	{"E2-BFS", "harness/* (explicit-state BFS drivers), rt/vrt/manual.go", "explicit-state breadth-first search over operation sequences on the real sequential cores / the whole store in big steps; successor = replay on a fresh object + one operation; canonical state hashing"},
	{"E4-HB", "rt/vrt/hb.go (vector clocks) + internal/instr/track.go (access probes), on the E1-ICB explorer", "happens-before race monitor evaluated on every schedule explored by the stateless model checker"},
	{"EX-ENUM", "harness/* (exhaustive enumeration drivers), rt/vrt/vc18 (key catalogue)", "exhaustive enumeration of a finite catalogue of configurations x inputs (every ordered pair / every value), each case executed on the real code"},
	{"E3-FAULT", "harness/* (fault enumeration drivers)", "exhaustive enumeration of truncations, bit flips, byte stamps, block permutations and secondary-store failure scripts"},
}
