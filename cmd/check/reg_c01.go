package main

func init() {
	mk := func(driver string, shards int, p string, budget float64) Scenario {
		return Scenario{Name: "C01/" + driver, Build: schedCoarse, Pkg: "internal", Test: "TestVerif_C01", Params: "driver=" + driver + ",P=" + p, Shards: shards, BudgetS: budget}
	}
	buf2 := Build{Kind: "sched", Coarse: []string{"rbmutex.go", "counter.go", "buffer.go"}, Consts: map[string]string{"buffer.go:capacity": "2"}}
	mk2 := func(driver string, shards int, p string, budget float64) Scenario {
		return Scenario{Name: "C01/" + driver, Build: buf2, Pkg: "internal", Test: "TestVerif_C01", Params: "driver=" + driver + ",P=" + p, Shards: shards, BudgetS: budget}
	}
	rb := func(driver string, budget float64) Scenario {
		return Scenario{Name: "C01/rbmutex-" + driver, Build: sched, Pkg: "internal", Test: "TestVerif_RBMutex", Params: "driver=" + driver, Shards: 1, BudgetS: budget}
	}
	register(&Check{
		ID: "C01", Level: "model_checking", Engine: "E1-ICB", DesignRef: "DESIGN.md §4 C01, §3.1",
		Technique: "stateless model checking of the real Store under a controlled scheduler (iterative preemption bounding); every explored history checked for linearizability (Wing-Gong search) against a sequential map",
		LevelText: "every schedule within the preemption bound of 2-3 clients x 2-3 calls (Set/Get/Delete/Range/loading Get) on two keys forced into one shard is executed on the real instrumented store together with its maintenance goroutine, in the plain, entry-pool, doorkeeper and loading configurations and under capacity pressure; each recorded call/return history, extended by the removals the listener witnessed, must be linearizable w.r.t. a map, and the final resident map must be the result of a linearization; right level because stale/resurrected/cross-key values need particular interleavings of the shard critical sections with eviction and entry recycling",
		LevelNote: "trusted: instrumenter + vrt models of Mutex/RWMutex/channels/Pool; bounded: <=3 clients, <=3 calls each, preemptions <=2 (thorough 3), one environment deviation (select tie-break / pool-fresh)",
		Rule:      "stateless DFS over schedules, iterative preemption bound; outcome = (read results, final map, listener log) per driver",
		Assume:    []string{"sequentially consistent interleavings of the shimmed operations", "values unique per write, so a read identifies the write it observed"},
		Quick: []Scenario{
			mk("L1-set-get-del", 6, "2", 60), mk("L2-update-reset", 4, "2", 60), mk("L3-pressure", 6, "2", 60), mk("L3-pressure-pool", 6, "2", 60),
			mk("L1-pool", 4, "2", 60), mk("L1-doorkeeper", 6, "2", 60), mk("L4-loading", 6, "2", 60), mk("L4-loading-reload", 4, "2", 60), mk("L5-range", 4, "2", 60), mk2("L6-pool-hit-vs-recycle", 6, "2", 60), mk2("L6L-pool-loading-hit-vs-recycle", 6, "2", 60),
			rb("2r1w-s1", 60), rb("1r2w-s1", 60), rb("2r1w-s2", 60), rb("try-s1", 60), rb("try-s2", 60), rb("rebias-s1", 60), rb("rebias-s2", 60),
		},
		Thorough: []Scenario{
			mk("L1-set-get-del", 16, "3", 900), mk("L2-update-reset", 16, "3", 900), mk("L3-pressure", 16, "3", 900), mk("L3-pressure-pool", 16, "3", 900),
			mk("L1-pool", 16, "3", 900), mk("L1-doorkeeper", 16, "3", 900), mk("L4-loading", 16, "3", 900), mk("L4-loading-reload", 16, "3", 900), mk("L5-range", 16, "3", 900), mk2("L6-pool-hit-vs-recycle", 16, "3", 900), mk2("L6L-pool-loading-hit-vs-recycle", 16, "3", 900),
			rb("2r1w-s1", 600), rb("1r2w-s1", 600), rb("2r1w-s2", 600), rb("try-s1", 600), rb("try-s2", 600), rb("rebias-s1", 600), rb("rebias-s2", 600),
		},
	})
}
