package main

func init() {
	mk := func(cfg string, shards int, depth string, budget float64) Scenario {
		p := "cfg=" + cfg
		if depth != "" {
			p += ",depth=" + depth
		}
		return Scenario{Name: "C02/bfs-" + cfg, Build: sched, Pkg: "internal", Test: "TestVerif_C02", Params: p, Shards: shards, BudgetS: budget}
	}
	rd := func(cfg string, shards int, depth string, budget float64) Scenario {
		sc := mk(cfg, shards, depth, budget)
		sc.Build = Build{Kind: "sched", Consts: map[string]string{"buffer.go:capacity": "2"}}
		return sc
	}
	icb := func(driver string, shards int, p string, budget float64) Scenario {
		return Scenario{Name: "C02/icb-" + driver, Build: schedCoarse, Pkg: "internal", Test: "TestVerif_C02Icb", Params: "driver=" + driver + ",P=" + p, Shards: shards, BudgetS: budget}
	}
	register(&Check{
		ID: "C02", Level: "model_checking", Engine: "E2-BFS", DesignRef: "DESIGN.md §4 C02, §3.3",
		Technique: "explicit-state breadth-first search over two-phase event orders on the real instrumented Store (scheduler manual mode: big steps), invariants in every state and after draining every state",
		LevelText: "every order of map phases, queue sends, maintenance batches and timer ticks of 2-3 clients issuing Set/SetWithTTL/cost-changing Set/Delete on 2-3 keys (MaxSize 1-3, queue capacity 1-2, batch size 1-2) is executed on the real store goroutine bodies; in every reachable state the in-flight bound is checked, and every reachable state is additionally drained to quiescence where Σcost<=MaxSize, ==EstimatedSize==policy total, each resident entry in exactly one region with its current cost, every TTL entry scheduled; right level because lost/double events only show under specific arrival orders, which this enumerates completely up to the depth bound",
		LevelNote: "trusted: instrumenter + vrt models; bounded: depth 7-10 big steps, <=3 clients, <=2 calls each, entry pool off (as the property states); interleavings inside one call's critical section are covered by the E1-ICB driver C02/ttl-window",
		Rule:      "BFS over action lists (B=start call up to its queue send, F=send+finish, M=one maintenance batch, T=tick); successor = fresh store + replay + 1 action; states deduplicated on a canonical rendering of maps, regions, wheel, queue, pending sends, sketch; outcome = (violated clauses, resident set, #notifications) of the drained state",
		Assume:    []string{"a big step runs one thread alone between two named stopping points (finer interleavings: E1-ICB drivers)", "entry pool off"},
		Quick: []Scenario{
			mk("m1-2c", 8, "12", 60), mk("m2-cost", 8, "9", 60), mk("m2-ttl", 16, "8", 60), mk("m3-3c", 8, "9", 60), mk("m2-q1", 8, "9", 60),
			rd("m3-reads", 8, "14", 60), mk("m3-loading", 8, "8", 60),
			icb("ttl-window", 8, "2", 60), icb("ttl-window-new", 8, "2", 60), icb("cost-updates", 8, "2", 60),
		},
		Thorough: []Scenario{
			mk("m1-2c", 16, "10", 600), mk("m2-cost", 16, "9", 600), mk("m2-ttl", 16, "9", 600), mk("m3-3c", 16, "9", 600), mk("m2-q1", 16, "9", 600),
			rd("m3-reads", 16, "18", 600),
			{Name: "C02/bfs-m2-cost-3clients", Build: sched, Pkg: "internal", Test: "TestVerif_C02", Params: "cfg=m2-cost,depth=13,clients=3,ops=2", Shards: 16, BudgetS: 600},
			{Name: "C02/bfs-m2-ttl-3clients", Build: sched, Pkg: "internal", Test: "TestVerif_C02", Params: "cfg=m2-ttl,depth=10,clients=3,ops=2", Shards: 16, BudgetS: 600}, mk("m3-loading", 16, "10", 600),
			icb("ttl-window", 16, "3", 900), icb("ttl-window-new", 16, "3", 900), icb("cost-updates", 16, "3", 900),
		},
	})
}
