package main

func init() {
	mk := func(cfg string, shards int, depth string, budget float64) Scenario {
		p := "cfg=" + cfg
		if depth != "" {
			p += ",depth=" + depth
		}
		return Scenario{Name: "C03/bfs-" + cfg, Build: sched, Pkg: "internal", Test: "TestVerif_C03", Params: p, Shards: shards, BudgetS: budget}
	}
	load := Scenario{Name: "C03/after-load", Build: plain, Pkg: "internal", Test: "TestVerif_C03Load", Shards: 4, BudgetS: 60}
	register(&Check{
		ID: "C03", Level: "model_checking", Engine: "E2-BFS", DesignRef: "DESIGN.md §4 C03, §3.3",
		Technique: "explicit-state breadth-first search with a virtual clock over TTL / read-time / tick / stall patterns on the real instrumented Store (big steps); every hit compared with the reference deadline",
		LevelText: "every sequence (to the depth bound) of SetWithTTL over a boundary TTL alphabet (1 ns, 1 s, 30 s-1, 30 s, 30 s+1, 61 s, 2 h, 2^62, MaxInt64-5 s, MaxInt64), re-arming SetWithTTL, TTL-less Set, Get, loading Get and Range, with clock advances to deadline-1 ns / deadline / deadline+1 ns and by 29/31/61 s, each with the ticker body run or not (a path without T is a stalled maintenance) is executed on the real store under a virtual clock; each hit or Range visit must lie strictly before the reference deadline; right level because the failing cases are specific relations between TTL, read time, the 30 s cached-clock window and tick delivery",
		LevelNote: "trusted: instrumenter + vtime virtual clock; time is virtual, so the Go runtime's ticker accuracy is out of scope; bounded: depth 7-9 big steps",
		Rule:      "BFS over action lists (B/F/M big steps, T tick, A absolute advance, D deadline-relative advance); successor = fresh store + replay + 1 action; canonical state dedup; outcome = sequence of (read kind, late?) observations",
		Assume:    []string{"virtual clock: time.Now/Since/Ticker are the vtime shims", "a TTL-less Set writes a value the property does not constrain"},
		Quick: []Scenario{
			mk("edges", 16, "7", 60), mk("stall", 16, "7", 60), mk("rearm", 8, "8", 60), mk("huge", 4, "6", 60), mk("idle", 8, "6", 60), mk("refused", 8, "7", 60), mk("loading", 8, "7", 60), load,
		},
		Thorough: []Scenario{
			mk("edges", 16, "10", 600), mk("stall", 16, "10", 600), mk("rearm", 16, "11", 600), mk("huge", 8, "8", 600), mk("idle", 16, "8", 600), mk("refused", 16, "9", 600), mk("loading", 16, "10", 600), load,
		},
	})
}
