package main

func init() {
	register(&Check{
		ID: "C04", Level: "model_checking", Engine: "E2-BFS+E1-ICB", DesignRef: "DESIGN.md §4 C04, §3.3",
		Technique: "explicit-state breadth-first search over schedule / reschedule / remove / advance sequences on the real TimerWheel with virtual time, plus an exhaustive single-entry sweep (boundary deadlines x start times x advance patterns) and a step-driven run of the real Store paths",
		LevelText: "the real TimerWheel is rebuilt and replayed for every operation sequence up to the depth bound (2 entries; deadlines adjacent to the slot boundaries and wrap-around of all five wheels, recomputed relative to the current wheel time in every state; advances of 1 s, 1 tick, 63/64/65 ticks and full rotations +-1 tick of every level, 10 days, and advances aimed at deadline-1ns / deadline / deadline+tick-1ns / deadline+tick / slot end); states are deduplicated on a canonical key (wheel time, per entry deadline, level, slot, list position) and every distinct state is additionally run to completion under three follow-up patterns (1 s ticker cadence, one jump to exactly deadline+2^30 ns, one far jump). After every operation the oracle checks: never reported before the deadline, reported exactly once, gone by the first advance at or after deadline + 2^30 ns, all 165 bucket rings well formed and every entry in the slot its deadline maps to. The right level because the property quantifies over deadlines, start phases and advance patterns jointly, and lateness only shows for particular alignments of the three.",
		LevelNote: "bounded: 2 entries (3 in one thorough scenario), depth 3-4 operations before the follow-up, boundary-value families for deadlines (19 reduced / ~60 full per state), start times (3-8) and advance lengths (9 reduced / 21 full) - not all 2^63 times; nothing is modelled: TimerWheel, List and Entry are the repository's code and time is the explicit argument of advance (a fresh wheel's nanos field is set to the start time). The store scenario stops the two background goroutines and calls the same functions (Set, sinkWrite, the ticker body RefreshNowCache+advance(0, removeEntry)) in a fixed order with clock.Start shifted, so store-level concurrency (a TTL change racing the expiry between TimerWheel.expire's test and removeEntry's re-check) is only probed by a hand-made interleaving and reported as a note; it belongs to C02. Real-time accuracy of the Go ticker is out of scope (DESIGN §5). The *-past scenarios and store cases feed the wheel a deadline that already lies before the wheel time (an UPDATE/NEW event applied late); there the upper bound is counted from the moment of scheduling.",
		Rule:      "successor = fresh real wheel + replay of the operation list + one more enabled operation; the alphabet is a deterministic function of the state; distinct states by canonical key per start time; outcomes = per-incarnation (level at schedule, number of advances at/after the deadline that failed to report it | removed | rescheduled)",
		Assume:    []string{"time only moves forward between advances (the ticker's monotonic clock)", "deadlines lie after the wheel time at (re)schedule except in the *-past scenarios, which cover an UPDATE event applied after its new deadline has passed", "small scope: <=3 entries, depth <=4, boundary-value families for deadlines, start times and advance lengths"},
		Quick: []Scenario{
			{Name: "C04/bfs-d3", Build: plain, Pkg: "internal", Test: "TestVerif_C04", Params: "mode=bfs,depth=3,ents=2,reddl=1,redadv=0,t0=mid", Shards: 4, BudgetS: 60},
			{Name: "C04/bfs-d4-reduced", Build: plain, Pkg: "internal", Test: "TestVerif_C04", Params: "mode=bfs,depth=4,ents=2,reddl=1,redadv=1,t0=pair", Shards: 10, BudgetS: 80},
			{Name: "C04/bfs-past-d3", Build: plain, Pkg: "internal", Test: "TestVerif_C04", Params: "mode=bfs,depth=3,ents=1,reddl=1,redadv=1,past=1,t0=small", Shards: 1, BudgetS: 60},
			{Name: "C04/sweep", Build: plain, Pkg: "internal", Test: "TestVerif_C04", Params: "mode=sweep,t0=all", Shards: 2, BudgetS: 60},
			{Name: "C04/store", Build: plain, Pkg: "internal", Test: "TestVerif_C04", Params: "mode=store,past=1", Shards: 1, BudgetS: 60},
			// "no earlier than its deadline, whatever its earlier deadlines were": the TTL-extension-in-the-expiry-window drivers written for C06 (the extended value must not be reported at all)
			{Name: "C04/icb-X1-ttl-extended-in-expiry-window", Build: schedCoarse, Pkg: "internal", Test: "TestVerif_C06Icb", Params: "driver=X1-ttl-extended-in-expiry-window,P=2", Shards: 4, BudgetS: 60},
			{Name: "C04/icb-K1-tick-vs-size-poll", Build: schedCoarse, Pkg: "internal", Test: "TestVerif_C04_ICB", Params: "driver=K1-tick-vs-size-poll,P=2", Shards: 4, BudgetS: 60},
			{Name: "C04/icb-K2-tick-vs-writes", Build: schedCoarse, Pkg: "internal", Test: "TestVerif_C04_ICB", Params: "driver=K2-tick-vs-writes,P=2", Shards: 8, BudgetS: 60},
			{Name: "C04/icb-K3-tick-vs-reads", Build: schedCoarse, Pkg: "internal", Test: "TestVerif_C04_ICB", Params: "driver=K3-tick-vs-reads,P=2", Shards: 4, BudgetS: 60},
		},
		Thorough: []Scenario{
			{Name: "C04/icb-X1-ttl-extended-in-expiry-window", Build: schedCoarse, Pkg: "internal", Test: "TestVerif_C06Icb", Params: "driver=X1-ttl-extended-in-expiry-window,P=3", Shards: 8, BudgetS: 600},
			{Name: "C04/icb-K1-tick-vs-size-poll", Build: schedCoarse, Pkg: "internal", Test: "TestVerif_C04_ICB", Params: "driver=K1-tick-vs-size-poll,P=3", Shards: 8, BudgetS: 600},
			{Name: "C04/icb-K2-tick-vs-writes", Build: schedCoarse, Pkg: "internal", Test: "TestVerif_C04_ICB", Params: "driver=K2-tick-vs-writes,P=3", Shards: 16, BudgetS: 600},
			{Name: "C04/icb-K3-tick-vs-reads", Build: schedCoarse, Pkg: "internal", Test: "TestVerif_C04_ICB", Params: "driver=K3-tick-vs-reads,P=3", Shards: 8, BudgetS: 600},
			{Name: "C04/bfs-d4", Build: plain, Pkg: "internal", Test: "TestVerif_C04", Params: "mode=bfs,depth=4,ents=2,reddl=1,redadv=0,t0=mid", Shards: 16, BudgetS: 780},
			{Name: "C04/bfs-3ents-d4", Build: plain, Pkg: "internal", Test: "TestVerif_C04", Params: "mode=bfs,depth=4,ents=3,reddl=1,redadv=1,t0=small", Shards: 8, BudgetS: 780},
			{Name: "C04/bfs-fulldl-d3", Build: plain, Pkg: "internal", Test: "TestVerif_C04", Params: "mode=bfs,depth=3,ents=2,reddl=0,redadv=0,t0=all", Shards: 16, BudgetS: 780},
			{Name: "C04/bfs-past-d4", Build: plain, Pkg: "internal", Test: "TestVerif_C04", Params: "mode=bfs,depth=4,ents=2,reddl=1,redadv=1,past=1,t0=small", Shards: 8, BudgetS: 780},
			{Name: "C04/sweep", Build: plain, Pkg: "internal", Test: "TestVerif_C04", Params: "mode=sweep,t0=all", Shards: 8, BudgetS: 600},
			{Name: "C04/store", Build: plain, Pkg: "internal", Test: "TestVerif_C04", Params: "mode=store,past=1", Shards: 4, BudgetS: 300},
		},
	})
}
