package main

func init() {
	mk := func(cfg string, shards int, depth string, budget float64) Scenario {
		p := "cfg=" + cfg
		if depth != "" {
			p += ",depth=" + depth
		}
		return Scenario{Name: "C05/bfs-" + cfg, Build: sched, Pkg: "internal", Test: "TestVerif_C05", Params: p, Shards: shards, BudgetS: budget}
	}
	icb := func(driver string, shards int, p string, budget float64) Scenario {
		return Scenario{Name: "C05/icb-" + driver, Build: schedCoarse, Pkg: "internal", Test: "TestVerif_C05Icb", Params: "driver=" + driver + ",P=" + p, Shards: shards, BudgetS: budget}
	}
	hyb := func(driver string, shards int, pp string, budget float64) Scenario {
		return Scenario{Name: "C05/hybrid-" + driver, Build: schedCoarse, Pkg: "internal", Test: "TestVerif_C05_Hybrid", Params: "driver=" + driver + ",P=" + pp, Shards: shards, BudgetS: budget}
	}
	register(&Check{
		ID: "C05", Level: "model_checking", Engine: "E2-BFS", DesignRef: "DESIGN.md §4 C05, §3.3",
		Technique: "explicit-state breadth-first search over delete/evict/expire overlaps on the real instrumented Store (big steps) with a recording removal listener; notification accounting checked after draining every reachable state",
		LevelText: "every order in which the map removal of a Delete, the arrival of its REMOVE event, evictions caused by other inserts and timer ticks can overlap for 2-3 clients on 2-3 keys (MaxSize 1-2, entry pool off and on) is executed on the real store; every reachable state is drained and the listener log compared with the incarnations stored: stored = resident + notified, no duplicates, last value, matching reason; right level because lost/duplicated notifications arise only when those steps overlap, and the overlap orders are enumerated completely up to the depth bound",
		LevelNote: "trusted: instrumenter + vrt models; bounded: depth 9-12 big steps, <=3 clients, <=2 calls each; interleavings inside a critical section are covered by the E1-ICB drivers of C01/C19 which reuse this oracle",
		Rule:      "BFS over action lists (B/F/M/T big steps); successor = fresh store + replay + 1 action; canonical state dedup; outcome = (#stored, #resident, sorted reasons, missing) of the drained state",
		Assume:    []string{"a big step runs one thread alone between two named stopping points", "values are unique per Set so a notification identifies its incarnation"},
		Quick: []Scenario{
			mk("m1", 8, "12", 60), mk("m1-ttl", 16, "9", 60), mk("m2-3c", 16, "9", 60), mk("m1-pool", 8, "12", 60), mk("m1-pool-ttl", 8, "9", 60), mk("m1-pool-reuse", 4, "11", 60),
			icb("del-vs-evict", 8, "2", 60), icb("del-vs-expire", 8, "2", 60), icb("del-vs-evict-pool", 8, "2", 60), icb("update-vs-evict", 8, "2", 60), icb("update-vs-expire", 8, "2", 60), icb("extend-vs-expire", 6, "2", 60),
			hyb("HY1-delete-vs-worker", 4, "2", 60), hyb("HY1p-delete-vs-worker-pool", 6, "2", 60), hyb("HY2p-delete-set-vs-worker-pool", 6, "2", 60), hyb("HY3-failed-secondary-delete", 4, "2", 60),
		},
		Thorough: []Scenario{
			{Name: "C05/bfs-m1-3clients", Build: sched, Pkg: "internal", Test: "TestVerif_C05", Params: "cfg=m1,depth=13,clients=3,ops=2", Shards: 16, BudgetS: 600},
			{Name: "C05/bfs-m1-ttl-3clients", Build: sched, Pkg: "internal", Test: "TestVerif_C05", Params: "cfg=m1-ttl,depth=10,clients=3,ops=2", Shards: 16, BudgetS: 600},
			mk("m1", 16, "14", 600), mk("m1-ttl", 16, "11", 600), mk("m2-3c", 16, "11", 600), mk("m1-pool", 16, "14", 600), mk("m1-pool-ttl", 16, "11", 600), mk("m1-pool-reuse", 8, "13", 600),
			icb("del-vs-evict", 16, "3", 900), icb("del-vs-expire", 16, "3", 900), icb("del-vs-evict-pool", 16, "3", 900), icb("update-vs-evict", 16, "3", 900), icb("update-vs-expire", 16, "3", 900), icb("extend-vs-expire", 16, "3", 900),
		},
	})
}
