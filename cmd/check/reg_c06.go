package main

func init() {
	mk := func(cfg string, shards int, depth string, budget float64) Scenario {
		p := "cfg=" + cfg
		if depth != "" {
			p += ",depth=" + depth
		}
		return Scenario{Name: "C06/bfs-" + cfg, Build: sched, Pkg: "internal", Test: "TestVerif_C06", Params: p, Shards: shards, BudgetS: budget}
	}
	icb := func(driver string, shards int, p string, budget float64) Scenario {
		return Scenario{Name: "C06/icb-" + driver, Build: schedCoarse, Pkg: "internal", Test: "TestVerif_C06Icb", Params: "driver=" + driver + ",P=" + p, Shards: shards, BudgetS: budget}
	}
	register(&Check{
		ID: "C06", Level: "model_checking", Engine: "E2-BFS", DesignRef: "DESIGN.md §4 C06, §3.3",
		Technique: "explicit-state breadth-first search over API operation sequences with a virtual clock on the real instrumented Store (big steps), compared step by step with a reference map model; plus stateless model checking (E1-ICB, preemption bound 2, thorough 3) of a TTL extension racing the expiry path between the timer wheel's deadline check and removeEntry",
		LevelText: "every sequence (to the depth bound) of Set / SetWithTTL / cost-changing Set / over-cost Set / Delete / loading Get (loader cost 1 or MaxSize+1, with/without TTL) on 2-3 keys, with clock advances past deadlines with and without a timer tick, doorkeeper on/off, MaxSize 2-3, is executed on the real store in every order of its asynchronous steps; Set's result, read-back at the linearization point, the reference deadline rule and 'loss needs a reason' are checked in every drained state; right level because the failing cases need specific sequences (write after expiry before reclamation, loader cost above MaxSize, cost changes arriving reordered)",
		LevelNote: "trusted: instrumenter + vrt models; reference model = map + deadlines + doorkeeper seen-set (no filter reset occurs within the bounds: asserted); bounded: depth 9-12 big steps, <=3 clients",
		Rule:      "BFS over action lists (B/F/M/T/A big steps); successor = fresh store + replay + 1 action; canonical state dedup; outcome = (Set results, resident map, #notifications, max stored cost) of the drained state",
		Assume:    []string{"a big step runs one thread alone between two named stopping points", "capacity pressure is measured as the cost of everything stored and not yet reported (expired-but-unreclaimed and deleted-but-unprocessed entries still occupy the policy)"},
		Quick: []Scenario{
			{Name: "C06/doorkeeper-reset", Build: plain, Pkg: "internal", Test: "TestVerif_C06Door", Shards: 2, BudgetS: 60},
			{Name: "C06/doorkeeper-filter", Build: plain, Pkg: "internal", Test: "TestVerif_C06Bloom", Shards: 2, BudgetS: 60},
			icb("X1-ttl-extended-in-expiry-window", 6, "2", 60), icb("X2-extended-then-rewritten", 6, "2", 60), icb("X3-loading-read-after-extension", 6, "2", 60),
			mk("ttl-mix", 16, "10", 60), mk("cost", 8, "9", 60), mk("cost3", 8, "9", 60), mk("doorkeeper", 8, "9", 60), mk("loader-big", 8, "9", 60), mk("loader-costfn", 8, "9", 60), mk("loader-ttl", 8, "9", 60), mk("loader-slow", 4, "7", 60), mk("loader-huge-ttl", 4, "6", 60),
		},
		Thorough: []Scenario{
			{Name: "C06/doorkeeper-reset", Build: plain, Pkg: "internal", Test: "TestVerif_C06Door", Shards: 16, BudgetS: 600},
			{Name: "C06/doorkeeper-filter", Build: plain, Pkg: "internal", Test: "TestVerif_C06Bloom", Shards: 4, BudgetS: 600},
			icb("X1-ttl-extended-in-expiry-window", 16, "3", 600), icb("X2-extended-then-rewritten", 16, "3", 600), icb("X3-loading-read-after-extension", 16, "3", 600),
			{Name: "C06/bfs-cost-3clients", Build: sched, Pkg: "internal", Test: "TestVerif_C06", Params: "cfg=cost,depth=13,clients=3,ops=2", Shards: 16, BudgetS: 600},
			{Name: "C06/bfs-ttl-mix-2clients", Build: sched, Pkg: "internal", Test: "TestVerif_C06", Params: "cfg=ttl-mix,depth=11,clients=2,ops=3", Shards: 16, BudgetS: 600},
			mk("ttl-mix", 16, "13", 600), mk("cost", 16, "12", 600), mk("cost3", 16, "12", 600), mk("doorkeeper", 16, "12", 600), mk("loader-big", 16, "11", 600), mk("loader-costfn", 16, "11", 600), mk("loader-ttl", 16, "11", 600), mk("loader-slow", 8, "9", 600), mk("loader-huge-ttl", 8, "8", 600),
		},
	})
}
