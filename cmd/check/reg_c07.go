package main

func init() {
	sc := func(name, params string, budget float64) Scenario {
		return Scenario{Name: "C07/" + name, Build: plain, Pkg: "internal", Test: "TestVerif_C07", Params: params, Shards: 1, BudgetS: budget}
	}
	register(&Check{
		ID: "C07", Level: "model_checking", Engine: "E2-BFS", DesignRef: "DESIGN.md §4 C07, §3.3",
		Technique: "explicit-state breadth-first search over operation sequences on the real TinyLfu/Slru/List (un-instrumented build, white-box, sequential): successor = fresh NewTinyLfu + replay of the history + one more operation; canonical-state hash (128-bit) for deduplication; all invariants of the property evaluated after every transition",
		LevelText: "every sequence up to the depth bound over Set(e,cost) / Access(e) / UpdateCost(e,cost') / Remove(e) / Freq(e,n) (sketch contents) / Climb(hits:misses) is executed on the real policy for capacities 1,2,3,4,6 (all costs 1..cap), 20 and 32 (cost subset) with 5 keys, driven with exactly the call protocol of store.sinkWrite/drainRead/removeEntry; after each step: regions disjoint and covering exactly the tracked entries, region flag = list, len = sum of weights, count = number of entries, weightedSize = sum of region sizes, weightedSize <= capacity after Set/UpdateCost, window capacity >= 1, no capacity >= 2^63, window+protected capacity conserved, list links intact, no panic, at most 20 removal callbacks per call (termination). The right level because the property quantifies over operation histories of a small sequential data structure whose state collapses to a few hundred thousand canonical states: breadth-first enumeration on the real code decides it within the bounds with no model to keep in sync",
		LevelNote: "bounded: 5 keys, depth quick 8 (capacity 1-4), 7 (6), 6 (20), 5 (32) / thorough 9 (capacity 3: 11, 4: 10; 20 and 32: 7), costs 1..cap (capacity 20/32: {1,2,3,cap/2,cap-1,cap}, all 20 costs at depth 5), sketch estimates 0..5, sample ratios {repeat, 1:99, 50:50, 99:1}; trusted: (1) the admission coin is never tossed (estimates are clamped to 5 < ADMIT_HASHDOS_THRESHOLD) — its outcomes are covered by enumerating estimates, since within one evictFromMain every candidate is compared once against an earlier entry, so any coin sequence equals some estimate assignment; (2) the five keys have pairwise disjoint sketch counters (searched with the real indexOf/rehash, asserted), so entries are interchangeable up to (position, weight, estimate) and the canonical state drops identities; (3) start states cap20-w8/-w16 set window/protected capacity directly to a split that only a long run of productive climbs reaches; (4) a loop that never calls back (evictFromWindow on an inconsistent list) cannot be counted: a 40 s no-progress failsafe on a microsecond call reports it; not covered: sketch reset/aging (needs 640 additions), sketch growth, Set on an already tracked entry and costs > capacity (the Store never issues them; the loader path that does is C06)",
		Rule:      "BFS frontier of shortest histories; alphabet ordered Set, Access, Remove, UpdateCost, Freq, Climb; untracked keys with equal estimate are symmetric (lowest index only); canonical state = per region the front-to-back sequence of (weight, estimate) + sorted estimates of untracked keys + window/protected capacity + (amount, step bits, hr bits) unless the climber is provably inert (|step|<1 and capacity*0.0625<1); an outcome = (op kind, evicted self/others, window capacity delta, resize remainder, cache exactly full); replay determinism is asserted for every expanded state",
		Assume: []string{
			"call protocol of store.go: policyWeight is adjusted by the caller before Set/UpdateCost; one Set per Entry object; Access/UpdateCost/Remove only for entries linked in the policy; costs within 1..capacity",
			"the admission coin (xruntime.Fastrand) is avoided by keeping sketch estimates <= 5; its effect is subsumed by enumerating estimates",
			"keys with disjoint sketch counters make entries interchangeable (symmetry reduction of the canonical state)",
			"sample counters are set directly to h+m=700 (> SampleSize 640) and the guarded climb+resizeWindow block is run through the real Access with a nil entry",
			"non-termination without removal callbacks is detected only by a no-progress failsafe (40 s on one policy call)",
		},
		Quick: []Scenario{
			sc("cap1", "cap=1,n=5,depth=8", 60),
			sc("cap2", "cap=2,n=5,depth=8", 60),
			sc("cap3", "cap=3,n=5,depth=8", 60),
			sc("cap4", "cap=4,n=5,depth=8", 60),
			sc("cap6", "cap=6,n=5,depth=7", 60),
			sc("cap20", "cap=20,n=5,depth=6,costs=1/2/3/10/19/20", 60),
			sc("cap20-w16", "cap=20,n=5,depth=6,w0=16,costs=1/2/3/10/19/20", 60),
			sc("cap32", "cap=32,n=5,depth=5,costs=1/2/3/16/31/32", 60),
		},
		Thorough: []Scenario{
			sc("cap1", "cap=1,n=5,depth=9", 840),
			sc("cap2", "cap=2,n=5,depth=9", 840),
			sc("cap3", "cap=3,n=5,depth=11", 840),
			sc("cap4", "cap=4,n=5,depth=10", 840),
			sc("cap6", "cap=6,n=5,depth=9,maxstates=8000000", 840),
			sc("cap20", "cap=20,n=5,depth=7,costs=1/2/3/10/19/20,maxstates=12000000", 840),
			sc("cap20-w8", "cap=20,n=5,depth=7,w0=8,costs=1/2/3/10/19/20,maxstates=12000000", 840),
			sc("cap20-w16", "cap=20,n=5,depth=7,w0=16,costs=1/2/3/10/19/20,maxstates=12000000", 840),
			sc("cap20-allcosts", "cap=20,n=5,depth=5", 840),
			sc("cap32", "cap=32,n=5,depth=7,costs=1/2/3/16/31/32,maxstates=12000000", 840),
		},
	})
}
