package main

func init() {
	cap2 := Build{Kind: "sched", Consts: map[string]string{"buffer.go:capacity": "2"}}
	cap4 := Build{Kind: "sched", Consts: map[string]string{"buffer.go:capacity": "4"}}
	// store level: the atomics of buffer.go must stay scheduling points (schedCoarse would hide them)
	st2 := Build{Kind: "sched", Coarse: []string{"rbmutex.go", "counter.go"}, Consts: map[string]string{"buffer.go:capacity": "2"}}
	// E1-SK scenarios are never sharded: the visited set is per process, and measured on this component a
	// first-level split makes every shard re-explore nearly the whole state space (8 shards: 6.5x the work).
	sk := func(tag string, b Build, driver string, budget float64) Scenario {
		return Scenario{Name: "C08/" + tag + "-" + driver, Build: b, Pkg: "internal", Test: "TestVerif_C08Buffer", Params: "driver=" + driver, Shards: 1, BudgetS: budget}
	}
	icb := func(tag string, b Build, driver string, shards int, p string, budget float64) Scenario {
		return Scenario{Name: "C08/" + tag + "-" + driver + "-icb", Build: b, Pkg: "internal", Test: "TestVerif_C08Buffer", Params: "driver=" + driver + ",P=" + p, Shards: shards, BudgetS: budget}
	}
	store := func(driver string, shards int, p string, budget float64) Scenario {
		return Scenario{Name: "C08/store-" + driver, Build: st2, Pkg: "internal", Test: "TestVerif_C08Store", Params: "driver=" + driver + ",P=" + p, Shards: shards, BudgetS: budget}
	}
	register(&Check{
		ID: "C08", Level: "model_checking", Engine: "E1-SK", DesignRef: "DESIGN.md §4 C08, §3.2",
		Technique: "exhaustive state-matching search (E1-SK) of the REAL lossy read Buffer with `capacity` rewritten to 2 and 4, every atomic of buffer.go a scheduling point and unbounded preemptions; stateless model checking (E1-ICB, iterative preemption bound) of the unmodified capacity-16 Buffer from a prefilled ring and of Store.Get / LoadingStore.Get hits on one stripe while the policy lock is held elsewhere",
		LevelText: "(B1) all interleavings, at single-atomic granularity, of 2-3 threads each adding up to capacity+1 uniquely numbered items to one real Buffer (capacity 2 and 4), the thread that is handed a batch doing what Store.Get does (wait for the policy lock = one scheduling point, then Free): every delivered id was added, none is delivered twice, never two holders of the batch and the batch does not change while held, and from EVERY terminal state a sequential tail of 2*capacity+2 further Adds yields a batch (no wedge); (B2) the same oracle on the real capacity 16 with a ring prefilled to 15 and a drainer that frees late against 17 concurrent Adds, all schedules with <= 3 (thorough 4) preemptions; (B3) 2-3 clients hitting one resident key through the real Store.Get / LoadingStore.Get on one stripe while a holder thread or the maintenance goroutine keeps policyMu: afterwards 2*capacity+2 further hits must raise the key's sketch estimate and the estimate never exceeds the number of real hits. Right level because the wedge and any duplication need specific interleavings of Add, drain and a late Free that no API-level test can force",
		LevelNote: "trusted: instrumenter + vrt models (sequentially consistent atomics), the constant rewrite capacity 16 -> 2/4 (mask derives from it; the algorithm does not otherwise depend on the value); bounded: 2-3 threads, <= capacity+1 adds per thread, one hold point per drainer; B2/B3 bounded by preemptions; E1-SK soundness rests on the state key = (head, tail, token, id in every slot, ids in the policy buffer, per-thread results so far) + per-thread chain of values learned from atomics",
		Rule:      "component: DFS over schedules with state-key pruning, terminal outcome = per-thread Add results (nil or the ids of the batch) + terminal ring occupancy; a wedge is classified by the terminal ring state (full-ring-with-free-token / full-ring-drained-slots / ring-overfull / token-never-returned); store: stateless DFS with iterative preemption bound, outcome = (ring occupancy, estimate before -> after the tail)",
		Assume: []string{"sequentially consistent atomics", "dropping events is allowed by the statement (lossy): lost ids are never a violation",
			"the drainer's wait for the policy lock is a single scheduling point (B1/B2); at store level it is the real policyMu"},
		Quick: []Scenario{
			{Name: "C08/delivered-batch", Build: plain, Pkg: "internal", Test: "TestVerif_C08Batch", Params: "len=5", Shards: 2, BudgetS: 60},
			{Name: "C08/delivered-once", Build: plain, Pkg: "internal", Test: "TestVerif_C08Once", Params: "len=4", Shards: 2, BudgetS: 60},
			sk("cap2", cap2, "2x2", 60), icb("cap2", cap2, "2x2", 1, "3", 60), sk("cap2", cap2, "2x3", 60), sk("cap2", cap2, "3-311", 60), sk("cap2", cap2, "3-221", 60),
			sk("cap4", cap4, "2x3", 60), sk("cap4", cap4, "2x4", 60), sk("cap4", cap4, "3-221", 60),
			icb("cap16", sched, "late-free", 4, "3", 60),
			store("S1-2x2-holder", 1, "2", 60), store("S3-2x2-writer", 2, "2", 60), store("S5-loading-2x2-holder", 1, "2", 60), store("S4-3x2-holder", 4, "2", 60), store("S7-2x2-loadcache", 4, "2", 60), store("S8-hybrid-2x2-holder", 2, "2", 60), store("S8L-hybrid-loading-2x2-holder", 2, "2", 60),
		},
		Thorough: []Scenario{
			{Name: "C08/delivered-batch", Build: plain, Pkg: "internal", Test: "TestVerif_C08Batch", Params: "len=8", Shards: 8, BudgetS: 600},
			{Name: "C08/delivered-once", Build: plain, Pkg: "internal", Test: "TestVerif_C08Once", Params: "len=6", Shards: 8, BudgetS: 600},
			{Name: "C08/delivered-once-pool", Build: plain, Pkg: "internal", Test: "TestVerif_C08Once", Params: "len=8,pool=1", Shards: 16, BudgetS: 600},
			sk("cap2", cap2, "2x2", 600), icb("cap2", cap2, "2x2", 1, "4", 600), sk("cap2", cap2, "2x3", 600), sk("cap2", cap2, "2x4", 840), sk("cap2", cap2, "3x2", 840), sk("cap2", cap2, "3-322", 840),
			sk("cap4", cap4, "2x4", 600), sk("cap4", cap4, "2x5", 840), sk("cap4", cap4, "3-221", 600), sk("cap4", cap4, "3x2", 840),
			icb("cap16", sched, "late-free", 16, "4", 840),
			store("S1-2x2-holder", 2, "3", 600), store("S2-2x3-holder", 8, "3", 600), store("S3-2x2-writer", 4, "3", 600), store("S4-3x2-holder", 16, "3", 840),
			store("S5-loading-2x2-holder", 2, "3", 600), store("S6-2x3-writer", 16, "3", 840), store("S7-2x2-loadcache", 8, "3", 600), store("S8-hybrid-2x2-holder", 4, "3", 600), store("S8L-hybrid-loading-2x2-holder", 4, "3", 600),
		},
	})
}
