package main

import (
	"fmt"
	"math"
	"strings"
)

// c09Pump builds a start program that walks the hill climber's window up on a MaxSize-16 cache: n samples of 641
// events whose read share follows .5 .4 .5 .6 .7 .8 .9 1 .9 .8 .9 1 ... (a worse sample reverses the step, a better one
// keeps it; |delta| >= 0.05 keeps the step at one entry). kind "cl": sample counters set white-box, one delivered read
// triggers the climb; kind "ph": real traffic (delivered hot reads evenly interleaved with one-off inserts).
func c09Pump(kind string, n int) string {
	hrs := []float64{.5, .4, .5, .6, .7, .8, .9, 1, .9, .8, .9, 1, .9, .8, .9, 1, .9, .8, .9, 1}
	var s []string
	for _, hr := range hrs[:n] {
		h := int(math.Round(641 * hr))
		s = append(s, fmt.Sprintf("%s%d:%d", kind, h, 641-h))
	}
	return strings.Join(s, "+")
}

func init() {
	sc := func(name, params string, shards int, budget float64) Scenario {
		return Scenario{Name: "C09/" + name, Build: plain, Pkg: "internal", Test: "TestVerif_C09", Params: "name=" + name + "," + params, Shards: shards, BudgetS: budget}
	}
	grid := func(size, shards int, budget float64) Scenario {
		name := fmt.Sprintf("grid-%d-evidence-only", size)
		return Scenario{Name: "C09/" + name, Build: plain, Pkg: "internal", Test: "TestVerif_C09Grid", Params: fmt.Sprintf("name=%s,size=%d", name, size), Shards: shards, BudgetS: budget}
	}
	fill := "ph24:8+" // fills the cache (8 one-off inserts between reads) before the white-box climb steps
	register(&Check{
		ID: "C09", Level: "model_checking", Engine: "E2-BFS", DesignRef: "DESIGN.md §4 C09, §5",
		Technique: "explicit-state breadth-first search over operation sequences on the real Store (un-instrumented build, white-box, driven synchronously: Wait after every write, every read delivered through the real drainRead): successor = fresh NewStore + start program + warm-up + replay of the history + one more operation; 128-bit canonical-state hash for deduplication; the oracle is evaluated after every operation. A fixed grid of generated traces against a reference LRU is attached as supporting evidence only",
		LevelText: "DECIDED (first sentence of the statement, its deterministic core): for MaxSize 4, 8, 16 and hot sets of 1..MaxSize/2 keys, after every hot key was Set and read 3 times (reads delivered), EVERY sequence up to the depth bound over {delivered read of h (each h in H), insertion of a never-seen key} keeps all of H resident (shard map + policy list) and makes every Get of a hot key a hit — from a fresh cache and from non-fresh start states: sketch about to age / aged by real traffic, window moved by the hill climber (sample counters set white-box, and by real traffic made only of hot reads and one-off inserts), and a cache whose single read stripe is in the wedged state C08 reports after concurrent use (reads then travel only through the real Get path; a control scenario with a healthy stripe runs the same program). Model checking is the right level for this half because the policy is a small sequential state machine behind the store's queues: with synchronous driving its state collapses to 10^3..10^6 canonical states and enumeration on the real code decides the bounded claim with no model to keep in sync. NOT DECIDED (second half: 'converges to nearly 100 %', 'hit ratio >= LRU on Zipf traces'): these quantify over distributions of long traces; the grid scenarios (named evidence-only) evaluate 48 listed cells per cache size and alarm only below floors set under the values measured on the unchanged tree",
		LevelNote: "bounded: MaxSize in {4,8,16}; |H| <= MaxSize/2; warm-up of exactly 3 delivered reads per hot key; unit costs in the search; depth per scenario (quick 5..14, thorough 5..30) plus, where insert_tail is set, every visited state extended by up to 12..16 consecutive inserts; one read stripe; reads delivered one by one (mode flush: real Get, then drainRead(stripe.items()) and stripe.Clear() as the repository's persistence test does) or only by the real Buffer.Add (mode getpath, bursts of 32 Gets). canonical state 'exact' = region lists with concrete keys + whole sketch table + sample/climber fields + number of one-off keys used (no assumption); 'role' = region lists of (hot/one-off, sketch estimate) + capacities + sample/climber fields + Additions, exact under the asserted precondition that hot, resident and fresh keys have pairwise disjoint sketch counters (keys searched with the real indexOf/rehash; checked at every start state), so real counter collisions are only covered by the 'exact' scenarios. trusted: the observation hook (public StringKeyFunc returning the key's 8 raw bytes: asserted to hash exactly like the default path) that logs which (candidate, victim) pair admit compared; admit's 1/128 coin cannot be controlled in a plain build: the harness proves per comparison whether the coin was reached (candidate estimate >= 6 and <= victim's); that only happens hot-vs-hot, where either result evicts a hot key, any other occurrence is reported as a cap. white-box start states (Additions, sample counters, the wedged ring) are states, not histories: their reachability is argued by C07/C08 and, for the moved window, by the traffic-* scenarios which reach it with real operations only. The grid half is evidence, not a decision: fixed seeds (hand-written splitmix64), universe 20*size, 40*size requests, skews 0.8 and 1.05, uniform and mixed (1..4) costs, plain and loading store; the two-tier kinds by the scenario hybrid-hot-set only (18 fully listed cases, supporting evidence)",
		Rule:      "BFS frontier of shortest histories over the alphabet read h1..h|H|, insert (getpath mode: burst, insert); canonical state as described in level_note; violating states are not expanded; replay determinism asserted for every expanded state (canonical hash of the replayed history must equal the stored one); shards split the frontier at depth 3 (a state reachable from two parts is counted by both: counts are upper bounds, exploration is complete); distinct outcome = (operation kind, region move of the read key | comparison made and who lost | direct eviction, sketch reset, climb and window delta); grid: one execution per cell, outcome = cell class + margin bucket",
		Assume: []string{
			"decides only the deterministic core of the first sentence (hot set retained, every hot read a hit, within the bounds); the distributional half (convergence, >= LRU on Zipf traces) is supported by a fixed grid and NOT decided",
			"synchronous driving: Wait after every Set, every hit delivered before the next operation (flush mode); concurrency enters only as a start state (wedged stripe of C08)",
			"role-canonical scenarios assume pairwise disjoint sketch counters of the keys involved (asserted); exact-canonical scenarios assume nothing",
			"admit's random coin is never reached except in hot-vs-hot comparisons (checked per comparison from the logged pair and the real estimates)",
			"grid floors: Zipf cells alarm below the reference LRU's hit ratio (measured margin on the unchanged tree: +0.035 .. +0.13 over sizes 50/500/5000), hot-set cells below 0.99 (measured 1.0000, at size 5000 >= 0.9998)",
		},
		Quick: []Scenario{
			{Name: "C09/hybrid-hot-set", Build: plain, Pkg: "internal", Test: "TestVerif_C09Hybrid", Shards: 6, BudgetS: 60},
			sc("fresh-4-h1", "max=4,h=1,depth=14,canon=exact,tail=12", 1, 60),
			sc("fresh-4-h2", "max=4,h=2,depth=14,canon=exact,tail=12", 1, 60),
			sc("fresh-8-h4", "max=8,h=4,depth=9,canon=exact", 1, 60),
			sc("fresh-8-h2-role", "max=8,h=2,depth=14,canon=role,tail=16", 1, 60),
			sc("fresh-8-h4-role", "max=8,h=4,depth=13,canon=role,tail=16", 1, 60),
			sc("fresh-16-h8", "max=16,h=8,depth=6,canon=exact", 2, 60),
			sc("fresh-16-h4-role", "max=16,h=4,depth=12,canon=role,tail=16", 1, 60),
			sc("fresh-16-h8-role", "max=16,h=8,depth=10,canon=role,tail=16", 1, 60),
			sc("aged-4-h2", "max=4,h=2,depth=12,canon=role,start=age3,tail=12", 1, 60),
			sc("aged-8-h4", "max=8,h=4,depth=11,canon=role,start=age3,tail=12", 1, 60),
			sc("aged-16-h8", "max=16,h=8,depth=9,canon=role,start=age3,tail=12", 1, 60),
			sc("aged-twice-4-h2", "max=4,h=2,depth=10,canon=role,start=age1+ph0:1+age1+ph0:1,tail=12", 1, 60),
			sc("aged-twice-8-h4", "max=8,h=4,depth=9,canon=role,start=age1+ph0:1+age1+ph0:1,tail=12", 1, 60),
			sc("aged-traffic-8-h4", "max=8,h=4,depth=5,canon=exact,start=ph700:700,tail=12", 1, 60),
			sc("climbed-16-w2", "max=16,h=8,depth=9,canon=role,tail=12,start="+fill+c09Pump("cl", 2), 1, 60),
			sc("climbed-16-w4", "max=16,h=8,depth=9,canon=role,tail=12,start="+fill+c09Pump("cl", 4), 1, 60),
			sc("climbed-16-w8", "max=16,h=8,depth=9,canon=role,tail=12,start="+fill+c09Pump("cl", 8), 1, 60),
			sc("climbed-16-w10", "max=16,h=8,depth=8,canon=role,start="+fill+c09Pump("cl", 12), 2, 60),
			sc("traffic-16-w4", "max=16,h=8,depth=2,canon=exact,tail=12,start="+c09Pump("ph", 4), 1, 60),
			sc("traffic-16-w10", "max=16,h=8,depth=1,canon=exact,tail=12,start="+c09Pump("ph", 12), 1, 60),
			sc("wedged-aged-4-h2", "max=4,h=2,depth=8,canon=exact,mode=getpath,wedge=1,start=age3", 1, 60),
			sc("healthy-getpath-aged-4-h2", "max=4,h=2,depth=8,canon=exact,mode=getpath,start=age3", 1, 60),
			sc("wedged-traffic-4-h2", "max=4,h=2,depth=6,canon=exact,mode=getpath,wedge=1,start=ph40:630", 1, 60),
			sc("healthy-getpath-traffic-4-h2", "max=4,h=2,depth=6,canon=exact,mode=getpath,start=ph40:630", 1, 60),
			sc("wedged-traffic-8-h4", "max=8,h=4,depth=6,canon=exact,mode=getpath,wedge=1,start=ph40:630", 1, 60),
			sc("healthy-getpath-traffic-8-h4", "max=8,h=4,depth=6,canon=exact,mode=getpath,start=ph40:630", 1, 60),
			grid(50, 1, 60),
			grid(64, 1, 60), // a power of two: MaxSize == sketch table length
			grid(500, 2, 60),
		},
		Thorough: []Scenario{
			{Name: "C09/hybrid-hot-set", Build: plain, Pkg: "internal", Test: "TestVerif_C09Hybrid", Shards: 9, BudgetS: 600},
			sc("fresh-4-h1", "max=4,h=1,depth=30,canon=exact,tail=16", 1, 600),
			sc("fresh-4-h2", "max=4,h=2,depth=28,canon=exact,tail=16", 2, 600),
			sc("fresh-8-h2", "max=8,h=2,depth=20,canon=exact,tail=16", 2, 600),
			sc("fresh-8-h3", "max=8,h=3,depth=14,canon=exact", 4, 800),
			sc("fresh-8-h4", "max=8,h=4,depth=13,canon=exact,maxstates=6000000", 8, 800),
			sc("fresh-8-h3-role", "max=8,h=3,depth=24,canon=role,tail=16", 2, 800),
			sc("fresh-8-h4-role", "max=8,h=4,depth=20,canon=role,tail=16", 4, 800),
			sc("fresh-16-h8", "max=16,h=8,depth=7,canon=exact,maxstates=6000000", 4, 800),
			sc("fresh-16-h4-role", "max=16,h=4,depth=18,canon=role,tail=16", 8, 800),
			sc("fresh-16-h6-role", "max=16,h=6,depth=15,canon=role,tail=16", 8, 800),
			sc("fresh-16-h8-role", "max=16,h=8,depth=14,canon=role,tail=16", 8, 800),
			sc("aged-4-h2", "max=4,h=2,depth=24,canon=role,start=age3,tail=16", 2, 600),
			sc("aged-8-h4", "max=8,h=4,depth=20,canon=role,start=age3,tail=16", 8, 800),
			sc("aged-16-h8", "max=16,h=8,depth=14,canon=role,start=age3,tail=16", 8, 800),
			sc("aged-twice-4-h2", "max=4,h=2,depth=20,canon=role,start=age1+ph0:1+age1+ph0:1,tail=16", 2, 600),
			sc("aged-twice-8-h4", "max=8,h=4,depth=18,canon=role,start=age1+ph0:1+age1+ph0:1,tail=16", 8, 800),
			sc("aged-twice-16-h8", "max=16,h=8,depth=13,canon=role,start=age1+ph0:1+age1+ph0:1,tail=16", 8, 800),
			sc("aged-traffic-4-h2", "max=4,h=2,depth=10,canon=exact,start=ph700:700,tail=12", 2, 800),
			sc("aged-traffic-8-h4", "max=8,h=4,depth=8,canon=exact,start=ph700:700,tail=12", 8, 800),
			sc("aged-traffic-16-h8", "max=16,h=8,depth=5,canon=exact,start=ph700:700,tail=12", 8, 800),
			sc("climbed-16-w2", "max=16,h=8,depth=12,canon=role,tail=12,start="+fill+c09Pump("cl", 2), 8, 800),
			sc("climbed-16-w4", "max=16,h=8,depth=11,canon=role,tail=12,start="+fill+c09Pump("cl", 4), 8, 800),
			sc("climbed-16-w8", "max=16,h=8,depth=12,canon=role,tail=12,start="+fill+c09Pump("cl", 8), 8, 800),
			sc("climbed-16-w10", "max=16,h=8,depth=9,canon=role,start="+fill+c09Pump("cl", 12), 8, 800),
			sc("climbed-16-w12", "max=16,h=8,depth=9,canon=role,start="+fill+c09Pump("cl", 16), 8, 800),
			sc("climbed-16-w13", "max=16,h=8,depth=8,canon=role,start="+fill+c09Pump("cl", 20), 8, 800),
			sc("climbed-16-h4-w10", "max=16,h=4,depth=13,canon=role,tail=12,start="+fill+c09Pump("cl", 12), 8, 800),
			sc("traffic-16-w4", "max=16,h=8,depth=4,canon=exact,tail=12,start="+c09Pump("ph", 4), 8, 800),
			sc("traffic-16-w8", "max=16,h=8,depth=3,canon=exact,tail=12,start="+c09Pump("ph", 8), 8, 800),
			sc("traffic-16-w10", "max=16,h=8,depth=3,canon=exact,tail=12,start="+c09Pump("ph", 12), 8, 800),
			sc("wedged-aged-4-h2", "max=4,h=2,depth=12,canon=exact,mode=getpath,wedge=1,start=age3", 1, 600),
			sc("healthy-getpath-aged-4-h2", "max=4,h=2,depth=12,canon=exact,mode=getpath,start=age3", 1, 600),
			sc("wedged-aged-8-h4", "max=8,h=4,depth=12,canon=exact,mode=getpath,wedge=1,start=age3", 1, 600),
			sc("healthy-getpath-aged-8-h4", "max=8,h=4,depth=12,canon=exact,mode=getpath,start=age3", 1, 600),
			sc("wedged-traffic-4-h2", "max=4,h=2,depth=10,canon=exact,mode=getpath,wedge=1,start=ph40:630", 1, 600),
			sc("healthy-getpath-traffic-4-h2", "max=4,h=2,depth=10,canon=exact,mode=getpath,start=ph40:630", 1, 600),
			sc("wedged-traffic-8-h4", "max=8,h=4,depth=10,canon=exact,mode=getpath,wedge=1,start=ph40:630", 1, 600),
			sc("healthy-getpath-traffic-8-h4", "max=8,h=4,depth=10,canon=exact,mode=getpath,start=ph40:630", 1, 600),
			sc("wedged-traffic-16-h8", "max=16,h=8,depth=10,canon=exact,mode=getpath,wedge=1,start=ph40:630", 1, 600),
			sc("healthy-getpath-traffic-16-h8", "max=16,h=8,depth=10,canon=exact,mode=getpath,start=ph40:630", 1, 600),
			grid(50, 1, 300),
			grid(64, 1, 300),
			grid(1024, 4, 300),
			grid(500, 4, 300),
			grid(5000, 16, 800),
		},
	})
}
