package main

func init() {
	mk := func(driver string, shards int, p string, budget float64) Scenario {
		return Scenario{Name: "C10/" + driver, Build: schedCoarse, Pkg: "internal", Test: "TestVerif_C10", Params: "driver=" + driver + ",P=" + p, Shards: shards, BudgetS: budget}
	}
	register(&Check{
		ID: "C10", Level: "model_checking", Engine: "E1-ICB", DesignRef: "DESIGN.md §4 C10",
		Technique: "stateless model checking of the real Store under a controlled scheduler (iterative preemption bounding): Close at every scheduling point of concurrent writers/readers/Wait/loading Gets; deadlock = no enabled thread; leak = store-spawned thread not finished at the end",
		LevelText: "every schedule within the preemption bound in which Close races 2-3 clients (writers outnumbering a queue of capacity 1, Wait callers, readers/Range/Len/EstimatedSize/Stats, SaveCache, loading Gets, hybrid lookups and deletes with a demotion queued, an eviction or an expiry pending, a second Close) on the real store; the scheduler reports any state in which a client call can never return, an epilogue after Close checks Get/Set/Delete/Len/Range/loading Get/Wait semantics, and at the end every goroutine the store started must have exited; right level because the failing cases need Close to land while a writer is parked on the full queue or between a Wait's marker send and its wake-up",
		LevelNote: "trusted: instrumenter + vrt models (context cancellation is a closed-channel flag); bounded: <=4 clients x <=2 calls, preemptions <=2 (thorough 3); the hybrid store (demotion workers) is covered by drivers D5, D5b, D10, D10b; calls issued through the exported wrappers after Close (all cache kinds) are checked by the root-package scenario C10/api-wiring",
		Rule:      "stateless DFS with iterative preemption bound; outcome = per-call results + size of the final map",
		Assume:    []string{"sequentially consistent atomics", "a thread is leaked iff it was spawned (transitively) by NewStore and is not finished when nothing else can run"},
		Quick: []Scenario{
			mk("D1-writers-full-queue", 8, "2", 60), mk("D2-wait-vs-close", 4, "2", 60), mk("D2b-close-then-wait", 4, "2", 60), mk("D3-readers", 8, "2", 60), mk("D4-loading", 6, "2", 60), mk("D5-hybrid", 6, "2", 60), mk("D6-close-close", 6, "2", 60), mk("D7-close-vs-eviction", 6, "2", 60), mk("D8-close-vs-expiry", 6, "2", 60),
			mk("D9-close-vs-save", 6, "2", 60), mk("D9b-close-vs-views", 6, "2", 60), mk("D10-hybrid-lookup-delete", 6, "2", 60), mk("D10b-hybrid-loading", 6, "2", 60), mk("D10d-hybrid-get-after-close", 4, "2", 60), mk("D11-no-close-two-waiters", 8, "2", 60), mk("D10c-hybrid-failed-delete", 6, "2", 60),
			mk("D1d-deleters-full-queue", 6, "2", 60), mk("D1h-hybrid-deleters-full-queue", 6, "2", 60), mk("D1L-loaders-full-queue", 6, "2", 60),
		},
		Thorough: []Scenario{
			mk("D1-writers-full-queue", 16, "3", 900), mk("D1b-three-writers", 16, "2", 900), mk("D2-wait-vs-close", 16, "3", 900), mk("D2b-close-then-wait", 16, "3", 900), mk("D3-readers", 16, "3", 900), mk("D4-loading", 16, "3", 900), mk("D5-hybrid", 16, "3", 900), mk("D5b-hybrid-2workers", 16, "2", 900), mk("D6-close-close", 16, "3", 900), mk("D7-close-vs-eviction", 16, "3", 900), mk("D8-close-vs-expiry", 16, "3", 900),
			mk("D9-close-vs-save", 16, "3", 900), mk("D9b-close-vs-views", 16, "3", 900), mk("D10-hybrid-lookup-delete", 16, "3", 900), mk("D10b-hybrid-loading", 16, "3", 900), mk("D10d-hybrid-get-after-close", 16, "3", 900), mk("D11-no-close-two-waiters", 16, "3", 900), mk("D10c-hybrid-failed-delete", 16, "3", 900),
			mk("D1d-deleters-full-queue", 16, "3", 900), mk("D1h-hybrid-deleters-full-queue", 16, "3", 900), mk("D1L-loaders-full-queue", 16, "3", 900), mk("D1p-hybrid-promotions-full-queue", 16, "3", 900), mk("D1pL-hybrid-loading-promotions-full-queue", 16, "2", 600),
		},
	})
}
