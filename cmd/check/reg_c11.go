package main

func init() {
	sc := func(name, params string, shards int, budget float64) Scenario {
		return Scenario{Name: "C11/" + name, Build: plain, Pkg: "internal", Test: "TestVerif_C11", Params: "name=" + name + "," + params, Shards: shards, BudgetS: budget}
	}
	register(&Check{
		ID: "C11", Level: "model_checking", Engine: "E2-BFS", DesignRef: "DESIGN.md §4 C11, §3.2",
		Technique: "explicit-state BFS over operation sequences on the real Store generates the source states; each is saved with the real Persist and loaded with the real Recover into every target size at every elapsed time of interest; field-by-field comparison plus invariants",
		LevelText: "every canonical state of a real Store reachable by <=d operations (Set with mixed costs, SetWithTTL on all five wheel levels, read hits drained into the policy, Delete, forced hill-climber steps) from an empty cache of MaxSize 2/3/4/10/16/100 (200 in the thorough tier) is saved and re-loaded into a fresh cache of the same and of every smaller MaxSize, with the clock moved to 0 / 5 s before / 5 s after every deadline present; the right level because the property quantifies over cache contents, region splits, target sizes and elapsed times, which a search over the real implementation's reachable states enumerates without a hand-written model",
		LevelNote: "bounded: depth <=3..6 operations (per scenario), 3-5 keys, 2-3 costs, one saved-cache age per scenario (0 or 3 days); value types int, string(key \"\" too), empty struct, []byte, and 1.5 MiB []byte values (multi-block stream, thorough); trusted: white-box drivers (drainRead on a hit, policy.Access(nil) with forced sample counters as the climb trigger, clock.Start shifting as the passage of time, stopped maintenance ticker); every shard runs the whole search (exact deduplication) and evaluates the oracle on the states it owns by canonical hash, so state and transition totals are exact",
		Rule:      "BFS: successor = fresh real Store + replay of the operation list + one more operation, deduplicated on a canonical key (regions in recency order with key/value/cost/TTL class, window/protected capacity, sketch table, climber step/hit-rate); an execution = one save -> elapsed -> load round trip; an outcome = (target class, saved and loaded region sizes, #expired dropped, #lost, #soon-due TTL entries, overshoot)",
		Assume:    []string{"time is modelled by moving clock.Start of the saved store back before Persist (Recover adopts it), never by sleeping; a deadline that falls between the two clock readings bracketing Recover is accepted either way", "single-threaded save and load (concurrency of Persist is C19/C01 territory); saves are quiescent except in scenario nonquiescent-save, where the map phase of a cost-changing Set has happened and its event has not (there the clauses about drained totals are not applied)", "admission randomness (hash-DoS jitter at sketch frequency >= 6) is not reached within the depth bound"},
		Quick: []Scenario{
			sc("regions-2", "size=2,keys=3,costs=1/2,depth=4", 1, 60),
			sc("regions-3", "size=3,keys=4,costs=1/2,depth=5", 3, 60),
			sc("regions-4", "size=4,keys=4,costs=1/2,depth=5", 4, 60),
			sc("costs-10", "size=10,keys=4,costs=1/3/5,depth=3", 2, 60),
			sc("climb-16", "size=16,keys=3,costs=1/2,alpha=set/get/del/climb,depth=4,targets=16/15/12/8/4/2/1", 3, 60),
			sc("climb-100", "size=100,keys=3,costs=1/40,alpha=set/get/del/climb,depth=4,targets=100/99/50/10/5/2/1", 2, 60),
			sc("ttl-4", "size=4,keys=3,costs=1,ttls=0/1/2/3/4/5,depth=3,targets=4/3/1", 4, 60),
			sc("ttl-4-aged", "size=4,keys=3,costs=1,ttls=0/1/2/3/4/5,depth=3,targets=4/3/1,age=259200", 4, 60),
			sc("ttl-4-old-loader", "size=4,keys=3,costs=1,ttls=0/1/2/3,depth=2,targets=4,lage=300", 2, 60),
			sc("shrunk-hot", "size=1000,keys=2,costs=1,alpha=get,prefix=200,shrink=100,heat=15,depth=1,targets=1000/500", 1, 60),
			sc("grown-cold-protected", "size=1000,keys=2,costs=1,alpha=get,prefix=40,hot=10,grow=100,depth=1,targets=1000/500", 1, 60),
			sc("nonquiescent-save", "size=4,keys=3,costs=1/2,alpha=set/get/setmap,depth=4,targets=4/3", 2, 60),
			sc("save-after-failed-save", "size=4,keys=3,costs=1/2,ttls=0/2,depth=2,targets=4,wfaults=1", 2, 60),
			// an admission window of several entries (MaxSize >= 200): zero-valued keys and values in every position of it
			sc("window-300", "size=300,keys=3,costs=1/2,ttls=0/2,depth=3,targets=300/100", 1, 60),
			sc("window-300-string", "vt=string,size=300,keys=3,costs=1,ttls=0/2,depth=3,targets=300", 1, 60),
			sc("window-300-struct", "vt=struct,size=300,keys=3,costs=1,depth=3,targets=300", 1, 60),
			func() Scenario {
				// streams of several blocks in the quick tier: the 4 MiB block size (it only sizes buffers) is compiled as 256 bytes
				x := sc("multi-block-small", "size=100,keys=4,costs=1,alpha=get/set,prefix=60,depth=2,targets=100/50/10", 2, 60)
				x.Build = Build{Kind: "plain", Consts: map[string]string{"persistence.go:BlockBufferSize": "256"}}
				return x
			}(),
			sc("types-string", "vt=string,size=4,keys=2,costs=1/2,ttls=0/2,depth=3", 1, 60),
			sc("types-struct", "vt=struct,size=4,keys=2,costs=1/2,ttls=0/2,depth=3", 1, 60),
			sc("types-bytes", "vt=bytes,size=4,keys=2,costs=1/2,ttls=0/2,depth=3", 1, 60),
		},
		Thorough: []Scenario{
			sc("regions-2", "size=2,keys=3,costs=1/2,depth=7", 1, 600),
			sc("regions-3", "size=3,keys=4,costs=1/2,depth=7", 4, 600),
			sc("regions-4", "size=4,keys=4,costs=1/2,depth=7", 8, 600),
			sc("regions-4-5keys", "size=4,keys=5,costs=1/2,depth=6", 8, 600),
			sc("costs-10", "size=10,keys=4,costs=1/3/5,depth=5", 8, 600),
			sc("climb-16", "size=16,keys=4,costs=1/2,alpha=set/get/del/climb,depth=5", 8, 600),
			sc("climb-100", "size=100,keys=3,costs=1/40,alpha=set/get/del/climb,depth=6,targets=100/99/50/10/5/2/1", 4, 600),
			sc("climb-200", "size=200,keys=3,costs=1/158,alpha=set/get/del/climb,depth=6,targets=200/199/100/2/1", 4, 600),
			sc("ttl-4", "size=4,keys=3,costs=1,ttls=0/1/2/3/4/5,depth=4", 8, 600),
			sc("ttl-4-aged", "size=4,keys=3,costs=1,ttls=0/1/2/3/4/5,depth=4,age=259200", 8, 600),
			sc("ttl-4-old-loader", "size=4,keys=3,costs=1,ttls=0/1/2/3/4/5,depth=3,targets=4/3,lage=300", 8, 600),
			sc("ttl-10-costs", "size=10,keys=3,costs=1/4,ttls=0/1/3/5,depth=3,age=7200,targets=10/7/4/2/1", 4, 600),
			sc("shrunk-hot", "size=1000,keys=3,costs=1,alpha=get/set/del,prefix=200,shrink=100,heat=15,depth=2,targets=1000/500/100", 2, 600),
			sc("shrunk-hot-300", "size=1000,keys=2,costs=1,alpha=get,prefix=300,shrink=30,heat=15,depth=1,targets=1000", 1, 600),
			sc("grown-cold-protected", "size=1000,keys=3,costs=1,alpha=get/set/del,prefix=40,hot=10,grow=100,depth=2,targets=1000/500/100", 2, 600),
			sc("nonquiescent-save", "size=4,keys=4,costs=1/2/3,alpha=set/get/del/setmap,depth=6,targets=4/3/2", 8, 600),
			sc("save-after-failed-save", "size=4,keys=3,costs=1/2,ttls=0/2,depth=4,targets=4,wfaults=1", 8, 600),
			sc("window-300", "size=300,keys=4,costs=1/2,ttls=0/2,depth=5,targets=300/100/3", 4, 600),
			sc("window-300-string", "vt=string,size=300,keys=4,costs=1,ttls=0/2,depth=4,targets=300", 2, 600),
			sc("window-300-struct", "vt=struct,size=300,keys=4,costs=1,depth=4,targets=300", 2, 600),
			sc("types-string", "vt=string,size=4,keys=3,costs=1/2,ttls=0/2,depth=4", 2, 600),
			sc("types-struct", "vt=struct,size=4,keys=3,costs=1/2,ttls=0/2,depth=4", 2, 600),
			sc("types-bytes", "vt=bytes,size=4,keys=3,costs=1/2,ttls=0/2,depth=4", 2, 600),
			sc("multi-block", "vt=big,size=10,keys=6,costs=1,alpha=get,prefix=6,depth=2,targets=10/6/3/1", 2, 600),
		},
	})
}
