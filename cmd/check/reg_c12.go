package main

func init() {
	sc := func(stream, mode string, shards int, budget float64) Scenario {
		return Scenario{Name: "C12/" + stream + "/" + mode, Build: plain, Pkg: "internal", Test: "TestVerif_C12",
			Params: "stream=" + stream + ",mode=" + mode, Shards: shards, BudgetS: budget}
	}
	var quick, thorough []Scenario
	for _, s := range []string{"empty", "window3", "regions", "regions-ttl", "old-origin"} {
		for _, m := range []string{"same", "mismatch"} {
			quick = append(quick, sc(s, m, 2, 60))
			t := sc(s, m, 4, 600)
			switch s {
			case "empty":
				t.Params += ",pairs=all"
				t.Shards = 12
			case "regions-ttl", "old-origin":
				t.Params += ",pairs=blocks"
				t.Shards = 8
			}
			thorough = append(thorough, t)
		}
	}
	quick = append(quick, sc("full", "same", 2, 60))
	thorough = append(thorough, sc("full", "same", 4, 600), sc("full", "mismatch", 4, 600))
	for _, s := range []string{"empty", "regions-ttl"} {
		quick = append(quick, sc(s, "older", 2, 60))
		thorough = append(thorough, sc(s, "older", 4, 600))
	}
	for _, m := range []string{"same", "mismatch"} {
		t := sc("multiblock", m, 8, 600)
		t.Params += ",extra=0,perms=blocks" // 7.5 MiB per case: the base families only
		if m == "mismatch" {
			t.Shards = 4
		}
		thorough = append(thorough, t)
	}
	// two-site damage: a byte outside the payloads (header field / type descriptor) + a bit inside a payload
	hp := sc("window3", "same", 8, 60)
	hp.Name, hp.Params = "C12/window3/header+payload", hp.Params+",hp=bit0"
	quick = append(quick, hp)
	for _, s := range []string{"window3", "regions-ttl"} {
		t := sc(s, "same", 16, 600)
		t.Name, t.Params = "C12/"+s+"/header+payload", t.Params+",hp=all"
		thorough = append(thorough, t)
	}
	// several blocks per region in the quick tier: the 4 MiB block size compiled as 96 bytes (it only sizes buffers)
	for _, m := range []string{"same", "mismatch"} {
		sb := sc("regions-ttl", m, 4, 60)
		sb.Name = "C12/regions-ttl-smallblocks/" + m
		sb.Params += ",perms=swaps" // many messages: every transposition instead of every order
		sb.Build = Build{Kind: "plain", Consts: map[string]string{"persistence.go:BlockBufferSize": "96"}}
		quick = append(quick, sb)
		tb := sb
		tb.Params += ",pairs=blocks"
		tb.Shards, tb.BudgetS = 8, 600
		thorough = append(thorough, tb)
	}
	register(&Check{
		ID: "C12", Level: "fault_enumeration", Engine: "E3-FAULT", DesignRef: "DESIGN.md §4 C12, §3.3",
		Technique: "complete enumeration of fault families over streams written by the real Store.Persist, each damaged stream read by the real Store.Recover into a fresh store",
		LevelText: "fault enumeration on the real code: 5 streams (6 in the thorough tier) written by the real Persist from stores driven through Set/Wait/Get+drainRead (empty; 3 entries in the window; window+probation+protected without TTL, with TTL, and saved by a cache with 1000 h uptime; thorough: five 1.5 MiB values in two 4 MiB blocks), each loaded by the real Recover into a fresh store under the saved version and under another one; per stream EVERY truncation length, EVERY single-bit flip, EVERY byte set to 0x00/0xFF/+1, EVERY adjacent byte pair zeroed, EVERY gob message (type descriptor or block) dropped, duplicated at every position, and EVERY permutation of the messages (<= 8! = 40320); thorough adds every byte deleted, every adjacent pair swapped, every value of every non-payload byte, every pair of bit flips over all non-payload bytes of the empty stream and over the block header fields of two 3-region streams. The property quantifies over positions and fault shapes of a byte stream, which is exactly what such an enumeration covers; the remaining quantifier (arbitrary multi-byte damage, arbitrary stream shapes) is bounded as listed",
		LevelNote: "trusted: the harness' gob framing parser is used only to find message boundaries and to name positions in signatures (the oracle compares store contents with the saved tuples; only the mismatch-wrong-error clause uses the parser's end offset of the metadata message to decide that VersionMismatch, not just any error, is due); time is normalised white-box (constant clock origins and relative deadlines written into the saved store right before Persist; constant origin for the fresh store) so that streams are bit-reproducible and no verdict depends on the wall clock; bounded: damage of at most 2 bits / 2 adjacent bytes / one message operation per case, streams of <= 6 entries (5 for the multi-block stream, whose payload is hit at a 65521-byte stride plus 24 bytes at each payload edge and whose permutations keep type descriptors first), key/value type string/string, versions 7 saved vs 6/7/8 loaded; the memory clause is an allocation-volume threshold (64 MiB + 16 x stream), not a hard limit",
		Rule:      "cases = stream x load version x fault (family, position); executed case = Recover of the damaged bytes into a fresh Store of the same MaxSize with panics recovered; a no-op stamp (byte already has the value) is pruned, not executed; outcome = family | error class | resident key set | verdict; distinct outcomes counted per scenario; sharded by case index modulo shard count",
		Assume:    []string{"checksum collisions of xxh3-64 are not searched for (a payload change that keeps the 64-bit checksum is outside the enumerated families)", "the reader hands Recover exactly the damaged bytes (bytes.Reader); short reads and I/O errors of real files are not modelled", "gob decoder behaviour is that of the local toolchain (go1.23)", "LoadCache adds nothing to Store.Recover (it forwards version and reader)"},
		Quick:     quick,
		Thorough:  thorough,
	})
}
