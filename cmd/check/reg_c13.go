package main

func init() {
	mk := func(driver string, shards int, p string, budget float64) Scenario {
		return Scenario{Name: "C13/" + driver, Build: schedCoarse, Pkg: "internal", Test: "TestVerif_C13", Params: "driver=" + driver + ",P=" + p, Shards: shards, BudgetS: budget}
	}
	grp := func(driver string, budget float64) Scenario {
		return Scenario{Name: "C13/group-" + driver, Build: sched, Pkg: "internal", Test: "TestVerif_C13Group", Params: "driver=" + driver, Shards: 1, BudgetS: budget}
	}
	register(&Check{
		ID: "C13", Level: "model_checking", Engine: "E1-ICB", DesignRef: "DESIGN.md §4 C13",
		Technique: "exhaustive state-matching search (E1-SK) of the real singleflight Group with every mutex/atomic/WaitGroup step a scheduling point and loader outcomes {ok, error, panic, Goexit}; stateless model checking (iterative preemption bounding) of concurrent loading Gets with Set/Delete on the real store",
		LevelText: "(a) all interleavings of 2-3 callers of Group.Do on 1-2 keys sharing pooled call records, with the function succeeding, failing, panicking or calling Goexit, including late callers: invocations for a key never overlap, each caller gets its own or an overlapping invocation's outcome, the table is empty and every record pooled once at the end; (b) every schedule within the preemption bound of 3 clients issuing loading Gets with Set/Delete on the same key and scripted loader outcomes, then an epilogue (Set on the same shard must complete, a loading Get of an absent key must run the loader again): no overlapping loads, results explained, failures not cached, loaded entries admitted with the loader's cost/TTL and tracked by the policy; right level because record reuse by late arrivals and a panic under the shard lock depend on interleavings",
		LevelNote: "trusted: instrumenter + vrt models (Goexit/panic unwinding of controlled threads is handled at the thread root); bounded: 3 callers x <=2 calls, store level preemptions <=2 (thorough 3)",
		Rule:      "component: DFS with state-key pruning; store: stateless DFS with iterative preemption bound; outcome = per-caller (value, error, panicked, exited, ran the loader) + final map + #loads",
		Assume:    []string{"sequentially consistent atomics", "the loader itself is a single scheduling point between its start and its end"},
		Quick: []Scenario{
			grp("ok-3", 60), grp("err-late", 60), grp("panic-2", 60), grp("exit-2", 60), grp("panicnil-2", 60), grp("err-then-panicnil", 60), grp("forget-err-3", 60), grp("forget-panic-3", 60), grp("reuse-2keys", 60), grp("panic-reuse", 60), grp("err-then-exit", 60), grp("panic-then-exit", 60), grp("err-then-panic", 60), grp("exit-then-err", 60),
			mk("F1-three-callers", 6, "2", 60), mk("F2-error", 4, "2", 60), mk("F2c-error-with-cost-function", 4, "2", 60), mk("F3-panic", 6, "2", 60), mk("F3n-panic-nil", 6, "2", 60), mk("F4-goexit", 6, "2", 60), mk("F5-with-writers", 6, "2", 60), mk("F6-two-keys", 8, "2", 60), mk("F7-err-then-exit", 6, "2", 60),
		},
		Thorough: []Scenario{
			grp("ok-3", 600), grp("err-late", 600), grp("panic-2", 600), grp("exit-2", 600), grp("panicnil-2", 600), grp("err-then-panicnil", 600), grp("forget-err-3", 600), grp("forget-panic-3", 600), grp("reuse-2keys", 600), grp("panic-reuse", 600), grp("err-then-exit", 600), grp("panic-then-exit", 600), grp("err-then-panic", 600), grp("exit-then-err", 600), grp("reuse-3t", 900), grp("panic-reuse-3t", 900),
			mk("F1-three-callers", 16, "3", 900), mk("F2-error", 16, "3", 900), mk("F2c-error-with-cost-function", 16, "3", 900), mk("F3-panic", 16, "3", 900), mk("F3n-panic-nil", 16, "3", 900), mk("F4-goexit", 16, "3", 900), mk("F5-with-writers", 16, "3", 900), mk("F6-two-keys", 16, "3", 900), mk("F7-err-then-exit", 16, "3", 900),
		},
	})
}
