package main

func init() {
	mk := func(cfg string, shards int, ops, depth string, budget float64) Scenario {
		p := "cfg=" + cfg
		if ops != "" {
			p += ",ops=" + ops
		}
		if depth != "" {
			p += ",depth=" + depth
		}
		return Scenario{Name: "C14/bfs-" + cfg, Build: schedCoarse, Pkg: "internal", Test: "TestVerif_C14", Params: p, Shards: shards, BudgetS: budget}
	}
	ic := func(driver string, shards int, pp string, budget float64) Scenario {
		return Scenario{Name: "C14/icb-" + driver, Build: schedCoarse, Pkg: "internal", Test: "TestVerif_C14_ICB", Params: "driver=" + driver + ",P=" + pp, Shards: shards, BudgetS: budget}
	}
	register(&Check{
		ID: "C14", Level: "model_checking", Engine: "E2-BFS+E1-ICB", DesignRef: "DESIGN.md §4 C14, §3.1, §3.3",
		Technique: "(1) explicit-state breadth-first search over call / maintenance-batch / worker-iteration / clock-advance sequences on the real instrumented Store and LoadingStore with a scripted secondary store (big steps under the scheduler's manual mode; the admission coin Store.rg is replaced by an enumerated source; hand-off queue capacity 1 for the full-queue case; fault scripts); (2) stateless model checking with iterative preemption bounding of the real worker, maintenance and 1-2 client goroutines for the windows inside a call (promotion vs Set/Delete, worker copy vs Set/Delete, two workers, slow secondary, coin as environment choice); reference model = writes per key in linearization order (BFS) / real-time order of calls (ICB)",
		LevelText: "every order (to the bound) of Set / SetWithTTL (long and 1 s) / hybrid Get / loading Get / Delete on keys k1,k2(,k3) with MaxSize 1-2, with the demotion of an evicted entry pending or done, the clock advanced past deadlines, the admission coin falling either way (probability 0.5), a hand-off queue of capacity 1, a failing first Set/Get/Delete of the secondary store; and every schedule within the preemption bound of the fine-grained drivers. Every value a Get returns from either tier must be the value of the last write that had returned before the Get began or of a later write, and not past its deadline; a miss is always accepted. Right level: each failing case needs a specific order (demote, update, drop, look up) or a specific window (between a miss and the locked lookup; between the worker's copy and its map removal), which enumeration finds with the shortest witness and names by root cause",
		LevelNote: "trusted: instrumenter + vrt models, the harness secondary store, the coin encoding (self-checked against math/rand at start-up); bounded: <=3 keys, cost 1, MaxSize<=2, BFS depth 5-6 calls (sync) / 9-11 big steps (async), ICB <=2 clients x <=2 calls after a fixed pre-history, preemptions <=2 (two-worker driver 1), coin deviations <=1; deadlines are not exercised in the ICB drivers (virtual time only moves in the BFS); probability 0 and probability in (0,1) other than through the accept/reject coin are not distinguished",
		Rule:      "BFS: successor = fresh store + replay + 1 action, canonical state dedup (incl. secondary contents, hand-off queue, worker positions, reference values); ICB: stateless DFS with iterative preemption bound; outcome = per-Get verdict string + both tiers' contents; one (clause,signature) per root cause, derived symptoms of a reported (key,value) suppressed",
		Assume:    []string{"a big step runs one thread alone between two named stopping points", "sequentially consistent atomics", "a failing secondary call has no effect on the secondary store", "a Delete that returns an error counts as not completed"},
		Quick: []Scenario{
			mk("sync-simple", 8, "", "", 60), mk("sync-expiry", 8, "", "", 60), mk("sync-loading", 8, "", "", 60), mk("sync-loading-ttl", 8, "", "", 60),
			mk("sync-m2", 8, "", "", 60), mk("sync-coin", 8, "", "", 60), mk("sync-fault-S1", 4, "", "", 60), mk("sync-fault-D1", 4, "", "", 60), mk("sync-expiry-fault-D", 4, "", "", 60), mk("sync-loading-expiry-fault-D", 4, "", "", 60), mk("sync-fault-G1", 4, "", "", 60),
			mk("async-simple", 8, "", "", 60), mk("async-2workers", 8, "", "", 60), mk("async-loading", 8, "", "", 60), mk("async-full", 8, "", "", 60), mk("bf-2clients", 16, "3", "11", 60),
			ic("I1-promote-vs-set", 4, "2", 60), ic("I1L-loading-promote-vs-set", 4, "2", 60), ic("I2-worker-vs-set", 4, "2", 60), ic("I3-worker-vs-delete-set", 4, "2", 60),
			ic("I4-promote-vs-delete", 4, "2", 60), ic("I11-promote-vs-delete-then-get", 4, "2", 60), ic("I11L-loading-promote-vs-delete-then-get", 4, "2", 60), ic("I5-two-workers", 8, "1", 60), ic("I6-slow-secondary", 4, "2", 60), ic("I7-coin", 4, "2", 60), ic("I8-worker-vs-delete", 4, "2", 60), ic("I9-slow-read-vs-deadline", 4, "2", 60), ic("I9L-loading-slow-read-vs-deadline", 4, "2", 60), ic("I10-promote-vs-set-then-get", 6, "2", 60), ic("I10L-loading-promote-vs-set-then-get", 6, "2", 60), ic("I4L-loading-promote-vs-delete", 6, "2", 60),
		},
		Thorough: []Scenario{
			mk("sync-simple", 16, "8", "8", 60), mk("sync-expiry", 16, "7", "8", 60), mk("sync-loading", 16, "7", "8", 60), mk("sync-loading-ttl", 16, "6", "8", 60),
			mk("sync-m2", 16, "8", "8", 60), mk("sync-coin", 16, "6", "6", 60), mk("sync-fault-S1", 16, "7", "7", 60), mk("sync-fault-D1", 16, "7", "7", 60), mk("sync-expiry-fault-D", 16, "7", "7", 60), mk("sync-loading-expiry-fault-D", 16, "7", "7", 60), mk("sync-fault-G1", 16, "7", "7", 60),
			mk("async-simple", 16, "6", "13", 200), mk("async-2workers", 16, "5", "12", 60), mk("async-loading", 16, "5", "12", 60), mk("async-full", 16, "6", "13", 60), mk("bf-2clients", 16, "3", "12", 60),
			ic("I1-promote-vs-set", 16, "3", 60), ic("I1L-loading-promote-vs-set", 16, "3", 60), ic("I2-worker-vs-set", 8, "4", 60), ic("I3-worker-vs-delete-set", 16, "3", 200),
			ic("I4-promote-vs-delete", 16, "3", 60), ic("I11-promote-vs-delete-then-get", 16, "3", 200), ic("I11L-loading-promote-vs-delete-then-get", 16, "3", 200), ic("I5-two-workers", 16, "2", 200), ic("I6-slow-secondary", 16, "3", 200), ic("I7-coin", 16, "3", 60), ic("I8-worker-vs-delete", 16, "3", 200), ic("I9-slow-read-vs-deadline", 16, "3", 200), ic("I9L-loading-slow-read-vs-deadline", 16, "3", 200), ic("I10-promote-vs-set-then-get", 16, "3", 200), ic("I10L-loading-promote-vs-set-then-get", 16, "3", 200), ic("I4L-loading-promote-vs-delete", 16, "3", 200),
		},
	})
}
