package main

func init() {
	mk := func(cfg string, shards int, ops string, nfaults string, budget float64) Scenario {
		p := "cfg=" + cfg + ",ops=" + ops + ",depth=" + ops
		if cfg == "loading-expiry" {
			p = "cfg=" + cfg + ",ops=" + ops + ",depth=" + string(rune(ops[0]+1)) // calls + one clock advance
		}
		if nfaults != "" {
			p += ",nfaults=" + nfaults
		}
		return Scenario{Name: "C15/bfs-" + cfg, Build: schedCoarse, Pkg: "internal", Test: "TestVerif_C15", Params: p, Shards: shards, BudgetS: budget}
	}
	ic := func(driver string, shards int, pp string, budget float64) Scenario {
		return Scenario{Name: "C15/icb-" + driver, Build: schedCoarse, Pkg: "internal", Test: "TestVerif_C15_ICB", Params: "driver=" + driver + ",P=" + pp, Shards: shards, BudgetS: budget}
	}
	register(&Check{
		ID: "C15", Level: "model_checking", Engine: "E2-BFS+E3-FAULT+E1-ICB", DesignRef: "DESIGN.md §4 C15, §3.3, §3.4",
		Technique: "explicit-state breadth-first search over call sequences on the real instrumented Store / LoadingStore with a scripted secondary store (harness implementation of SecondaryCache: map + full call log + per-call fault script), executed in big steps under the scheduler's manual mode: after every call the real maintenance goroutine and the real processSecondary worker run until nothing is queued; reference model = last write per key + deadline; a destructive immediate Get of every key after every history; exhaustive {ok,fail} fault scripts for Secondary.Set plus Get/Delete failure scripts; plus stateless model checking (iterative preemption bound) of a lookup racing the real demotion worker, with scheduling points inside every secondary call, for the ordering clause (written to the secondary tier before it leaves memory)",
		LevelText: "every sequence (to the bound) of Set / SetWithTTL / loading Get / hybrid Get / Delete on 3 keys with MaxSize 1-2 (every second insertion evicts), simple and loading hybrid stores, loader values with and without TTL, admission probability 1, one worker, is run on the real code; in every reached state (a) a Get of a reference-live key must return its value and a loading Get must not call the loader, (b) a reference-live key that is not resident must be in the secondary tier with the identical value, (c) an immediate Get of each key is executed and judged by (a); with every fault script (all 2^n-1 failing patterns of the first n Secondary.Set calls, n=4 quick / 5 thorough, plus scripts failing the first Get/Delete calls) the error-handler count and Len/total cost <= MaxSize are checked in every state. Right level: the failing cases need specific short sequences (evict, look up, update a promoted key, evict again) and specific failure positions; exhaustive enumeration finds the shortest one and names its root cause",
		LevelNote: "trusted: instrumenter + vrt models, the harness secondary store; bounded: 3 keys, cost 1, MaxSize<=2, <=6 calls (thorough 8; fault scenarios 5 / 6) + 3 probe Gets, fault scripts over the first 4-5 calls of each kind; in the big-step part the worker always keeps up (no full hand-off queue, no interleaving inside a call); the ICB part interleaves one or two lookups with one or two workers at preemption bound 2 (thorough 3); probability < 1 is outside the statement",
		Rule:      "BFS over call lists; successor = fresh store + replay + 1 call; canonical state dedup (maps, policy lists, wheel, queues, sketch, secondary contents, fault-script position, reference values); outcome = (Get results, resident map, secondary size, error count) per history; one (clause,signature) per root cause, derived symptoms of a reported (key,value) suppressed",
		Assume:    []string{"a big step runs one thread alone between two named stopping points", "admission probability 1, one worker, hand-off queue never full (maintenance and worker run to quiescence after every call)", "a failing secondary call has no effect on the secondary store"},
		Quick: []Scenario{
			mk("simple-nottl", 8, "6", "", 60), mk("simple-ttl", 8, "6", "", 60), mk("simple-m2", 8, "6", "", 60),
			mk("loading-nottl", 8, "6", "", 60), mk("loading-ttl", 8, "6", "", 60), mk("loading-m2", 8, "6", "", 60),
			mk("fault-simple", 16, "5", "4", 60), mk("fault-loading", 16, "5", "4", 60), mk("loading-expiry", 8, "5", "", 60), mk("simple-pool", 8, "6", "", 60), mk("loading-pool", 8, "6", "", 60), mk("queue-full", 8, "5", "", 60),
			ic("J1-get-during-demotion", 4, "2", 60), ic("J1t-get-during-demotion-ttl", 4, "2", 60), ic("J2-loading-get-during-demotion", 4, "2", 60), ic("J3-two-workers-two-readers", 8, "1", 60),
		},
		Thorough: []Scenario{
			mk("simple-nottl", 16, "8", "", 100), mk("simple-ttl", 16, "8", "", 100), mk("simple-m2", 16, "8", "", 100),
			mk("loading-nottl", 16, "8", "", 100), mk("loading-ttl", 16, "8", "", 100), mk("loading-m2", 16, "8", "", 100),
			mk("fault-simple", 16, "6", "5", 100), mk("fault-loading", 16, "6", "5", 100), mk("loading-expiry", 16, "7", "", 100), mk("simple-pool", 16, "8", "", 100), mk("loading-pool", 16, "8", "", 100), mk("queue-full", 16, "7", "", 100),
			ic("J1-get-during-demotion", 8, "3", 600), ic("J1t-get-during-demotion-ttl", 8, "3", 600), ic("J2-loading-get-during-demotion", 8, "3", 600), ic("J3-two-workers-two-readers", 16, "3", 600),
		},
	})
}
