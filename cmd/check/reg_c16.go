package main

func init() {
	mk := func(driver string, shards int, p string, budget float64) Scenario {
		return Scenario{Name: "C16/" + driver, Build: schedCoarse, Pkg: "internal", Test: "TestVerif_C16", Params: "driver=" + driver + ",P=" + p, Shards: shards, BudgetS: budget}
	}
	cnt := func(driver string, budget float64) Scenario {
		return Scenario{Name: "C16/counter-" + driver, Build: sched, Pkg: "internal", Test: "TestVerif_C16Counter", Params: "driver=" + driver, Shards: 1, BudgetS: budget}
	}
	bfs := func(cfg string, shards int, depth string, budget float64) Scenario {
		p := "cfg=" + cfg
		if depth != "" {
			p += ",depth=" + depth
		}
		return Scenario{Name: "C16/bfs-" + cfg, Build: sched, Pkg: "internal", Test: "TestVerif_C16Bfs", Params: p, Shards: shards, BudgetS: budget}
	}
	register(&Check{
		ID: "C16", Level: "model_checking", Engine: "E1-ICB", DesignRef: "DESIGN.md §4 C16",
		Technique: "stateless model checking of the real Store under a controlled scheduler (iterative preemption bounding) for the counters/size views; exhaustive state-matching search (E1-SK) of the striped counter with every atomic a scheduling point",
		LevelText: "(a) every interleaving, at the granularity of single atomic operations and with the stripe re-selection enumerated, of 2-3 threads adding to the real striped counter (1 and 2 stripes): the final Value equals the number of adds and no schedule livelocks; (b) every schedule within the preemption bound of 3 clients mixing hits, misses, writes, deletes and loading gets on the real store: after all calls returned Hits+Misses == #Get calls and Hits == #value-returning Gets, and after Wait Len / Range / EstimatedSize agree with the resident map (default configuration, plus three drivers with the entry pool on: an entry object recycled for the same key after expiry, delete/re-set, eviction pressure); right level because lost counter updates and torn size views need specific interleavings",
		LevelNote: "trusted: instrumenter + vrt models; (b) uses coarse atomics inside rbmutex/counter/buffer (their own checks use fine atomics); bounded: 3 clients x 2 calls, preemptions <=2 (thorough 3)",
		Rule:      "component: DFS with state-key pruning (shared snapshot + per-thread learned-values chain), outcome = final stripe contents; store: stateless DFS with iterative preemption bound, outcome = (hits, misses, final map)",
		Assume:    []string{"sequentially consistent atomics", "for the loading store only Hits+Misses==calls and Hits<=calls are checked (a caller that joins another caller's load is counted as a miss by the code and is neither clearly a hit nor a miss in the statement)"},
		Quick: []Scenario{
			cnt("s1-3x2", 60), cnt("s2-3x1", 60), cnt("s2-2x2", 60),
			bfs("views-ttl", 8, "8", 60), bfs("edges", 8, "7", 60), bfs("rearm", 8, "7", 60), bfs("loader-ttl", 8, "8", 60),
			mk("V1-hit-miss", 8, "2", 60), mk("V2-pressure", 8, "2", 60), mk("V3-loading", 8, "2", 60), mk("V4-load-vs-set", 6, "2", 60), mk("V7-concurrent-wait", 8, "2", 60), mk("V5c-same-key-reset-after-expiry", 8, "2", 60), mk("V5b-pool-same-key-reuse-expiry", 8, "2", 60), mk("V6p-pool-delete-reset", 8, "2", 60), mk("V8-gets-around-the-deadline", 8, "2", 60), mk("V8L-loading-gets-around-the-deadline", 8, "2", 60),
		},
		Thorough: []Scenario{
			bfs("views-ttl", 16, "12", 600), bfs("edges", 16, "9", 600), bfs("rearm", 16, "10", 600), bfs("refused", 8, "9", 600), bfs("loading", 8, "9", 600), bfs("ttl-mix", 16, "11", 600), bfs("loader-ttl", 16, "10", 600), bfs("m1-ttl", 16, "10", 600),
			cnt("s1-3x2", 600), cnt("s2-3x1", 600), cnt("s2-2x2", 600),
			mk("V1-hit-miss", 16, "3", 900), mk("V2-pressure", 16, "3", 900), mk("V3-loading", 16, "3", 900), mk("V4-load-vs-set", 16, "3", 900), mk("V7-concurrent-wait", 16, "3", 900), mk("V5c-same-key-reset-after-expiry", 16, "3", 900), mk("V5b-pool-same-key-reuse-expiry", 16, "3", 900), mk("V6p-pool-delete-reset", 16, "3", 900), mk("V8-gets-around-the-deadline", 16, "3", 900), mk("V8L-loading-gets-around-the-deadline", 16, "3", 900), mk("V2p-pool-pressure", 16, "2", 900),
		},
	})
}
