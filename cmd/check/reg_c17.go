package main

func init() {
	register(&Check{
		ID: "C17", Level: "model_checking", Engine: "E2-BFS", DesignRef: "DESIGN.md §4 C17",
		Technique: "explicit-state BFS over operation sequences on the real CountMinSketch plus exhaustive enumeration of hash inputs (inverse of rehash) over all table sizes",
		LevelText: "two exhaustive parts on the real, un-instrumented sketch. (a) model checking: breadth-first search over all sequences (depth <=6 quick, <=8 thorough) of 26 operations - Add of 6 adversarial hashes, Addn(n in {-1,0,1,15,16}), add-fresh-hashes-until-reset (the sample period driven through real Adds), EnsureCapacity(len+1, 2*len, len, len/2, 0) - on tables that start at 16 and 64 words, deduplicated on the full sketch state plus the reference; every clause of the statement is evaluated after every real call against an exact per-hash count since the last reset/grow. (b) exhaustive enumeration of inputs: for every table size 2^4..2^24, every one of the 2^20 values of the bits of rehash(h) that indexOf reads x blocks {0,1,last} x the unread bits all-0/all-1 (hashes built by inverting rehash) plus 23 extreme hashes: Add/Addn/Estimate never leave the table and the estimate after 1,14,15,16,19 recordings is >= min(n,15); for every table size the reset halves every nibble value in every nibble position of every word, fires exactly at the sample period and leaves Additions < SampleSize. The right level because the sketch is a sequential pure-data component: its whole behaviour is a function of (table, counters, operation), so enumeration of operation sequences and of the index-selecting hash bits decides the property within the bounds",
		LevelNote: "bounded: BFS depth, 6-hash alphabet, tables 16..64 and 64..256 words in the BFS (growth capped at 4x), Addn counts {-1,0,1,15,16}; the sweep fixes the 44 bits of rehash(h) that indexOf does not read to all-0/all-1 and visits 3 of the blocks of each table; real-Add period drive up to 2^18 words in the quick tier (all sizes thorough), larger tables get Additions set white-box to SampleSize-1/-3 and then real Adds. trusted: the Go bounds check as the out-of-range detector; the harness's inverse of rehash (self-checked on every case against the real rehash). Not demanded because not in the statement: distinctness/locality of the four counters, upper bounds on estimates, Addn advancing the sample counter, EnsureCapacity(n) giving >= n words",
		Rule:      "BFS: successor = fresh sketch + replay of the operation list + one more operation, canonical state = hash of (table words, Additions, SampleSize, BlockMask, per-hash recorded counts, effective additions since the last reset/grow); distinct outcome = (table length, last boundary, estimate vector, recorded vector). Sweep: case = (table size, selector pattern, block, filling) in index order, pattern p handled by shard p mod 16; distinct outcome = (size, block class, filling, estimates, counters touched in the block). Period: one case per table size and mode",
		Assume:    []string{"single-threaded use of the sketch (it is only touched under the policy mutex)", "64-bit uint", "BFS shards split the depth-3 frontier; a state reachable from two shards' parts is counted by both (states/transitions are upper bounds of the distinct numbers, exploration is complete)"},
		Quick: []Scenario{
			{Name: "C17/store-loadcache", Build: plain, Pkg: "internal", Test: "TestVerif_C17Store", Shards: 4, BudgetS: 60},
			{Name: "C17/period", Build: plain, Pkg: "internal", Test: "TestVerif_C17Period", Params: "lo=4,hi=24,real=18", Shards: 8, BudgetS: 60},
			{Name: "C17/bfs-16w", Build: plain, Pkg: "internal", Test: "TestVerif_C17BFS", Params: "size=16,depth=6,split=3", Shards: 4, BudgetS: 60},
			{Name: "C17/bfs-64w", Build: plain, Pkg: "internal", Test: "TestVerif_C17BFS", Params: "size=64,depth=6,split=3", Shards: 6, BudgetS: 60},
			{Name: "C17/sweep", Build: plain, Pkg: "internal", Test: "TestVerif_C17Sweep", Params: "lo=4,hi=24", Shards: 16, BudgetS: 60},
		},
		Thorough: []Scenario{
			{Name: "C17/store-loadcache", Build: plain, Pkg: "internal", Test: "TestVerif_C17Store", Shards: 16, BudgetS: 600},
			{Name: "C17/period", Build: plain, Pkg: "internal", Test: "TestVerif_C17Period", Params: "lo=4,hi=24,real=24", Shards: 16, BudgetS: 800},
			{Name: "C17/bfs-16w", Build: plain, Pkg: "internal", Test: "TestVerif_C17BFS", Params: "size=16,depth=8,split=3", Shards: 16, BudgetS: 800},
			{Name: "C17/bfs-64w", Build: plain, Pkg: "internal", Test: "TestVerif_C17BFS", Params: "size=64,depth=8,split=3", Shards: 16, BudgetS: 800},
			{Name: "C17/sweep", Build: plain, Pkg: "internal", Test: "TestVerif_C17Sweep", Params: "lo=4,hi=24", Shards: 16, BudgetS: 300},
		},
	})
}
