package main

func init() {
	mk := func(driver string, shards int, p string, budget float64) Scenario {
		return Scenario{Name: "C19/" + driver, Build: schedTrack, Pkg: "internal", Test: "TestVerif_C19", Params: "driver=" + driver + ",P=" + p, Shards: shards, BudgetS: budget}
	}
	buf := func(shards int, p string, budget float64) Scenario {
		sc := mk("R8-read-buffer", shards, p, budget)
		sc.Build = schedTrackBuf
		return sc
	}
	register(&Check{
		ID: "C19", Level: "model_checking", Engine: "E4-HB", DesignRef: "DESIGN.md §4 C19, §3.5",
		Technique: "happens-before (vector clock) race monitor evaluated as an invariant on every schedule of a stateless model-checking search (iterative preemption bounding) of the instrumented real Store",
		LevelText: "the instrumented build announces every plain read/write of the fields of the store's struct types (entries, shards, store, policy lists, wheel, sketch, singleflight records) and every access to the shard maps; the scheduler runtime derives happens-before from every lock, atomic, channel, pool, WaitGroup, spawn and cancellation the code performs; on every explored schedule of 3 clients mixing Get/Set/SetWithTTL/Delete/Range/Len/EstimatedSize/Stats/Wait/SaveCache/Close/loading Get with expiry ticks and evictions (removal listener installed, entry pool off), on plain, loading and hybrid stores (real demotion worker, promotion, DeleteWithSecondary, Close of a hybrid store) no two conflicting accesses may be unordered; right level because the Go race detector only sees the one interleaving a test run happens to take, and is blind under a cooperative scheduler",
		LevelNote: "trusted: instrumenter probe placement (an under-approximation: conditionally evaluated operands and operands of multi-call statements are not probed; slice ELEMENTS are probed for three fields only - PolicyBuffers.Returned, CountMinSketch.Table, Store.writeBuffer, the backing array counting as one location - other arrays/slices are not) and the vrt happens-before edges (joins: more ordering than the memory model at worst); a free-running -race pass over plain-build drivers is the cross-check for untracked locations; bounded: 3 clients x <=3 calls, preemptions <=2 (thorough 3)",
		Rule:      "stateless DFS with iterative preemption bound; invariant = no unordered conflicting pair on any tracked location; outcome = per-call results + final map",
		Assume:    []string{"race-free programs have sequentially consistent semantics, so exploring SC interleavings is exact once the invariant holds", "entry pool off (the README documents races with the pool on)"},
		Quick: []Scenario{
			mk("R1-save-vs-writes", 8, "2", 150), mk("R2-range-vs-expiry", 8, "2", 150), mk("R3-views-vs-eviction", 8, "2", 150), mk("R4-close-vs-all", 8, "2", 150), mk("R4c-close-vs-delete", 8, "2", 150), mk("R4d-close-vs-tick", 8, "2", 150), mk("R1b-save-vs-tick-evict", 8, "2", 150),
			mk("R9-hybrid-promote-vs-set", 8, "2", 150), mk("R9b-hybrid-worker-vs-delete", 8, "2", 150), mk("R9c-hybrid-close", 8, "2", 150), mk("R9d-hybrid-loading", 8, "2", 150), mk("R9g-hybrid-failed-demotion-vs-set", 8, "2", 150),
			mk("R5-loading", 8, "2", 150), mk("R5c-call-record-reuse", 8, "2", 150), mk("R6-update-vs-evict", 8, "2", 150), mk("R7-expiry-vs-ttl-update", 8, "2", 150), mk("R10-doorkeeper-vs-sketch-reset", 8, "2", 150), buf(8, "2", 150),
		},
		Thorough: []Scenario{
			mk("R1-save-vs-writes", 16, "3", 900), mk("R2-range-vs-expiry", 16, "3", 900), mk("R3-views-vs-eviction", 16, "3", 900), mk("R4-close-vs-all", 16, "3", 900), mk("R4b-close-vs-wait", 16, "2", 900), mk("R4c-close-vs-delete", 16, "3", 900), mk("R4d-close-vs-tick", 16, "3", 900), mk("R4e-close-vs-tick-vs-set", 16, "3", 900),
			mk("R1b-save-vs-tick-evict", 16, "3", 900), mk("R5b-loading-vs-close-tick", 16, "2", 900), mk("R9-hybrid-promote-vs-set", 16, "3", 900), mk("R9b-hybrid-worker-vs-delete", 16, "3", 900), mk("R9c-hybrid-close", 16, "3", 900), mk("R9d-hybrid-loading", 16, "3", 900), mk("R9e-hybrid-close-3", 16, "2", 900), mk("R9f-hybrid-loading-3", 16, "2", 900), mk("R9g-hybrid-failed-demotion-vs-set", 16, "3", 900),
			mk("R5-loading", 16, "3", 900), mk("R5c-call-record-reuse", 16, "3", 900), mk("R6-update-vs-evict", 16, "3", 900), mk("R7-expiry-vs-ttl-update", 16, "3", 900), mk("R10-doorkeeper-vs-sketch-reset", 16, "3", 900), buf(16, "3", 900),
			{Name: "C19/free-running-race-crosscheck", Build: Build{Kind: "plain", Race: true}, Pkg: "internal", Test: "TestVerif_C19Race", Shards: 4, BudgetS: 60},
		},
	})
}
