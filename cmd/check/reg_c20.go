package main

// schedBuf2: the read buffer holds 2 events, so a pre-history's hits reach the policy.
var schedBuf2 = Build{Kind: "sched", Consts: map[string]string{"buffer.go:capacity": "2"}}

func init() {
	register(&Check{
		ID: "C20", Level: "model_checking", Engine: "E1-ICB", DesignRef: "DESIGN.md §4 C20, §3.1",
		Technique: "stateless model checking of the real Store under a controlled scheduler (iterative preemption bounding)",
		LevelText: "every schedule (preemption bound 2, all non-preemptive switches, select tie-breaks) of 9 drivers with 2-3 concurrent waiters/writers (three of them with another user of the policy lock: a goroutine polling EstimatedSize, the expiry tick; two with a cost-growing Set that forces evictions out of the protected region) on the real instrumented Store is executed; each Wait must return and, at the instant it returns, every write that completed before it was called must have been applied (positive evidence: a stored value the map still holds is tracked by the policy, a Delete's victim has been notified; at the end map and policy describe the same entries); the right level because the property quantifies over marker positions relative to batch boundaries, which only a scheduler-controlled run can enumerate",
		LevelNote: "trusted: the instrumenter (imports/channel syntax -> vrt shims) and the vrt models of Mutex/RWMutex/channels/Pool; bounded: <=3 clients, <=4 ops each, queue capacity 2-4, batch size 2, 4 and 8, preemptions <=2 (thorough 3)",
		Rule:      "stateless DFS over schedules of the instrumented store (every lock/atomic/channel operation a scheduling point), iterative preemption bound; an outcome = per-waiter set of applied writes + hung clients; distinct outcomes counted per driver",
		Assume:    []string{"sequentially consistent interleavings of the shimmed operations (exact for race-free Go)", "lock/channel/pool models of vrt stand in for the Go runtime's", "small scope: 2-3 clients, <=4 ops each, queue capacity 2-4, batch size 2/4/8"},
		Quick: []Scenario{
			{Name: "C20/W1-two-waiters", Build: sched, Pkg: "internal", Test: "TestVerif_C20", Params: "driver=W1-two-waiters,P=2", Shards: 4, BudgetS: 60},
			{Name: "C20/W2-three-waiters", Build: sched, Pkg: "internal", Test: "TestVerif_C20", Params: "driver=W2-three-waiters,P=2", Shards: 6, BudgetS: 60},
			{Name: "C20/W3-full-queue", Build: sched, Pkg: "internal", Test: "TestVerif_C20", Params: "driver=W3-full-queue,P=2", Shards: 3, BudgetS: 60},
			{Name: "C20/W4-delete-evict", Build: sched, Pkg: "internal", Test: "TestVerif_C20", Params: "driver=W4-delete-evict,P=2", Shards: 3, BudgetS: 60},
			{Name: "C20/W5-size-poller", Build: sched, Pkg: "internal", Test: "TestVerif_C20", Params: "driver=W5-size-poller,P=2", Shards: 4, BudgetS: 60},
			{Name: "C20/W6-tick", Build: sched, Pkg: "internal", Test: "TestVerif_C20", Params: "driver=W6-tick,P=2", Shards: 4, BudgetS: 60},
			{Name: "C20/W7-size-poller-b8", Build: sched, Pkg: "internal", Test: "TestVerif_C20", Params: "driver=W7-size-poller-b8,P=2", Shards: 4, BudgetS: 60},
			{Name: "C20/W8-cost-growth", Build: schedBuf2, Pkg: "internal", Test: "TestVerif_C20", Params: "driver=W8-cost-growth,P=2", Shards: 4, BudgetS: 60},
			{Name: "C20/W8b-cost-growth-3", Build: schedBuf2, Pkg: "internal", Test: "TestVerif_C20", Params: "driver=W8b-cost-growth-3,P=2", Shards: 4, BudgetS: 60},
		},
		Thorough: []Scenario{
			{Name: "C20/W1-two-waiters", Build: sched, Pkg: "internal", Test: "TestVerif_C20", Params: "driver=W1-two-waiters,P=3,D=2", Shards: 16, BudgetS: 600},
			{Name: "C20/W2-three-waiters", Build: sched, Pkg: "internal", Test: "TestVerif_C20", Params: "driver=W2-three-waiters,P=3,D=1", Shards: 16, BudgetS: 900},
			{Name: "C20/W3-full-queue", Build: sched, Pkg: "internal", Test: "TestVerif_C20", Params: "driver=W3-full-queue,P=3,D=2", Shards: 16, BudgetS: 600},
			{Name: "C20/W4-delete-evict", Build: sched, Pkg: "internal", Test: "TestVerif_C20", Params: "driver=W4-delete-evict,P=3,D=2", Shards: 16, BudgetS: 600},
			{Name: "C20/W5-size-poller", Build: sched, Pkg: "internal", Test: "TestVerif_C20", Params: "driver=W5-size-poller,P=3,D=2", Shards: 16, BudgetS: 600},
			{Name: "C20/W6-tick", Build: sched, Pkg: "internal", Test: "TestVerif_C20", Params: "driver=W6-tick,P=3,D=2", Shards: 16, BudgetS: 600},
			{Name: "C20/W7-size-poller-b8", Build: sched, Pkg: "internal", Test: "TestVerif_C20", Params: "driver=W7-size-poller-b8,P=3,D=2", Shards: 16, BudgetS: 600},
			{Name: "C20/W8-cost-growth", Build: schedBuf2, Pkg: "internal", Test: "TestVerif_C20", Params: "driver=W8-cost-growth,P=3,D=2", Shards: 16, BudgetS: 600},
			{Name: "C20/W8b-cost-growth-3", Build: schedBuf2, Pkg: "internal", Test: "TestVerif_C20", Params: "driver=W8b-cost-growth-3,P=3,D=2", Shards: 16, BudgetS: 600},
		},
	})
}
