package main

import "sort"

var sched = Build{Kind: "sched"}
var plain = Build{Kind: "plain"}

// schedCoarse: atomics inside the components that are verified on their own with every atomic a
// scheduling point (RBMutex: C01/rbmutex-*, striped counter: C16/counter, read buffer: C08) are not
// scheduling points; their blocking points (rw lock, Gosched spins) remain. Assume-guarantee split of DESIGN §2.2.
var schedCoarse = Build{Kind: "sched", Coarse: []string{"rbmutex.go", "counter.go", "buffer.go"}}

var allChecks []*Check

// register is called from the per-property reg_cXX.go files.
func register(c *Check) { allChecks = append(allChecks, c) }

// apiProps: the properties whose statement includes what the exported wrappers and the Builder's option wiring
// do; each of them gets the public-API scenario (harness/root/api_test.go) with its own clauses selected.
var apiProps = map[string]bool{"C01": true, "C05": true, "C06": true, "C10": true, "C11": true, "C13": true, "C14": true, "C15": true, "C16": true}

var apiAdded = false

// plainSmallBlocks: the public-API scenarios save and load in (almost) every execution; the 4 MiB block buffers that
// every SaveCache allocates (it only sizes buffers) are compiled as 4 KiB there - 16 MiB of garbage per execution
// made a worker's heap balloon to gigabytes
var plainSmallBlocks = Build{Kind: "plain", Consts: map[string]string{"persistence.go:BlockBufferSize": "4096"}}

func registry() []*Check {
	sort.Slice(allChecks, func(i, j int) bool { return allChecks[i].ID < allChecks[j].ID })
	if !apiAdded {
		apiAdded = true
		for _, c := range allChecks {
			if !apiProps[c.ID] {
				continue
			}
			c.Quick = append(c.Quick, Scenario{Name: c.ID + "/api-wiring", Build: plainSmallBlocks, Pkg: "root", Test: "TestVerif_API", Params: "prop=" + c.ID + ",depth=3", Shards: 4, BudgetS: 60})
			c.Thorough = append(c.Thorough, Scenario{Name: c.ID + "/api-wiring", Build: plainSmallBlocks, Pkg: "root", Test: "TestVerif_API", Params: "prop=" + c.ID + ",depth=5", Shards: 16, BudgetS: 600})
			if c.ID == "C01" || c.ID == "C06" {
				// doorkeeper whose filters were replaced (grown), wiped (too many refusals) or by-passed (LoadCache): see harness/root/api_doorkeeper_test.go
				c.Quick = append(c.Quick, Scenario{Name: c.ID + "/api-doorkeeper", Build: plainSmallBlocks, Pkg: "root", Test: "TestVerif_APIDoorkeeper", Params: "prop=" + c.ID + ",depth=4", Shards: 4, BudgetS: 60})
				c.Thorough = append(c.Thorough, Scenario{Name: c.ID + "/api-doorkeeper", Build: plainSmallBlocks, Pkg: "root", Test: "TestVerif_APIDoorkeeper", Params: "prop=" + c.ID + ",depth=5", Shards: 16, BudgetS: 600})
			}
			if c.ID != "C10" && c.ID != "C11" {
				c.Quick = append(c.Quick, Scenario{Name: c.ID + "/api-pressure-m1", Build: plain, Pkg: "root", Test: "TestVerif_APIPressure", Params: "prop=" + c.ID + ",depth=5,max=1", Shards: 8, BudgetS: 60})
				c.Quick = append(c.Quick, Scenario{Name: c.ID + "/api-pressure-ext", Build: plain, Pkg: "root", Test: "TestVerif_APIPressure", Params: "prop=" + c.ID + ",depth=3,max=1,ext=1", Shards: 4, BudgetS: 60})
				c.Thorough = append(c.Thorough,
					Scenario{Name: c.ID + "/api-pressure-ext", Build: plain, Pkg: "root", Test: "TestVerif_APIPressure", Params: "prop=" + c.ID + ",depth=5,max=1,ext=1", Shards: 16, BudgetS: 900},
					Scenario{Name: c.ID + "/api-pressure-m1", Build: plain, Pkg: "root", Test: "TestVerif_APIPressure", Params: "prop=" + c.ID + ",depth=7,max=1", Shards: 16, BudgetS: 900},
					Scenario{Name: c.ID + "/api-pressure-m2", Build: plain, Pkg: "root", Test: "TestVerif_APIPressure", Params: "prop=" + c.ID + ",depth=6,max=2", Shards: 16, BudgetS: 900})
			}
			c.Technique += "; plus exhaustive enumeration of every exported-call sequence (to depth 3, thorough 5, on two keys) on every cache kind and option combination the exported Builder produces, against a map (public-API layer: wrappers and option wiring), and - except C10/C11 - every exported-call sequence (depth 5, thorough 7) on three keys under capacity pressure (MaxSize 1, thorough also 2) over kinds x {entry pool, StringKey, doorkeeper}, judged by an observation-driven reference after every call"
			c.LevelNote += "; the public-API scenario runs un-instrumented with real goroutines, capacity 100 (no eviction, no expiry), and compares asynchronous effects only after Wait"
		}
	}
	return allChecks
}

func findCheck(id string) *Check {
	for _, c := range registry() {
		if c.ID == id {
			return c
		}
	}
	return nil
}

// schedTrack: coarse component atomics + happens-before access probes (C19).
// BlockBufferSize (4 MiB scratch buffers allocated by every Persist) is rewritten to 4 KiB: it only sizes buffers.
var schedTrack = Build{Kind: "sched", Coarse: []string{"rbmutex.go", "counter.go", "buffer.go"}, Track: true,
	Consts: map[string]string{"persistence.go:BlockBufferSize": "4096"}}

// schedTrackBuf: like schedTrack but the read buffer's atomics ARE scheduling points and its capacity is 2,
// so that drain / Free / refill interleave under the happens-before monitor.
var schedTrackBuf = Build{Kind: "sched", Coarse: []string{"rbmutex.go", "counter.go"}, Track: true,
	Consts: map[string]string{"persistence.go:BlockBufferSize": "4096", "buffer.go:capacity": "2"}}
