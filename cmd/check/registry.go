package main

import "sort"

var sched = Build{Kind: "sched"}
var plain = Build{Kind: "plain"}

// schedCoarse: atomics inside the components that are verified on their own with every atomic a
// scheduling point (RBMutex: C01/rbmutex-*, striped counter: C16/counter, read buffer: C08) are not
// scheduling points; their blocking points (rw lock, Gosched spins) remain. Assume-guarantee split of DESIGN §2.2.
var schedCoarse = Build{Kind: "sched", Coarse: []string{"rbmutex.go", "counter.go", "buffer.go"}}

var allChecks []*Check

// register is called from the per-property reg_cXX.go files.
func register(c *Check) { allChecks = append(allChecks, c) }

func registry() []*Check {
	sort.Slice(allChecks, func(i, j int) bool { return allChecks[i].ID < allChecks[j].ID })
	return allChecks
}

func findCheck(id string) *Check {
	for _, c := range registry() {
		if c.ID == id {
			return c
		}
	}
	return nil
}

// schedTrack: coarse component atomics + happens-before access probes (C19).
// BlockBufferSize (4 MiB scratch buffers allocated by every Persist) is rewritten to 4 KiB: it only sizes buffers.
var schedTrack = Build{Kind: "sched", Coarse: []string{"rbmutex.go", "counter.go", "buffer.go"}, Track: true,
	Consts: map[string]string{"persistence.go:BlockBufferSize": "4096"}}

// schedTrackBuf: like schedTrack but the read buffer's atomics ARE scheduling points and its capacity is 2,
// so that drain / Free / refill interleave under the happens-before monitor.
var schedTrackBuf = Build{Kind: "sched", Coarse: []string{"rbmutex.go", "counter.go"}, Track: true,
	Consts: map[string]string{"persistence.go:BlockBufferSize": "4096", "buffer.go:capacity": "2"}}
