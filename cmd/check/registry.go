package main

import "sort"

var sched = Build{Kind: "sched"}
var plain = Build{Kind: "plain"}

var allChecks []*Check

// register is called from the per-property reg_cXX.go files.
func register(c *Check) { allChecks = append(allChecks, c) }

func registry() []*Check {
	sort.Slice(allChecks, func(i, j int) bool { return allChecks[i].ID < allChecks[j].ID })
	return allChecks
}

func findCheck(id string) *Check {
	for _, c := range registry() {
		if c.ID == id {
			return c
		}
	}
	return nil
}
