package main

import (
	"fmt"
	"os"
	"sort"

	"verif/internal/instr"
)

func main() {
	out, _ := os.MkdirTemp("", "ps")
	defer os.RemoveAll(out)
	res, err := instr.Package("/repo/internal", out, instr.Options{Track: instr.DefaultTrack()})
	if err != nil {
		fmt.Println(err)
		return
	}
	for _, u := range res.Unprobed {
		fmt.Println("unprobed", u)
	}
	var ks []string
	for k := range res.Stats {
		ks = append(ks, k)
	}
	sort.Strings(ks)
	for _, k := range ks {
		fmt.Println(k, res.Stats[k])
	}
}
