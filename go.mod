module verif

go 1.20
