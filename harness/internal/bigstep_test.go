//go:build verif && vsched

package internal

import (
	"fmt"
	"hash/fnv"
	"sort"
	"strconv"
	"strings"
	"time"

	"github.com/Yiling-J/theine-go/internal/vrt"
	"github.com/Yiling-J/theine-go/internal/vrt/vh"
)

// ---- E2-BFS on the whole store in big steps (scheduler manual mode) ----
//
// The instrumented store runs with all its real goroutines, but a thread only runs when the
// search names it, and only up to a named stopping point:
//
//	B<c> op   client c starts an API call and runs it until its writeChan send is about to
//	          happen (map phase done) or to the end when the call queues nothing
//	F<c>      client c performs the pending send and runs to the end of the call
//	M         the maintenance goroutine takes one batch (<= WriteBufferSize items) and applies it
//	T         virtual time advances by cfg.TickNs, the ticker fires, the ticker goroutine runs its
//	          body once (refresh cached clock, advance the wheel)
//	A<ns>     virtual time advances, no tick (a stalled ticker)
//
// Within a step the named thread runs alone, choice 0 at every inner point, so a transition is
// deterministic and executed by the unmodified bodies of Set/Delete/maintenance/...; the search
// explores every order of the steps. Successor = fresh store + replay of the action list + one
// action; states are deduplicated on a canonical form (bsWorld.canon).

type bsOp struct {
	Kind string // set, del, get, lget (loading get), wait
	K    int
	Cost int64
	TTL  int64 // ns, 0 = none
}

func (o bsOp) String() string {
	return fmt.Sprintf("%s,%d,%d,%d", o.Kind, o.K, o.Cost, o.TTL)
}

func bsParseOp(s string) bsOp {
	p := strings.Split(s, ",")
	k, _ := strconv.Atoi(p[1])
	c, _ := strconv.ParseInt(p[2], 10, 64)
	t, _ := strconv.ParseInt(p[3], 10, 64)
	return bsOp{p[0], k, c, t}
}

// bsRec is the record of one client call.
type bsRec struct {
	C        int
	Op       bsOp
	V        int // value written by a set / returned by a loader for this call
	Begin    int // logical step at which the call started
	MapDone  int // logical step at which its map phase was over (the call is parked at its send)
	End      int // logical step at which the call returned (0 = not yet)
	OK       bool
	Got      int
	Err      string
	Now      int64 // virtual time of the call
	Loads    int   // loader invocations made by this call
	LoadEnd  int64 // virtual time at which this call's (last) loader invocation returned; 0 if none
	Panicked bool
	// white-box bookkeeping taken at the end of the map phase (the call's linearization point)
	Entry     *Entry[int, int] // entry the call stored into / removed (nil if none)
	Created   bool             // the call created a new incarnation (entry object newly put into the map)
	Removed   bool             // a delete that found and removed an entry
	PrevV     int              // value the entry held before an in-place update / the value a delete removed
	ProbeOK   bool             // read-back through the real read path right after the map phase
	ProbeV    int
	Probed    bool
	NotesAt   int      // listener calls seen when the call started
	Deadline  int64    // entry deadline (cache nanos) right after the map phase
	LoadCost  int64    // cost the loader returned for a loading get that stored its value
	PrevDL    int64    // deadline of the entry just before the call (0 none / no entry)
	Stored    bool     // a loading get whose loaded value was put into the map (new entry or in place)
	Visited   [][2]int // range: (key,value) pairs visited
	CachedNow int64    // the store's cached clock when the call started
	EffCost   int64    // cost the store should account for the value this call writes (explicit, or the cost function's)
}

type bsCfg struct {
	Name       string
	MaxSize    int64
	ChanSize   int
	BufSize    int
	Pool       bool
	Doorkeeper bool
	Loading    bool
	LoadCost   int64
	LoadTTL    int64
	LoadLat    int64 // the loader takes this long (virtual time advances inside it)
	NClients   int
	OpsPer     int // ops per client
	Ops        []bsOp
	Ticks      int // max number of T actions on a path (0 = none)
	TickNs     int64
	Burst      int     // U action: this many consecutive tick periods (time advances TickNs, due tickers fire) in one step; at most once per path
	Advs       []int64 // A actions offered
	MaxAdv     int     // max number of A actions on a path
	Depth      int
	CostFn     func(int) int64
	Probe      bool    // read every Set back through getFromShard at the end of its map phase
	DlAdvs     []int64 // D<delta> actions: advance the clock to (deadline of key 1's entry) + delta, no tick
	Hy         *hyCfg  // hybrid configuration: a scripted secondary store is attached (hybrid_lib_test.go)
}

type bsClient struct {
	t    *vrt.Thread
	rec  *bsRec
	used int
}

type bsWorld struct {
	cfg    *bsCfg
	h      *hStore
	maint  *vrt.Thread
	ticker *vrt.Thread
	cl     []*bsClient
	recs   []*bsRec
	step   int
	nextV  int
	ticks  int
	advs   int
	bursts int
	stalls [][2]int64 // virtual-time intervals that passed WITHOUT tick delivery (A / D actions): maintenance stalled
	err    string
	// departed incarnations are tracked by the oracles through recs + notes
	noteStep []int   // logical step of each listener call
	noteNow  []int64 // cache clock (nanos since cache start) of each listener call
	loads    []bsLoad
	hy       *hyWorld // hybrid part (nil unless cfg.Hy)
}

type bsLoad struct {
	K, V, Step int
	End        int64 // virtual time when the loader returned
}

// bsAtWriteSend: the thread is parked in front of its event send on the write queue (a plain send, or the
// select{send writeChan; <-ctx.Done()} of Store.send).
func bsAtWriteSend(t *vrt.Thread) bool {
	return (t.What == "send" && t.Obj == "writeChan") || (t.What == "select" && strings.HasPrefix(t.Obj, "send:writeChan"))
}

// bsAtOuterSelect: the maintenance / ticker goroutine is back at the head of its loop (a select that
// only receives; drainWrite's select{waitChan <- ; <-ctx.Done()} is not a loop head).
func bsAtOuterSelect(t *vrt.Thread) bool {
	return t.What == "select" && !strings.HasPrefix(t.Obj, "send:")
}

func newBsWorld(cfg *bsCfg) *bsWorld {
	w := &bsWorld{cfg: cfg}
	o := hOpts{MaxSize: cfg.MaxSize, ChanSize: cfg.ChanSize, BufSize: cfg.BufSize, Pool: cfg.Pool, Doorkeeper: cfg.Doorkeeper}
	if cfg.CostFn != nil {
		o.Cost = cfg.CostFn
	}
	if cfg.Loading {
		o.Loader = func(k int) (Loaded[int], error) {
			w.nextV++
			v := 1000 + w.nextV
			if cfg.LoadLat > 0 {
				vrt.Advance(cfg.LoadLat)
			}
			w.loads = append(w.loads, bsLoad{k, v, w.step, vrt.NowNanos()})
			return Loaded[int]{Value: v, Cost: cfg.LoadCost, TTL: time.Duration(cfg.LoadTTL)}, nil
		}
	}
	if cfg.Hy != nil {
		w.hyInit(&o)
	}
	nth := len(vrt.S.Threads)
	w.h = newHStore(o)
	prev := w.h.onNote
	w.h.onNote = func(n hNote) {
		w.noteStep = append(w.noteStep, w.step)
		w.noteNow = append(w.noteNow, vrt.NowNanos())
		if prev != nil {
			prev(n)
		}
	}
	// the first thread NewStore spawned is the maintenance goroutine; stepping it to its
	// outer select makes it spawn the ticker goroutine
	w.maint = vrt.S.Threads[nth]
	w.maint.Name = "maintenance"
	if st := vrt.StepThread(w.maint, nil); st != "blocked" {
		w.err = "maintenance did not park: " + st
		return w
	}
	for _, t := range vrt.S.Threads[nth+1:] {
		if t.Creator == w.maint.ID {
			w.ticker = t
			t.Name = "ticker"
		}
	}
	if w.ticker == nil {
		w.err = "ticker goroutine not found"
		return w
	}
	if st := vrt.StepThread(w.ticker, nil); st != "blocked" {
		w.err = "ticker did not park: " + st
	}
	if w.hy != nil && w.err == "" {
		w.hyStart(nth)
	}
	for i := 0; i < cfg.NClients; i++ {
		w.cl = append(w.cl, &bsClient{})
	}
	return w
}

func (w *bsWorld) runOp(rec *bsRec) {
	s := w.h.s
	switch rec.Op.Kind {
	case "set":
		rec.OK = s.Set(rec.Op.K, rec.V, rec.Op.Cost, time.Duration(rec.Op.TTL))
	case "del":
		s.Delete(rec.Op.K)
		rec.OK = true
	case "get":
		rec.Got, rec.OK = s.Get(rec.Op.K)
	case "lget":
		// (rec.Loads / rec.LoadEnd are filled in by the B step: the loader runs in the map phase, while this client is the
		// only thread running. Counting w.loads here, when the call RETURNS, attributed another client's load to this call
		// whenever the two calls overlapped - a false alarm of the C06 reference deadline, see DESIGN.md §10.4.)
		v, err := w.h.ls.Get(nil, rec.Op.K)
		rec.Got, rec.OK = v, err == nil
		if err != nil {
			rec.Err = err.Error()
		}
	case "wait":
		s.Wait()
		rec.OK = true
	case "range":
		s.Range(func(k, v int) bool {
			rec.Visited = append(rec.Visited, [2]int{k, v})
			return true
		})
		rec.OK = true
	default:
		if w.hy != nil && w.hyRunOp(rec) {
			return
		}
		panic("bigstep: unknown op " + rec.Op.Kind)
	}
}

// apply performs one action; it reports false when the action is not enabled in this state.
func (w *bsWorld) apply(a string) bool {
	if w.err != "" {
		return false
	}
	if w.hy != nil {
		if handled, ok := w.hyApply(a); handled {
			return ok
		}
	}
	switch a[0] {
	case 'B':
		sp := strings.IndexByte(a, ' ')
		c, _ := strconv.Atoi(a[1:sp])
		cl := w.cl[c]
		if cl.t != nil {
			return false
		}
		op := bsParseOp(a[sp+1:])
		w.step++
		rec := &bsRec{C: c, Op: op, Begin: w.step, Now: vrt.NowNanos()}
		if op.Kind == "set" {
			w.nextV++
			rec.V = w.nextV
			rec.EffCost = op.Cost
			if rec.EffCost == 0 {
				rec.EffCost = 1
				if w.cfg.CostFn != nil {
					rec.EffCost = w.cfg.CostFn(rec.V)
				}
			}
		}
		rec.NotesAt = len(w.h.notes)
		loads0 := len(w.loads)
		var before *Entry[int, int]
		vrt.Quiet(func() {
			rec.CachedNow = w.h.s.timerwheel.clock.NowNanoCached()
			before = w.residentEntry(op.K)
			if before != nil {
				rec.PrevDL = before.expire.Load()
			}
		})
		w.recs = append(w.recs, rec)
		cl.rec = rec
		cl.used++
		if w.hy != nil {
			w.hyBeforeCall(rec)
		}
		cl.t = vrt.Spawn(fmt.Sprintf("client%d", c), func() {
			w.runOp(rec)
		})
		st := vrt.StepThread(cl.t, bsAtWriteSend)
		w.step++
		if rec.Loads = len(w.loads) - loads0; rec.Loads > 0 {
			rec.LoadEnd = w.loads[len(w.loads)-1].End
		}
		if w.hy != nil {
			w.hyAfterMap(rec)
		}
		vrt.Quiet(func() {
			after := w.residentEntry(op.K)
			switch op.Kind {
			case "set", "lget":
				if op.Kind == "lget" && len(w.loads) > loads0 {
					rec.V = w.loads[len(w.loads)-1].V
					rec.LoadCost = w.cfg.LoadCost
					if rec.LoadCost == 0 {
						rec.LoadCost = 1
						if w.cfg.CostFn != nil {
							rec.LoadCost = w.cfg.CostFn(rec.V)
						}
					}
					rec.EffCost = rec.LoadCost
					rec.Stored = after != nil && after.value == rec.V
				}
				if after != nil && after != before {
					rec.Created, rec.Entry = true, after
				} else if after != nil && (op.Kind == "set" || rec.Stored) && after.value == rec.V {
					rec.Entry = after // in-place update
				}
				if after != nil {
					rec.Deadline = after.expire.Load()
				}
			case "del", "hdel":
				if before != nil && after == nil {
					rec.Removed, rec.Entry, rec.PrevV = true, before, before.value
				}
			}
			if op.Kind == "set" && w.cfg.Probe {
				h, idx := w.h.s.index(op.K)
				se, ok := w.h.s.getFromShard(op.K, h, w.h.s.shards[idx])
				rec.Probed, rec.ProbeOK, rec.ProbeV = true, ok, se.value
			}
		})
		switch {
		case st == "done":
			rec.End = w.step
			w.afterDone(cl)
		case (st == "stopped" || st == "blocked") && bsAtWriteSend(cl.t):
			rec.MapDone = w.step
		default:
			w.err = fmt.Sprintf("client%d parked unexpectedly (%s) at %s %s during %s", c, st, cl.t.What, cl.t.Obj, a)
		}
		return true
	case 'F':
		c, _ := strconv.Atoi(a[1:])
		cl := w.cl[c]
		if cl.t == nil || !vrt.Enabled(cl.t) {
			return false
		}
		st := vrt.StepThread(cl.t, nil)
		w.step++
		if st != "done" {
			w.err = fmt.Sprintf("client%d did not finish its call (%s) at %s %s", c, st, cl.t.What, cl.t.Obj)
			return true
		}
		cl.rec.End = w.step
		w.afterDone(cl)
		return true
	case 'M':
		if len(w.h.s.writeChan) == 0 {
			return false
		}
		w.step++
		st := vrt.StepThread(w.maint, bsAtOuterSelect)
		if st != "stopped" && st != "blocked" {
			w.err = "maintenance batch ended with " + st + " at " + w.maint.What + " " + w.maint.Obj
		} else if !bsAtOuterSelect(w.maint) {
			w.err = "maintenance parked at " + w.maint.What + " " + w.maint.Obj
		}
		return true
	case 'T':
		if w.ticks >= w.cfg.Ticks {
			return false
		}
		w.ticks++
		w.step++
		vrt.Advance(w.cfg.TickNs)
		vrt.Tick()
		st := vrt.StepThread(w.ticker, bsAtOuterSelect)
		if st != "stopped" && st != "blocked" {
			w.err = "ticker step ended with " + st + " at " + w.ticker.What + " " + w.ticker.Obj
		}
		return true
	case 'U':
		if w.cfg.Burst == 0 || w.bursts >= 1 {
			return false
		}
		w.bursts++
		w.step++
		for i := 0; i < w.cfg.Burst; i++ {
			vrt.Advance(w.cfg.TickNs)
			vrt.Tick()
			st := vrt.StepThread(w.ticker, bsAtOuterSelect)
			if st != "stopped" && st != "blocked" {
				w.err = "ticker step ended with " + st + " at " + w.ticker.What + " " + w.ticker.Obj
				break
			}
		}
		return true
	case 'A':
		if w.advs >= w.cfg.MaxAdv {
			return false
		}
		w.advs++
		d, _ := strconv.ParseInt(a[1:], 10, 64)
		w.step++
		t0 := vrt.NowNanos()
		vrt.Advance(d)
		w.stalls = append(w.stalls, [2]int64{t0, vrt.NowNanos()})
		return true
	case 'D':
		if w.advs >= w.cfg.MaxAdv {
			return false
		}
		d, _ := strconv.ParseInt(a[1:], 10, 64)
		target, ok := w.dlTarget(d)
		if !ok {
			return false
		}
		w.advs++
		w.step++
		t0 := vrt.NowNanos()
		vrt.Advance(target - vrt.NowNanos())
		w.stalls = append(w.stalls, [2]int64{t0, vrt.NowNanos()})
		return true
	}
	panic("bigstep: unknown action " + a)
}

func (w *bsWorld) afterDone(cl *bsClient) {
	if cl.t.Panic != nil {
		cl.rec.Panicked = true
	}
	cl.t, cl.rec = nil, nil
}

// enabled lists the actions the search may take from this state (canonical order, simplest first).
func (w *bsWorld) enabled() []string {
	if w.hy != nil {
		return w.hyEnabled()
	}
	var r []string
	if len(w.h.s.writeChan) > 0 {
		r = append(r, "M")
	}
	for c, cl := range w.cl {
		if cl.t != nil && vrt.Enabled(cl.t) {
			r = append(r, fmt.Sprintf("F%d", c))
		}
	}
	for c, cl := range w.cl {
		if cl.t != nil || cl.used >= w.cfg.OpsPer {
			continue
		}
		// symmetry: client c starts its n-th call only after client c-1 has started its n-th
		if c > 0 && w.cl[c-1].used <= cl.used {
			continue
		}
		for _, op := range w.cfg.Ops {
			r = append(r, fmt.Sprintf("B%d %s", c, op))
		}
	}
	if w.ticks < w.cfg.Ticks {
		r = append(r, "T")
	}
	if w.cfg.Burst > 0 && w.bursts < 1 {
		r = append(r, "U")
	}
	if w.advs < w.cfg.MaxAdv {
		for _, d := range w.cfg.Advs {
			r = append(r, fmt.Sprintf("A%d", d))
		}
		for _, d := range w.cfg.DlAdvs {
			if _, ok := w.dlTarget(d); ok {
				r = append(r, fmt.Sprintf("D%d", d))
			}
		}
	}
	return r
}

// stalledIn: how much of [from,to] passed without tick delivery (A / D actions)
func (w *bsWorld) stalledIn(from, to int64) int64 {
	var sum int64
	for _, iv := range w.stalls {
		a, b := iv[0], iv[1]
		if a < from {
			a = from
		}
		if b > to {
			b = to
		}
		if b > a {
			sum += b - a
		}
	}
	return sum
}

// drain brings the store to quiescence: every pending call finished, queue empty.
func (w *bsWorld) drain() {
	for i := 0; i < 1000 && w.err == ""; i++ {
		progressed := false
		for c, cl := range w.cl {
			if cl.t != nil && vrt.Enabled(cl.t) {
				w.apply(fmt.Sprintf("F%d", c))
				progressed = true
			}
		}
		if len(w.h.s.writeChan) > 0 {
			w.apply("M")
			progressed = true
		}
		if w.hy != nil && w.err == "" && w.hyQueued() > 0 && w.hyStepWorker(0) {
			progressed = true
		}
		if !progressed {
			break
		}
	}
	for c, cl := range w.cl {
		if cl.t != nil && w.err == "" {
			w.err = fmt.Sprintf("drain: client%d still pending", c)
		}
	}
}

// dlTarget is the clock value "deadline of key 1's resident entry + delta" if that lies in the future.
func (w *bsWorld) dlTarget(delta int64) (int64, bool) {
	var t int64
	ok := false
	vrt.Quiet(func() {
		e := w.residentEntry(1)
		if e == nil || e.expire.Load() == 0 {
			return
		}
		dl := e.expire.Load()
		if delta > 0 && dl > (1<<62) {
			return // the clock itself would overflow
		}
		t = dl + delta
		ok = t > vrt.NowNanos()
	})
	return t, ok
}

// residentEntry returns the entry object the shard map holds for k (quiet mode only).
func (w *bsWorld) residentEntry(k int) *Entry[int, int] {
	_, idx := w.h.s.index(k)
	return w.h.s.shards[idx].hashmap[k]
}

func (w *bsWorld) pendingClients() int {
	n := 0
	for _, cl := range w.cl {
		if cl.t != nil {
			n++
		}
	}
	return n
}

// ---- canonical state ----

type bsIDs struct {
	ids   map[*Entry[int, int]]int
	order []*Entry[int, int]
}

func (x *bsIDs) id(e *Entry[int, int]) int {
	if e == nil {
		return 0
	}
	if i, ok := x.ids[e]; ok {
		return i
	}
	x.ids[e] = len(x.ids) + 1
	x.order = append(x.order, e)
	return x.ids[e]
}

func bsListIDs(x *bsIDs, l *List[int, int]) string {
	var s []string
	for e := l.Front(); e != nil; e = e.Next(l.listType) {
		s = append(s, strconv.Itoa(x.id(e)))
	}
	return strings.Join(s, ",")
}

func bsItem(x *bsIDs, it WriteBufItem[int, int]) string {
	return fmt.Sprintf("%d:%d:%d:%v:%v", it.code, x.id(it.entry), it.costChange, it.rechedule, it.fromNVM)
}

// canon renders everything a future step can read, with entry identities replaced by
// first-appearance numbers in a fixed traversal order (quiet mode only).
func (w *bsWorld) canon() string {
	s := w.h.s
	x := &bsIDs{ids: map[*Entry[int, int]]int{}}
	var b strings.Builder
	fmt.Fprintf(&b, "t=%d,%d,%d|", vrt.NowNanos(), s.timerwheel.clock.NowNanoCached(), s.timerwheel.nanos)
	// shard maps, by key
	res := map[int]*Entry[int, int]{}
	var keys []int
	for _, sh := range s.shards {
		for k, e := range sh.hashmap {
			res[k] = e
			keys = append(keys, k)
		}
	}
	sort.Ints(keys)
	b.WriteString("map=")
	for _, k := range keys {
		fmt.Fprintf(&b, "%d>%d,", k, x.id(res[k]))
	}
	p := s.policy
	fmt.Fprintf(&b, "|W=%s;%d;%d;%d|P=%s;%d;%d;%d|T=%s;%d;%d;%d|ws=%d|smp=%d,%d,%v,%v,%d|",
		bsListIDs(x, p.window), p.window.len, p.window.count, p.window.capacity,
		bsListIDs(x, p.slru.probation), p.slru.probation.len, p.slru.probation.count, p.slru.probation.capacity,
		bsListIDs(x, p.slru.protected), p.slru.protected.len, p.slru.protected.count, p.slru.protected.capacity,
		p.weightedSize, p.hitsInSample, p.missesInSample, p.hr, p.step, p.amount)
	// wheel
	b.WriteString("wheel=")
	for lv := range s.timerwheel.wheel {
		for sl, l := range s.timerwheel.wheel[lv] {
			if l.Front() != nil {
				fmt.Fprintf(&b, "%d.%d:%s;", lv, sl, bsListIDs(x, l))
			}
		}
	}
	// queue
	b.WriteString("|q=")
	for _, it := range w.h.pendingItems() {
		b.WriteString(bsItem(x, it) + " ")
	}
	// clients
	b.WriteString("|cl=")
	for _, cl := range w.cl {
		if cl.t == nil {
			fmt.Fprintf(&b, "%d-;", cl.used)
			continue
		}
		it, _ := cl.t.Pending.(WriteBufItem[int, int])
		fmt.Fprintf(&b, "%d+%s;", cl.used, bsItem(x, it))
	}
	fmt.Fprintf(&b, "|tk=%d,%d", w.ticks, w.advs)
	// read buffers
	b.WriteString("|rb=")
	for _, rb := range s.stripedBuffer {
		fmt.Fprintf(&b, "%d,%d,%v:", rb.head.Load(), rb.tail.Load(), rb.returned == nil)
		for i := range rb.buffer {
			if v := rb.buffer[i]; v != nil {
				fmt.Fprintf(&b, "%d@%d,", x.id(castToPointer[int, int](v).entry), i)
			}
		}
		b.WriteString(";")
	}
	// entry pool
	if s.entryPool != nil {
		b.WriteString("|pool=")
		for _, it := range s.entryPool.Items() {
			fmt.Fprintf(&b, "%d,", x.id(it.(*Entry[int, int])))
		}
	}
	// doorkeeper
	if s.doorkeeper {
		h := fnv.New64a()
		for _, sh := range s.shards {
			fmt.Fprint(h, sh.counter, sh.dookeeper.Capacity, "/")
			for _, wd := range sh.dookeeper.Filter {
				fmt.Fprint(h, wd, ",")
			}
		}
		fmt.Fprintf(&b, "|dk=%x", h.Sum64())
	}
	// sketch
	{
		h := fnv.New64a()
		for _, wd := range p.sketch.Table {
			fmt.Fprint(h, wd, ",")
		}
		fmt.Fprintf(&b, "|sk=%x,%d,%d", h.Sum64(), p.sketch.Additions, p.sketch.SampleSize)
	}
	if w.hy != nil {
		w.hyCanon(x, &b)
	}
	// entries, in first-appearance order
	b.WriteString("|E=")
	for i := 0; i < len(x.order); i++ {
		e := x.order[i]
		fmt.Fprintf(&b, "%d:%d=%d,w%d,p%d,x%d,f%d,%v,%v,n%d;", i+1, e.key, e.value, e.weight.Load(), e.policyWeight, e.expire.Load(),
			e.flag.Flags, e.meta.prev != nil, e.meta.wheelPrev != nil, w.h.notified(e.key, e.value))
	}
	return b.String()
}

// ---- the search ----

type bsVisit func(w *bsWorld, hist []string)

type bsSearch struct {
	cfg     *bsCfg
	res     *vh.Result
	env     vh.EnvT
	every   bsVisit // oracle evaluated in every state (before draining)
	drained bsVisit // oracle evaluated after draining that state to quiescence
	leaf    bsVisit // optional: called at states of maximal depth
	probe   bsVisit // optional: runs after drained, NOT in quiet mode: may apply further (destructive) actions to the world, which is discarded afterwards
}

type bsNode struct {
	hist []string
	en   []string
}

// exec builds the state reached by hist on a fresh store and evaluates it.
func (b *bsSearch) exec(hist []string) (key uint64, en []string, ok bool) {
	var w *bsWorld
	applied := true
	x := vrt.Run(vrt.Config{Manual: true, MaxSteps: 200000}, func() {
		w = newBsWorld(b.cfg)
		for _, a := range hist {
			if !w.apply(a) {
				applied = false
				return
			}
		}
		if w.err != "" {
			return
		}
		vrt.Quiet(func() {
			if b.every != nil {
				b.every(w, hist)
			}
			key = vh.Hash(w.canon())
			en = w.enabled()
		})
		w.drain()
		if w.err != "" {
			return
		}
		vrt.Quiet(func() {
			if b.drained != nil {
				b.drained(w, hist)
			}
		})
		if b.probe != nil {
			b.probe(w, hist)
		}
	})
	if x.ErrKind != "" {
		b.res.Violate("engine-"+x.ErrKind, firstLine(x.Err), fmt.Sprintf("history %v: %s", hist, x.Err), len(hist), map[string]any{"cfg": b.cfg.Name, "hist": hist})
		return 0, nil, false
	}
	if !applied {
		b.res.Error = fmt.Sprintf("bigstep: action list %v not applicable (enabled() and apply() disagree)", hist)
		return 0, nil, false
	}
	if w.err != "" {
		b.res.Violate("stuck", firstLine(w.err), fmt.Sprintf("history %v: %s", hist, w.err), len(hist), map[string]any{"cfg": b.cfg.Name, "hist": hist})
		return 0, nil, false
	}
	return key, en, true
}

// run performs the breadth-first search (sharded on the first two levels).
func (b *bsSearch) run() {
	res, env := b.res, b.env
	if env.Replay != "" {
		var rp struct {
			Hist []string `json:"hist"`
		}
		if err := vh.LoadReplay(env.Replay, &rp); err != nil {
			res.Error = "replay: " + err.Error()
			return
		}
		b.exec(rp.Hist)
		res.Executions++
		res.Note("replayed history %v", rp.Hist)
		return
	}
	// determinism self-test: the same history twice gives the same key
	visited := map[uint64]struct{}{}
	k0, en0, ok := b.exec(nil)
	if !ok {
		return
	}
	if k1, _, _ := b.exec(nil); k1 != k0 {
		res.Error = "bigstep: determinism self-test failed (initial state keys differ)"
		return
	}
	res.Executions += 2
	visited[k0] = struct{}{}
	res.States = 1
	frontier := []bsNode{{nil, en0}}
	depth := 0
	idx := 0
	for len(frontier) > 0 && depth < b.cfg.Depth {
		var next []bsNode
		for _, n := range frontier {
			for _, a := range n.en {
				// shard: level-2 nodes are dealt round-robin; level 1 is expanded by everyone
				if depth == 1 {
					idx++
					if env.NShards > 1 && idx%env.NShards != env.Shard {
						continue
					}
				}
				if !env.Deadline.IsZero() && time.Now().After(env.Deadline) {
					res.Cap(fmt.Sprintf("deadline at depth %d (depth %d completed)", depth+1, depth))
					res.Bounds["depth_completed"] = depth
					res.MaxDepth = depth + 1
					return
				}
				h := append(append([]string{}, n.hist...), a)
				k, en, ok := b.exec(h)
				res.Executions++
				res.Transitions++
				if !ok {
					if res.Error != "" {
						return
					}
					continue
				}
				if _, seen := visited[k]; seen {
					continue
				}
				visited[k] = struct{}{}
				res.States++
				if res.States%997 == 1 {
					res.Sample(strings.Join(h, " ; "))
				}
				next = append(next, bsNode{h, en})
			}
		}
		frontier = next
		depth++
	}
	res.MaxDepth = depth
	res.Bounds["depth_completed"] = depth
	res.Bounds["frontier_left"] = len(frontier)
}
