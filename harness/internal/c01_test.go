//go:build verif && vsched

package internal

import (
	"fmt"
	"strings"
	"testing"

	"github.com/Yiling-J/theine-go/internal/vrt"
	"github.com/Yiling-J/theine-go/internal/vrt/vh"
)

// C01 — reads return only the latest value written for that key (linearizable map).
//
// Engine E1-ICB: 2-3 client threads run short scripts of Set/Get/Delete/Range/loading Get on two keys
// forced into one shard (+ one in another shard) against the real instrumented store with its real
// maintenance goroutine, every value globally unique. For every explored schedule the recorded
// call/return history (logical times) must be linearizable w.r.t. a sequential map; evictions / expiries
// enter the history as removal operations witnessed by the removal listener (interval: from the
// invocation of the write of that value to the listener call).

func icToLin(r *icRun) []linOp {
	var ops []linOp
	writerInv := map[int]int{}
	loadedBy := map[int]*icCall{}
	for _, c := range r.calls {
		if c.Op.Kind == "set" || c.Loaded {
			writerInv[c.V] = c.Inv
		}
		if c.Loaded {
			loadedBy[c.V] = c
		}
	}
	for _, c := range r.calls {
		d := fmt.Sprintf("c%d:%s", c.Client, c.Op)
		o := linOp{k: c.Op.K, inv: c.Inv, ret: c.Ret, desc: d, tag: c.Op.Kind}
		switch c.Op.Kind {
		case "set":
			o.kind, o.v = "nop", c.V
			if c.OK || c.Ret == 0 {
				o.kind = "write"
			}
		case "del":
			o.kind = "del"
		case "get":
			if c.Ret == 0 {
				continue
			}
			o.kind, o.v = "readmiss", 0
			if c.OK {
				o.kind, o.v = "readhit", c.Got
			}
		case "lget":
			switch {
			case c.Loaded && c.OK:
				o.kind, o.v = "write", c.V
			case c.Loaded || !c.OK || c.Ret == 0:
				o.kind = "nop"
			default:
				o.kind, o.v = "readhit", c.Got
				o.tag = "lget-hit"
				if ld := loadedBy[c.Got]; ld != nil && ld != c && (ld.Ret == 0 || ld.Ret > c.Inv) {
					o.tag = "lget-joined-inflight-call" // shared result of a singleflight call that was still registered
				}
			}
		case "range":
			// a visit reads the pair while the shard's read lock is held and hands it to the callback at
			// once: it is a read at the instant of the callback, not somewhere within the whole Range call
			for i, kv := range c.Visited {
				ops = append(ops, linOp{kind: "readhit", k: kv[0], v: kv[1], inv: c.VisitAt[i], ret: c.VisitAt[i], desc: d, tag: "range"})
			}
			continue
		default:
			continue
		}
		ops = append(ops, o)
	}
	for i, n := range r.h.notes {
		if n.R == REMOVED {
			continue
		}
		inv, ok := writerInv[n.V]
		if !ok {
			inv = 0
		}
		ret := 1 << 30
		if i < len(r.noteAt) {
			ret = r.noteAt[i]
		}
		ops = append(ops, linOp{kind: "evict", k: n.K, v: n.V, inv: inv, ret: ret, desc: fmt.Sprintf("listener(%d,%d,%d)", n.K, n.V, n.R)})
	}
	return ops
}

func c01Check(res *vh.Result, cfg *icCfg) func(r *icRun, x *vrt.Sched, cost int) {
	return func(r *icRun, x *vrt.Sched, cost int) {
		rp := map[string]any{"driver": cfg.Name, "choices": x.Choices()}
		if len(r.stuck) > 0 || x.ErrKind == "deadlock" {
			res.Violate("deadlock", strings.Join(r.stuck, ","), cfg.Name+": clients never finished: "+strings.Join(r.stuck, ",")+" "+x.Err+"\nhistory: "+r.history(), cost, rp)
			return
		}
		// a loader that ran successfully must hand its own value to its caller
		for _, c := range r.calls {
			if c.Op.Kind == "lget" && c.Loaded && c.OK && c.Got != c.V {
				res.Violate("loaded-value-not-returned", "leader", fmt.Sprintf("%s: loading get ran the loader (value %d) but returned %d\nhistory: %s", cfg.Name, c.V, c.Got, r.history()), cost, rp)
			}
		}
		ops := icToLin(r)
		if !linearizable(linState{}, ops) {
			// classify: which read is the culprit? drop reads one at a time
			sig := "history"
			for i, o := range ops {
				if o.kind != "readhit" && o.kind != "readmiss" {
					continue
				}
				rest := append(append([]linOp{}, ops[:i]...), ops[i+1:]...)
				if linearizable(linState{}, rest) {
					sig = o.kind + ":" + o.tag
					break
				}
			}
			res.Violate("not-linearizable", sig, fmt.Sprintf("%s: history is not linearizable w.r.t. a sequential map\nhistory: %s\nlistener: %s", cfg.Name, r.history(), fmtNotes(r.h.notes)), cost, rp)
		}
		// final state must be explained too: every resident (k,v) readable as the last write
		var fin []linOp
		t := r.clock + 10
		for k, v := range r.final {
			fin = append(fin, linOp{kind: "readhit", k: k, v: v, inv: t, ret: t + 1, desc: "final"})
		}
		if len(fin) > 0 && !linearizable(linState{}, append(append([]linOp{}, ops...), fin...)) {
			res.Violate("final-state-not-explained", "resident-value", fmt.Sprintf("%s: resident map %s is not the result of any linearization\nhistory: %s\nlistener: %s", cfg.Name, fmtMap(r.final), r.history(), fmtNotes(r.h.notes)), cost, rp)
		}
		var obs []string
		for _, c := range r.calls {
			if c.Op.Kind == "get" || c.Op.Kind == "lget" {
				obs = append(obs, fmt.Sprintf("%d:%d%v", c.Client, c.Got, c.OK))
			}
			if c.Op.Kind == "range" {
				obs = append(obs, fmt.Sprintf("%d:%v", c.Client, c.Visited))
			}
		}
		res.Outcome(cfg.Name + "|" + strings.Join(obs, ",") + "|" + fmtMap(r.final) + "|" + fmtNotes(r.h.notes))
		if res.NOutcomes() <= 3 {
			res.Sample(map[string]any{"driver": cfg.Name, "history": r.history(), "schedule_len": len(x.Trace)})
		}
	}
}

func c01Drivers() []*icCfg {
	S := func(k int) icOp { return icOp{Kind: "set", K: k, Cost: 1} }
	G := func(k int) icOp { return icOp{Kind: "get", K: k} }
	D := func(k int) icOp { return icOp{Kind: "del", K: k} }
	L := func(k int) icOp { return icOp{Kind: "lget", K: k} }
	R := icOp{Kind: "range"}
	big := hOpts{MaxSize: 10, ChanSize: 4, BufSize: 2}
	pool := hOpts{MaxSize: 10, ChanSize: 4, BufSize: 2, Pool: true}
	door := hOpts{MaxSize: 10, ChanSize: 4, BufSize: 2, Doorkeeper: true}
	small := hOpts{MaxSize: 2, ChanSize: 4, BufSize: 2}
	smallPool := hOpts{MaxSize: 1, ChanSize: 4, BufSize: 2, Pool: true}
	return []*icCfg{
		{Name: "L1-set-get-del", O: big, Scripts: [][]icOp{{S(1), G(1)}, {S(1), D(1)}, {G(1), G(1)}}},
		{Name: "L2-update-reset", O: big, Pre: []icOp{S(1), S(2)}, Scripts: [][]icOp{{S(1), D(1), S(1)}, {G(1), G(2), G(1)}}},
		{Name: "L3-pressure", O: small, Pre: []icOp{S(1)}, Scripts: [][]icOp{{S(2), S(3)}, {S(4), G(1)}, {G(2), G(1)}}},
		{Name: "L3-pressure-pool", O: smallPool, Fresh: true, Pre: []icOp{S(1)}, Scripts: [][]icOp{{S(2), G(2)}, {S(4), G(4)}, {G(1), G(2)}}},
		{Name: "L1-pool", O: pool, Scripts: [][]icOp{{S(1), G(1)}, {S(1), D(1)}, {G(1), G(1)}}},
		{Name: "L1-doorkeeper", O: door, Pre: []icOp{S(1)}, Scripts: [][]icOp{{S(1), G(1)}, {S(1), D(1)}, {G(1), S(2), G(2)}}},
		{Name: "L4-loading", O: big, Loading: true, LoadCost: 1, Scripts: [][]icOp{{L(1)}, {L(1)}, {S(1), D(1)}}},
		{Name: "L4-loading-reload", O: big, Loading: true, LoadCost: 1, Scripts: [][]icOp{{L(1), G(1)}, {D(1), L(1)}}},
		// a hit that has to wait for the policy lock before it returns (the read buffer - compiled with 2 slots in these
		// two scenarios - drains on every second hit) while the entry it found is evicted, recycled through the entry pool
		// and given to another key: what the hit returns must still be a value of ITS key
		{Name: "L6-pool-hit-vs-recycle", O: hOpts{MaxSize: 1, ChanSize: 4, BufSize: 2, Pool: true, Stripes: 1}, Pre: []icOp{S(1), G(1)},
			Scripts: [][]icOp{{G(1), G(1)}, {S(2), S(3)}}},
		{Name: "L6L-pool-loading-hit-vs-recycle", O: hOpts{MaxSize: 1, ChanSize: 4, BufSize: 2, Pool: true, Stripes: 1}, Loading: true, LoadCost: 1, Pre: []icOp{L(1), L(1)},
			Scripts: [][]icOp{{L(1), L(1)}, {S(2), S(3)}}},
		{Name: "L5-range", O: big, Pre: []icOp{S(1), S(3)}, Scripts: [][]icOp{{R}, {S(1), D(3), S(2)}}},
	}
}

func TestVerif_C01(t *testing.T) {
	env := vh.Env()
	res := vh.NewResult("C01", "E1-ICB", env)
	defer res.Write()
	for _, cfg := range c01Drivers() {
		if d := env.Params["driver"]; d != "" && d != cfg.Name {
			continue
		}
		cfg.P, cfg.D = env.Int("P", 2), env.Int("D", 1)
		cfg.EndWait = true
		icExplore(res, env, cfg, c01Check(res, cfg))
		if res.Error != "" {
			return
		}
	}
}
