//go:build verif && vsched

package internal

import (
	"fmt"
	"sort"
	"strings"
	"testing"

	"github.com/Yiling-J/theine-go/internal/vrt"
	"github.com/Yiling-J/theine-go/internal/vrt/vh"
)

// C02 — resident cost within MaxSize once writes drain, nothing untracked.
//
// Engine E2-BFS (big steps): every order of map phases, event arrivals, batches and ticks
// of 2-3 clients on 2-3 keys. Oracles:
//   every state : #resident entries that are in no policy region <= cap(writeChan) + #calls in flight
//   drained     : Σcost(resident) <= MaxSize; == EstimatedSize; == weightedSize; every resident entry in
//                 exactly one region once with policyWeight == weight; every region member resident;
//                 region len/count consistent.

func c02Structure(w *bsWorld) (viol [][2]string) { return c02StructureOf(w.h, w.cfg.MaxSize) }

func c02StructureOf(h *hStore, maxSize int64) (viol [][2]string) {
	s := h.s
	p := s.policy
	add := func(clause, detail string) { viol = append(viol, [2]string{clause, detail}) }
	res := map[*Entry[int, int]]int{}
	var sum int64
	for _, sh := range s.shards {
		for _, e := range sh.hashmap {
			res[e] = 0
			sum += e.weight.Load()
		}
	}
	var listSum int64
	for name, l := range map[string]*List[int, int]{"window": p.window, "probation": p.slru.probation, "protected": p.slru.protected} {
		var ls int64
		n := 0
		for e := l.Front(); e != nil; e = e.Next(l.listType) {
			n++
			ls += e.policyWeight
			if _, ok := res[e]; !ok {
				add("region-member-not-resident", fmt.Sprintf("entry %d=%d is in %s but not in the shard map", e.key, e.value, name))
			} else {
				res[e]++
			}
			if n > 1000 {
				add("region-list-corrupt", name+" list does not terminate")
				break
			}
		}
		if ls != l.len || n != l.count {
			add("region-size-mismatch", fmt.Sprintf("%s: len field %d vs Σ policyWeight %d, count field %d vs %d members", name, l.len, ls, l.count, n))
		}
		listSum += l.len
	}
	if int64(p.weightedSize) != listSum {
		add("policy-total-mismatch", fmt.Sprintf("weightedSize %d != Σ region len %d", p.weightedSize, listSum))
	}
	for e, n := range res {
		if n != 1 {
			add("resident-not-tracked-once", fmt.Sprintf("resident entry %d=%d is in %d regions (flags %b, policyWeight %d, weight %d)", e.key, e.value, n, e.flag.Flags, e.policyWeight, e.weight.Load()))
		} else if e.policyWeight != e.weight.Load() {
			add("policy-cost-stale", fmt.Sprintf("resident entry %d=%d: policy cost %d != current cost %d", e.key, e.value, e.policyWeight, e.weight.Load()))
		}
		if e.expire.Load() != 0 && e.meta.wheelPrev == nil && n == 1 {
			add("ttl-entry-not-scheduled", fmt.Sprintf("resident entry %d=%d has deadline %d but is not in the timer wheel (flags %b)", e.key, e.value, e.expire.Load(), e.flag.Flags))
		}
	}
	if sum > maxSize {
		add("over-capacity", fmt.Sprintf("Σcost(resident) = %d > MaxSize %d", sum, maxSize))
	}
	if est := int64(p.window.Len() + p.slru.protected.Len() + p.slru.probation.Len()); est != sum {
		add("estimated-size-mismatch", fmt.Sprintf("EstimatedSize %d != Σcost(resident) %d", est, sum))
	}
	sort.Slice(viol, func(i, j int) bool { return viol[i][0] < viol[j][0] })
	return
}

func c02Every(res *vh.Result) bsVisit {
	return func(w *bsWorld, hist []string) {
		s := w.h.s
		untracked := 0
		for _, sh := range s.shards {
			for _, e := range sh.hashmap {
				if e.meta.prev == nil {
					untracked++
				}
			}
		}
		bound := cap(s.writeChan) + w.pendingClients()
		if untracked > bound {
			res.Violate("in-flight-bound", "untracked-exceeds-queue-plus-writers",
				fmt.Sprintf("history %v: %d resident entries are in no policy region, bound is cap(writeChan) %d + %d calls in flight", hist, untracked, cap(s.writeChan), w.pendingClients()),
				len(hist), map[string]any{"cfg": w.cfg.Name, "hist": hist})
		}
	}
}

func c02Drained(res *vh.Result) bsVisit {
	return func(w *bsWorld, hist []string) {
		v := c02Structure(w)
		var cl []string
		for _, x := range v {
			cl = append(cl, x[0])
		}
		res.Outcome(fmt.Sprintf("%s|%v|%s|%d", w.cfg.Name, cl, fmtMap(w.h.resident()), len(w.h.notes)))
		for _, x := range v {
			res.Violate(x[0], w.cfg.Name, fmt.Sprintf("history %v (then drained): %s", hist, x[1]), len(hist), map[string]any{"cfg": w.cfg.Name, "hist": hist})
		}
	}
}

const sec = int64(1e9)

func c02Cfgs() []*bsCfg {
	S := func(k int, c int64) bsOp { return bsOp{"set", k, c, 0} }
	T := func(k int, c int64, ttl int64) bsOp { return bsOp{"set", k, c, ttl} }
	D := func(k int) bsOp { return bsOp{"del", k, 0, 0} }
	return []*bsCfg{
		{Name: "m1-2c", MaxSize: 1, ChanSize: 2, BufSize: 2, NClients: 2, OpsPer: 2, Depth: 9,
			Ops: []bsOp{S(1, 1), S(2, 1), D(1)}},
		{Name: "m2-cost", MaxSize: 2, ChanSize: 2, BufSize: 2, NClients: 2, OpsPer: 2, Depth: 9,
			Ops: []bsOp{S(1, 1), S(1, 2), S(2, 1), D(1)}},
		{Name: "m2-ttl", MaxSize: 2, ChanSize: 2, BufSize: 2, NClients: 2, OpsPer: 2, Depth: 9, Ticks: 2, TickNs: 1100 * 1e6,
			Ops: []bsOp{T(1, 1, sec), S(1, 2), T(1, 1, 90*sec), S(2, 1), D(1)}},
		{Name: "m3-3c", MaxSize: 3, ChanSize: 2, BufSize: 2, NClients: 3, OpsPer: 1, Depth: 10, Ticks: 1, TickNs: 1100 * 1e6,
			Ops: []bsOp{S(1, 1), S(1, 3), T(1, 2, sec), S(2, 2), D(1)}},
		// reads drained into the policy (read-buffer capacity rewritten to 2: every second hit drains), so that
		// entries reach the protected region before costs change
		{Name: "m3-reads", MaxSize: 3, ChanSize: 2, BufSize: 2, NClients: 1, OpsPer: 7, Depth: 16,
			Ops: []bsOp{S(1, 1), S(2, 1), S(3, 1), {"get", 1, 0, 0}, S(2, 3), S(2, 2)}},
		// loading store: a load that finds the key resident (expired but not reclaimed, or stored meanwhile)
		// must reach the policy as a cost update, a load of an absent key as an insert
		{Name: "m3-loading", MaxSize: 3, ChanSize: 2, BufSize: 2, Loading: true, LoadCost: 2, LoadTTL: sec, NClients: 2, OpsPer: 2, Depth: 9,
			Ticks: 1, TickNs: 1100 * 1e6, Advs: []int64{1100 * 1e6}, MaxAdv: 1,
			Ops: []bsOp{S(1, 1), {"lget", 1, 0, 0}, {"lget", 2, 0, 0}, D(1)}},
		{Name: "m2-q1", MaxSize: 2, ChanSize: 1, BufSize: 1, NClients: 3, OpsPer: 1, Depth: 10,
			Ops: []bsOp{S(1, 1), S(1, 2), S(2, 2), S(3, 1), D(1), D(2)}},
	}
}

func TestVerif_C02(t *testing.T) {
	env := vh.Env()
	res := vh.NewResult("C02", "E2-BFS", env)
	defer res.Write()
	for _, cfg := range c02Cfgs() {
		if d := env.Params["cfg"]; d != "" && d != cfg.Name {
			continue
		}
		if d := env.Int("depth", 0); d > 0 {
			cfg.Depth = d
		}
		if n := env.Int("clients", 0); n > 0 {
			cfg.NClients = n
		}
		if n := env.Int("ops", 0); n > 0 {
			cfg.OpsPer = n
		}
		b := &bsSearch{cfg: cfg, res: res, env: env, every: c02Every(res), drained: c02Drained(res)}
		b.run()
		res.Bounds["cfg"] = cfg.Name
		res.Bounds["depth"] = cfg.Depth
		if res.Error != "" {
			return
		}
	}
}

// ---- E1-ICB: interleavings inside the expiry path and the two-phase writes ----

func c02IcbCheck(res *vh.Result, cfg *icCfg) func(r *icRun, x *vrt.Sched, cost int) {
	return func(r *icRun, x *vrt.Sched, cost int) {
		rp := map[string]any{"driver": cfg.Name, "choices": x.Choices()}
		if len(r.stuck) > 0 || x.ErrKind == "deadlock" {
			res.Violate("deadlock", strings.Join(r.stuck, ","), cfg.Name+": clients never finished "+x.Err+"\nhistory: "+r.history(), cost, rp)
			return
		}
		var v [][2]string
		vrt.Quiet(func() { v = c02StructureOf(r.h, cfg.O.MaxSize) })
		var cl []string
		for _, y := range v {
			cl = append(cl, y[0])
			res.Violate(y[0], "icb", fmt.Sprintf("%s (after Wait): %s\nhistory: %s\nlistener: %s", cfg.Name, y[1], r.history(), fmtNotes(r.h.notes)), cost, rp)
		}
		res.Outcome(fmt.Sprintf("%s|%v|%s|%d", cfg.Name, cl, fmtMap(r.final), len(r.h.notes)))
		if res.NOutcomes() <= 2 {
			res.Sample(map[string]any{"driver": cfg.Name, "history": r.history(), "schedule_len": len(x.Trace)})
		}
	}
}

func c02IcbDrivers() []*icCfg {
	S := func(k int, c int64) icOp { return icOp{Kind: "set", K: k, Cost: c} }
	T := func(k int, c int64, ttl int64) icOp { return icOp{Kind: "set", K: k, Cost: c, TTL: ttl} }
	D := func(k int) icOp { return icOp{Kind: "del", K: k} }
	tick := icOp{Kind: "tick", Arg: 2 * sec}
	o := hOpts{MaxSize: 3, ChanSize: 2, BufSize: 2}
	return []*icCfg{
		{Name: "ttl-window", O: o, Pre: []icOp{T(1, 1, sec), {Kind: "wait"}}, Scripts: [][]icOp{{tick}, {T(1, 1, 90*sec), S(1, 2)}}},
		{Name: "ttl-window-new", O: o, Scripts: [][]icOp{{T(1, 1, sec), tick}, {T(1, 2, 90*sec)}}},
		{Name: "cost-updates", O: o, Pre: []icOp{S(2, 1)}, Scripts: [][]icOp{{S(1, 1), S(1, 3)}, {S(1, 2), D(2)}, {S(4, 1)}}},
	}
}

func TestVerif_C02Icb(t *testing.T) {
	env := vh.Env()
	res := vh.NewResult("C02/icb", "E1-ICB", env)
	defer res.Write()
	for _, cfg := range c02IcbDrivers() {
		if d := env.Params["driver"]; d != "" && d != cfg.Name {
			continue
		}
		cfg.P, cfg.D = env.Int("P", 2), env.Int("D", 1)
		cfg.EndWait = true
		icExplore(res, env, cfg, c02IcbCheck(res, cfg))
		if res.Error != "" {
			return
		}
	}
}
