//go:build verif && vplain

package internal

import (
	"bytes"
	"context"
	"fmt"
	"runtime"
	"testing"
	"time"

	"github.com/Yiling-J/theine-go/internal/vrt/vh"
)

// C03 after LoadCache: a value restored from a stream must not be served after its deadline either.
//
// Exhaustive grid over (uptime of the saving cache) x (TTL) x (read offset relative to the deadline) x
// (read path), with the loading cache's maintenance stalled (its ticker is stopped, so the cached clock
// is whatever Recover left behind). Time is driven white-box by shifting the clock origin; all offsets are
// >= 500 ms away from the deadline so that real-clock jitter decides nothing.

func c03StopTicker(s *Store[int, int]) error {
	for i := 0; ; i++ {
		s.policyMu.Lock()
		tk := s.maintenanceTicker
		if tk != nil {
			tk.Stop()
			s.policyMu.Unlock()
			return nil
		}
		s.policyMu.Unlock()
		runtime.Gosched()
		if i > 1000 {
			time.Sleep(time.Millisecond)
		}
		if i > 6000 {
			return fmt.Errorf("maintenance ticker never appeared")
		}
	}
}

type c03LoadCase struct {
	UptimeS int64  `json:"uptime_s"`
	TTLms   int64  `json:"ttl_ms"`
	OffMs   int64  `json:"off_ms"`
	Read    string `json:"read"`
}

func c03LoadRun(c c03LoadCase) (hit bool, got int, cachedLag int64, err error) {
	WriteChanSize, WriteBufferSize, StripedBufferSize = 16, 4, 1
	saved := NewStore(&StoreOptions[int, int]{MaxSize: 10})
	defer saved.Close()
	if err = c03StopTicker(saved); err != nil {
		return
	}
	saved.timerwheel.clock.Start = time.Now().Add(-time.Duration(c.UptimeS) * time.Second)
	saved.timerwheel.clock.RefreshNowCache()
	saved.Set(1, 111, 1, time.Duration(c.TTLms)*time.Millisecond)
	saved.Wait()
	var buf bytes.Buffer
	if err = saved.Persist(7, &buf); err != nil {
		return
	}
	fresh := NewStore(&StoreOptions[int, int]{MaxSize: 10})
	defer fresh.Close()
	if err = c03StopTicker(fresh); err != nil {
		return
	}
	ls := NewLoadingStore(fresh)
	ls.Loader(func(ctx context.Context, k int) (Loaded[int], error) { return Loaded[int]{Value: 999, Cost: 1}, nil })
	if err = fresh.Recover(7, &buf); err != nil {
		return
	}
	cachedLag = fresh.timerwheel.clock.NowNano() - fresh.timerwheel.clock.NowNanoCached()
	// let (TTL + offset) pass without a tick: shift the adopted origin back
	fresh.timerwheel.clock.Start = fresh.timerwheel.clock.Start.Add(-time.Duration(c.TTLms+c.OffMs) * time.Millisecond)
	switch c.Read {
	case "get":
		got, hit = fresh.Get(1)
	case "lget":
		v, e := ls.Get(context.Background(), 1)
		got, hit = v, e == nil && v == 111
	case "range":
		fresh.Range(func(k, v int) bool {
			if k == 1 {
				hit, got = true, v
			}
			return true
		})
	}
	return
}

func TestVerif_C03Load(t *testing.T) {
	env := vh.Env()
	res := vh.NewResult("C03/after-load", "EX-ENUM", env)
	defer res.Write()
	var cases []c03LoadCase
	for _, up := range []int64{0, 29, 31, 3600, 3 * 86400} {
		for _, ttl := range []int64{1000, 10000, 29000} {
			for _, off := range []int64{-500, 500, 5000} {
				for _, rd := range []string{"get", "lget", "range"} {
					cases = append(cases, c03LoadCase{up, ttl, off, rd})
				}
			}
		}
	}
	if env.Replay != "" {
		var c c03LoadCase
		if err := vh.LoadReplay(env.Replay, &c); err != nil {
			res.Error = err.Error()
			return
		}
		cases = []c03LoadCase{c}
	}
	for i, c := range cases {
		if env.NShards > 1 && i%env.NShards != env.Shard {
			continue
		}
		hit, got, lag, err := c03LoadRun(c)
		res.Executions++
		res.States++
		res.Transitions += 6
		if err != nil {
			res.Error = fmt.Sprintf("case %+v: %v", c, err)
			return
		}
		res.Outcome(fmt.Sprintf("%d|%d|%d|%s|%v|%v", c.UptimeS, c.TTLms, c.OffMs, c.Read, hit, lag > int64(time.Second)))
		if c.OffMs > 0 && hit {
			sig := fmt.Sprintf("%s,after-load,cached-clock-lag", c.Read)
			if lag <= int64(time.Second) {
				sig = fmt.Sprintf("%s,after-load,cached-clock-fresh", c.Read)
			} else if lag >= 30*int64(time.Second) {
				sig += ">=30s"
			}
			res.Violate("served-after-deadline", sig,
				fmt.Sprintf("saving cache uptime %d s, TTL %d ms: a %s %d ms after the deadline on the loading cache (maintenance stalled since the load) returned %d; right after Recover the cached clock lagged the clock by %d ms",
					c.UptimeS, c.TTLms, c.Read, c.OffMs, got, lag/1e6), 1, c)
		}
		if i < 3 {
			res.Sample(map[string]any{"case": c, "hit": hit, "cached_clock_lag_ms_after_recover": lag / 1e6})
		}
	}
	res.Bounds["cases"] = len(cases)
}
