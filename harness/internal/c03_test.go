//go:build verif && vsched

package internal

import (
	"fmt"
	"math"
	"strings"
	"testing"

	"github.com/Yiling-J/theine-go/internal/vrt/vh"
)

// C03 — no entry is served after its expiry deadline.
//
// Engine E2-BFS (big steps) with a virtual clock: SetWithTTL over a TTL alphabet, clock advances to
// deadline-1ns / deadline / deadline+1ns and by 29 s / 31 s / 61 s with and without the ticker body
// running (a stalled maintenance is a path on which T is not taken), re-arming SetWithTTL, Get, loading
// Get, Range. Reference deadline of a value = time of the TTL-bearing call that wrote it + TTL
// (saturating); a TTL-less Set writes a value the property does not constrain.
// Oracle: every hit / Range visit of a constrained value happens strictly before its deadline.

func c03SatAdd(a, b int64) int64 {
	if b > 0 && a > math.MaxInt64-b {
		return math.MaxInt64
	}
	return a + b
}

func c03Check(res *vh.Result) bsVisit {
	return func(w *bsWorld, hist []string) {
		rp := map[string]any{"cfg": w.cfg.Name, "hist": hist}
		// value -> reference deadline (0 = unconstrained)
		dl := map[int]int64{}
		var obs []string
		for _, r := range w.recs {
			switch r.Op.Kind {
			case "set":
				if r.Op.TTL > 0 {
					dl[r.V] = c03SatAdd(r.Now, r.Op.TTL)
				}
			case "lget":
				if r.Stored && w.cfg.LoadTTL > 0 {
					at := r.Now
					if r.LoadEnd != 0 {
						at = r.LoadEnd // the value is stored when its loader returns
					}
					dl[r.V] = c03SatAdd(at, w.cfg.LoadTTL)
				}
			}
			var hits [][2]int
			switch r.Op.Kind {
			case "get":
				if r.OK {
					hits = append(hits, [2]int{r.Op.K, r.Got})
				}
			case "lget":
				if r.OK && r.Loads == 0 && !r.Stored {
					hits = append(hits, [2]int{r.Op.K, r.Got})
				}
			case "range":
				hits = r.Visited
			}
			for _, h := range hits {
				d, ok := dl[h[1]]
				if !ok || d == 0 {
					continue
				}
				late := r.Now - d
				obs = append(obs, fmt.Sprintf("%s:%v", r.Op.Kind, late >= 0))
				if r.Now >= d {
					cached := "cached-clock-fresh"
					if r.Now-r.CachedNow >= 30*sec {
						cached = "cached-clock-stale>=30s"
						// the recorded finding needs maintenance to be STALLED for >= 30 s; a cached clock that is that old
						// although tick periods went by normally is something else
						if w.stalledIn(r.CachedNow, r.Now) < 30*sec {
							cached = "cached-clock-stale>=30s-although-ticks-were-due"
						}
					}
					res.Violate("served-after-deadline", fmt.Sprintf("%s,%s", r.Op.Kind, cached),
						fmt.Sprintf("history %v: %s at t=%d returned value %d of key %d whose deadline was %d (%d ns late); cached clock was %d", hist, r.Op.Kind, r.Now, h[1], h[0], d, late, r.CachedNow),
						len(hist), rp)
				}
			}
		}
		res.Outcome(w.cfg.Name + "|" + strings.Join(obs, ","))
	}
}

func c03Cfgs() []*bsCfg {
	T := func(k int, ttl int64) bsOp { return bsOp{"set", k, 1, ttl} }
	S := func(k int) bsOp { return bsOp{"set", k, 1, 0} }
	G := func(k int) bsOp { return bsOp{"get", k, 0, 0} }
	L := func(k int) bsOp { return bsOp{"lget", k, 0, 0} }
	R := bsOp{"range", 0, 0, 0}
	edge := []int64{-1, 0, 1}
	return []*bsCfg{
		{Name: "edges", MaxSize: 4, ChanSize: 4, BufSize: 2, NClients: 1, OpsPer: 5, Depth: 9, Ticks: 2, TickNs: sec, DlAdvs: edge, MaxAdv: 2,
			Ops: []bsOp{T(1, 1), T(1, sec), T(1, 30*sec-1), T(1, 30*sec), T(1, 30*sec+1), G(1), R}},
		{Name: "stall", MaxSize: 4, ChanSize: 4, BufSize: 2, NClients: 1, OpsPer: 4, Depth: 9, Ticks: 2, TickNs: sec, Advs: []int64{29 * sec, 31 * sec, 61 * sec}, DlAdvs: edge, MaxAdv: 2,
			Ops: []bsOp{T(1, 61*sec), T(1, 2*3600*sec), T(1, 30*sec), G(1), R}},
		// an idle cache: 40 tick periods go by on an empty wheel, then a short TTL is set and read just past its deadline
		{Name: "idle", MaxSize: 4, ChanSize: 4, BufSize: 2, NClients: 1, OpsPer: 3, Depth: 6, Ticks: 1, TickNs: sec, Burst: 40, DlAdvs: edge, MaxAdv: 1,
			Ops: []bsOp{T(1, sec), T(1, 500*1e6), G(1), R}},
		{Name: "rearm", MaxSize: 4, ChanSize: 4, BufSize: 2, NClients: 2, OpsPer: 3, Depth: 9, Ticks: 2, TickNs: 1100 * 1e6, DlAdvs: edge, MaxAdv: 2,
			Ops: []bsOp{T(1, sec), T(1, 3*sec), S(1), G(1)}},
		// a REFUSED write (cost above MaxSize) with a long TTL on a resident, soon-expiring key: it must not touch the deadline
		{Name: "refused", MaxSize: 4, ChanSize: 4, BufSize: 2, NClients: 1, OpsPer: 4, Depth: 8, Ticks: 2, TickNs: 1100 * 1e6, DlAdvs: edge, MaxAdv: 2,
			Ops: []bsOp{T(1, sec), {"set", 1, 5, 90 * sec}, {"set", 1, 4, 3 * sec}, G(1), R}},
		{Name: "huge", MaxSize: 4, ChanSize: 4, BufSize: 2, NClients: 1, OpsPer: 3, Depth: 7, Ticks: 1, TickNs: sec, Advs: []int64{61 * sec}, MaxAdv: 1,
			Ops: []bsOp{T(1, 1<<62), T(1, math.MaxInt64), T(1, math.MaxInt64-5*sec), G(1), R}},
		{Name: "loading", MaxSize: 4, ChanSize: 4, BufSize: 2, Loading: true, LoadCost: 1, LoadTTL: 40 * sec, NClients: 1, OpsPer: 4, Depth: 8, Ticks: 2, TickNs: sec, Advs: []int64{31 * sec}, DlAdvs: edge, MaxAdv: 2,
			Ops: []bsOp{L(1), T(1, sec), G(1)}},
	}
}

func TestVerif_C03(t *testing.T) {
	env := vh.Env()
	res := vh.NewResult("C03", "E2-BFS", env)
	defer res.Write()
	for _, cfg := range c03Cfgs() {
		if d := env.Params["cfg"]; d != "" && d != cfg.Name {
			continue
		}
		if d := env.Int("depth", 0); d > 0 {
			cfg.Depth = d
		}
		b := &bsSearch{cfg: cfg, res: res, env: env, every: c03Check(res)}
		b.run()
		res.Bounds["cfg"] = cfg.Name
		res.Bounds["depth"] = cfg.Depth
		if res.Error != "" {
			return
		}
	}
}
