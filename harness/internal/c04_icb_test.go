//go:build verif && vsched

package internal

import (
	"fmt"
	"strings"
	"testing"

	"github.com/Yiling-J/theine-go/internal/vrt"
	"github.com/Yiling-J/theine-go/internal/vrt/vh"
)

// C04, the ticker goroutine under contention (engine E1-ICB). The wheel arithmetic is decided by the BFS / sweep
// scenarios on the bare wheel; what they cannot see is whether a tick that IS due really gets to run the wheel when the
// policy lock is busy at that instant (a size poll, a batch of writes, a reader draining its stripe).
//
// Drivers: an entry with a 1 s TTL; the clock moves 2 s and the tick is delivered while other clients use the policy
// lock. Oracle: when everything has come to rest (the ticker goroutine is back at its select, no further tick is due),
// the overdue entry must be gone and reported EXPIRED - in every schedule.

func c04IcCheck(res *vh.Result, cfg *icCfg) func(r *icRun, x *vrt.Sched, cost int) {
	return func(r *icRun, x *vrt.Sched, cost int) {
		rp := map[string]any{"driver": cfg.Name, "choices": x.Choices()}
		if len(r.stuck) > 0 || x.ErrKind == "deadlock" {
			res.Violate("call-never-returns", strings.Join(r.stuck, ",")+firstLine(x.Err), fmt.Sprintf("%s: %v %s", cfg.Name, r.stuck, x.Err), cost, rp)
			return
		}
		ticked := false
		for _, c := range r.calls {
			if c.Op.Kind == "tick" && c.Ret != 0 {
				ticked = true
			}
		}
		_, resident := r.final[1]
		expired := 0
		for _, n := range r.h.notes {
			if n.K == 1 && n.R == EXPIRED {
				expired++
			}
		}
		// key 1 may have been overwritten by a client (then it carries that client's deadline or none): only the
		// drivers below that never re-set key 1 are judged
		if ticked && (resident || expired != 1) {
			res.Violate("late-expiry", "tick-delivered-but-wheel-not-advanced", fmt.Sprintf("%s: key 1 (TTL 1 s) was overdue when the tick was delivered at t=2 s, and at rest it is resident=%v with %d EXPIRED notifications\nhistory: %s\nlistener: %s",
				cfg.Name, resident, expired, r.history(), fmtNotes(r.h.notes)), cost, rp)
		}
		res.Outcome(fmt.Sprintf("%s|%v|%d|%s", cfg.Name, resident, expired, fmtMap(r.final)))
		if res.NOutcomes() <= 2 {
			res.Sample(map[string]any{"driver": cfg.Name, "history": r.history()})
		}
	}
}

func c04IcDrivers() []*icCfg {
	S := func(k int) icOp { return icOp{Kind: "set", K: k, Cost: 1} }
	G := func(k int) icOp { return icOp{Kind: "get", K: k} }
	big := hOpts{MaxSize: 10, ChanSize: 4, BufSize: 2}
	tick := icOp{Kind: "tick", Arg: 2 * sec}
	pre := []icOp{{Kind: "set", K: 1, Cost: 1, TTL: sec}, {Kind: "wait"}}
	return []*icCfg{
		{Name: "K1-tick-vs-size-poll", O: big, Pre: pre, Scripts: [][]icOp{{tick}, {{Kind: "est"}, {Kind: "est"}}}, Post: []icOp{{Kind: "wait"}}},
		{Name: "K2-tick-vs-writes", O: big, Pre: pre, Scripts: [][]icOp{{tick}, {S(2), S(3)}, {{Kind: "est"}}}, Post: []icOp{{Kind: "wait"}}},
		{Name: "K3-tick-vs-reads", O: big, Pre: append(append([]icOp{}, pre...), S(2), icOp{Kind: "wait"}), Scripts: [][]icOp{{tick}, {G(2), G(2), G(2)}}, Post: []icOp{{Kind: "wait"}}},
	}
}

func TestVerif_C04_ICB(t *testing.T) {
	env := vh.Env()
	res := vh.NewResult("C04", "E1-ICB", env)
	defer res.Write()
	for _, cfg := range c04IcDrivers() {
		if d := env.Params["driver"]; d != "" && d != cfg.Name {
			continue
		}
		cfg.P, cfg.D = env.Int("P", 2), env.Int("D", 1)
		icExplore(res, env, cfg, c04IcCheck(res, cfg))
		if res.Error != "" {
			return
		}
	}
}
