//go:build verif && vplain

package internal

import (
	"context"
	"fmt"
	"runtime"
	"strings"
	"time"

	"github.com/Yiling-J/theine-go/internal/vrt/vh"
)

// C04 through the Store: Set -> NEW/UPDATE event -> sinkWrite -> timerwheel.schedule, and the ticker body
// (RefreshNowCache + timerwheel.advance(0, removeEntry)) -> removeEntry(EXPIRED) -> listener.
//
// The store's background goroutines are stopped right after construction (context cancelled, waited for),
// and the harness plays their role step by step: it takes the queued events and hands them to the real
// sinkWrite, and runs the real ticker body once per virtual second. Virtual time = clock.Start shifted
// before every step. The oracle never looks at a clock: deadlines are read from entry.expire, advance
// times from timerwheel.nanos (the values the code itself used).

type c04SNote struct {
	k, v int
	r    RemoveReason
	at   int64 // wheel time of the advance that reported it
}

type c04S struct {
	s      *Store[int, int]
	notes  []c04SNote
	advs   []int64
	vnow   int64
	tickAt int64 // virtual time of the last ticker period (Sets happen a quarter second later, so that no
	// comparison between a deadline and an advance time is decided by nanoseconds of real-clock jitter)
}

func c04NewS() (*c04S, error) {
	WriteChanSize, WriteBufferSize, StripedBufferSize = 16, 4, 1
	base := runtime.NumGoroutine()
	h := &c04S{}
	h.s = NewStore(&StoreOptions[int, int]{MaxSize: 100, Listener: func(k, v int, r RemoveReason) {
		h.notes = append(h.notes, c04SNote{k, v, r, h.s.timerwheel.nanos})
	}})
	h.s.cancel()
	for i := 0; runtime.NumGoroutine() > base; i++ {
		runtime.Gosched()
		if i > 100 {
			time.Sleep(time.Millisecond)
		}
		if i > 3000 {
			return nil, fmt.Errorf("store goroutines did not stop")
		}
	}
	// the goroutines are gone; give the store a live context again so that its API behaves as on
	// an open cache (queue sends are abandoned once the store's context is cancelled)
	h.s.ctx, h.s.cancel = context.WithCancel(context.Background())
	return h, nil
}

func (h *c04S) setNow(v int64) {
	h.vnow = v
	h.s.timerwheel.clock.Start = time.Now().Add(-time.Duration(v))
}

// pump hands up to n queued events to the real sinkWrite (n<0: all).
func (h *c04S) pump(n int) {
	h.setNow(h.vnow)
	h.s.policyMu.Lock()
	defer h.s.policyMu.Unlock()
	for ; n != 0; n-- {
		select {
		case it := <-h.s.writeChan:
			h.s.sinkWrite(it)
		default:
			return
		}
	}
}

// tick = the body of the maintenance ticker at virtual time v.
func (h *c04S) tick(v int64) int64 {
	h.setNow(v)
	h.tickAt = v
	s := h.s
	c04Progress++
	func() {
		s.policyMu.Lock()
		defer s.policyMu.Unlock()
		s.timerwheel.clock.RefreshNowCache()
		s.timerwheel.advance(0, s.removeEntry)
	}()
	h.advs = append(h.advs, s.timerwheel.nanos)
	return s.timerwheel.nanos
}

func (h *c04S) entry(k int) *Entry[int, int] {
	_, idx := h.s.index(k)
	return h.s.shards[idx].hashmap[k]
}

func (h *c04S) locate(e *Entry[int, int]) int {
	for l := range h.s.timerwheel.wheel {
		for _, list := range h.s.timerwheel.wheel[l] {
			n := 0
			for x := list.root.meta.wheelNext; x != nil && x != &list.root && n < 10; x = x.meta.wheelNext {
				if x == e {
					return l
				}
				n++
			}
		}
	}
	return -1
}

type c04SStep struct {
	op   string // set, wait, pump, tickto
	ttl  int64
	secs int
}

type c04SCase struct {
	name  string
	t0    int64
	steps []c04SStep
	past  bool
	kind  string // which event carries the already-passed deadline into the wheel: new / update
}

func c04StoreCases(past bool) []c04SCase {
	var cs []c04SCase
	half := c04Sec / 2
	ttls := []int64{c04Sec / 2, c04Sec, 5 * c04Sec, 30 * c04Sec, 68 * c04Sec, 69 * c04Sec, 100 * c04Sec, 3600 * c04Sec, 2 * 3600 * c04Sec, 40 * 3600 * c04Sec, 7 * 86400 * c04Sec}
	for _, t0 := range []int64{c04Sec, 3<<36 - half} {
		for _, ttl := range ttls {
			cs = append(cs, c04SCase{name: fmt.Sprintf("ttl=%s@t0=%d", c04Dur(ttl), t0), t0: t0,
				steps: []c04SStep{{op: "set", ttl: ttl}, {op: "pump"}}})
		}
		// {0, n}: the entry is created without a TTL and gets its FIRST deadline from an update
		for _, p := range [][2]int64{{100, 3}, {3, 100}, {5, 2}, {2, 5}, {3, 4000}, {4000, 3}, {100, 69}, {0, 3}, {0, 100}, {0, 4000}} {
			cs = append(cs, c04SCase{name: fmt.Sprintf("update %ds->%ds after 1 tick@t0=%d", p[0], p[1], t0), t0: t0,
				steps: []c04SStep{{op: "set", ttl: p[0] * c04Sec}, {op: "pump"}, {op: "ticks", secs: 1}, {op: "set", ttl: p[1] * c04Sec}, {op: "pump"}}})
		}
		// the UPDATE event stays queued while the ticker runs: the wheel meets the new deadline before sinkWrite reschedules
		cs = append(cs, c04SCase{name: fmt.Sprintf("update 2s->100s, event queued over 4 ticks@t0=%d", t0), t0: t0,
			steps: []c04SStep{{op: "set", ttl: 2 * c04Sec}, {op: "pump"}, {op: "ticks", secs: 1}, {op: "set", ttl: 100 * c04Sec}, {op: "ticks", secs: 4}, {op: "pump"}}})
		cs = append(cs, c04SCase{name: fmt.Sprintf("update 2s->5s, event queued over 3 ticks@t0=%d", t0), t0: t0,
			steps: []c04SStep{{op: "set", ttl: 2 * c04Sec}, {op: "pump"}, {op: "ticks", secs: 1}, {op: "set", ttl: 5 * c04Sec}, {op: "ticks", secs: 3}, {op: "pump"}}})
		if past {
			// the new (short) deadline has passed, and the wheel has ticked, before the UPDATE event is applied
			// same for the NEW event of a short-lived key (sinkWrite must reclaim it at once instead of scheduling it)
			cs = append(cs, c04SCase{name: fmt.Sprintf("ttl=1s, NEW event queued over 3 ticks@t0=%d", t0), t0: t0, past: true, kind: "new",
				steps: []c04SStep{{op: "set", ttl: c04Sec}, {op: "ticks", secs: 3}, {op: "pump"}}})
			cs = append(cs, c04SCase{name: fmt.Sprintf("update 100s->1s, event queued over 3 ticks@t0=%d", t0), t0: t0, past: true, kind: "update",
				steps: []c04SStep{{op: "set", ttl: 100 * c04Sec}, {op: "pump"}, {op: "ticks", secs: 1}, {op: "set", ttl: c04Sec}, {op: "ticks", secs: 3}, {op: "pump"}}})
		}
	}
	return cs
}

// c04StoreRun executes one case; returns violations as (clause, signature, detail) and an outcome token.
func c04StoreRun(c c04SCase) (viol [][3]string, outcome string, nadv int, err error) {
	h, err := c04NewS()
	if err != nil {
		return nil, "", 0, err
	}
	defer h.s.Close()
	defer func() {
		if r := recover(); r != nil {
			viol = append(viol, [3]string{"panic", "store", fmt.Sprintf("panic in the store/wheel: %v", r)})
			outcome, err = "panic", nil
		}
	}()
	c04Current = func() (string, c04Replay) { return "store case " + c.name, c04Replay{Mode: "store", Case: c.name} }
	const key = 7
	now := h.tick(c.t0) // brings the wheel time to t0 (empty wheel)
	var d int64
	dSetAt := 0
	val := 0
	for _, st := range c.steps {
		switch st.op {
		case "set":
			val++
			h.setNow(h.tickAt + c04Sec/4)
			if !h.s.Set(key, val, 1, time.Duration(st.ttl)) {
				return nil, "", 0, fmt.Errorf("Set returned false")
			}
			e := h.entry(key)
			if e == nil {
				return nil, "", 0, fmt.Errorf("entry not in the map after Set")
			}
			d = e.expire.Load()
			dSetAt = len(h.advs)
			if st.ttl == 0 {
				if d != 0 {
					return nil, "", 0, fmt.Errorf("Set without TTL left deadline %d", d)
				}
			} else if d < h.vnow+st.ttl || d > h.vnow+st.ttl+50*int64(time.Millisecond) {
				// the experiment is void if the process was stalled between shifting the clock and the call
				return nil, "", 0, fmt.Errorf("clock drift: deadline %d for virtual now %d + ttl %d", d, h.vnow, st.ttl)
			}
		case "pump":
			h.pump(-1)
		case "ticks":
			for i := 0; i < st.secs; i++ {
				now = h.tick(h.tickAt + c04Sec)
			}
		}
	}
	e := h.entry(key)
	lateLvl := -2
	schedLvl := -1 // where the entry really sits once everything is applied
	if e != nil {
		schedLvl = h.locate(e)
	}
	wantLvl := c04Level(d - h.s.timerwheel.nanos) // level by remaining duration when its last event was applied
	// 1 s cadence from here (everything is applied) until the bound has passed
	dSetAt = len(h.advs)
	for i := 0; ; i++ {
		next := h.tickAt + c04Sec
		// TTLs beyond 2 h: 100 ticker periods, one jump to 5 s before the deadline, ticker periods again
		// (the uninterrupted 1 s cadence over days is run on the bare wheel by the sweep scenario)
		if i >= 100 && d-h.vnow > 7300*c04Sec {
			next = d - 5*c04Sec
		}
		now = h.tick(next)
		if now >= d+c04Tick {
			break
		}
	}
	reportedInTime := false
	for _, n := range h.notes {
		if n.k == key && n.r == EXPIRED {
			reportedInTime = true
		}
	}
	if !reportedInTime {
		lateLvl = -1
		if e != nil {
			lateLvl = h.locate(e)
		}
		// how late is it really? follow its slot
		for i := 0; i < 300000 && len(h.notes) == 0; i++ {
			next := h.tickAt + c04Sec
			if lateLvl >= 0 {
				if se := c04SlotEnd(d, lateLvl); se-3*c04Sec > next {
					next = se - 3*c04Sec
				}
			}
			now = h.tick(next)
		}
	}
	nadv = len(h.advs)
	add := func(clause, sig, format string, a ...any) {
		viol = append(viol, [3]string{clause, sig, fmt.Sprintf(format, a...)})
	}
	nrep := 0
	for _, n := range h.notes {
		if n.k != key || n.r != EXPIRED {
			add("spurious-report", "store", "listener got key=%d reason=%d", n.k, n.r)
			continue
		}
		nrep++
		if nrep > 1 {
			add("double-report", "store", "key reported EXPIRED %d times", nrep)
		}
		if n.at < d {
			add("early-expiry", "store", "reported EXPIRED by the advance at %d, %s before its deadline %d", n.at, c04Dur(d-n.at), d)
		}
		if n.v != val {
			add("spurious-report", "store-stale-value", "reported value %d, last Set stored %d", n.v, val)
		}
	}
	if lateLvl != -2 {
		sig := fmt.Sprintf("level=%d", lateLvl)
		if lateLvl > wantLvl {
			sig += fmt.Sprintf(" coarser-than-scheduled(sched-level=%d)", wantLvl)
		}
		if c.past {
			sig += " sched=past(" + c.kind + ")"
		}
		fin := "never (300000 more advances)"
		if nrep > 0 {
			fin = fmt.Sprintf("by the advance at deadline + %s", c04Dur(h.notes[0].at-d))
		}
		first := int64(0)
		for _, a := range h.advs[dSetAt:] {
			if a >= d+c04Tick {
				first = a
				break
			}
		}
		add("late-expiry", sig, "key with deadline %d was not reported EXPIRED by the first ticker advance (after its last event was applied) at or after deadline + 2^30 ns (advance at %d = deadline + %s); it sat on wheel level %d; reported %s",
			d, first, c04Dur(first-d), lateLvl, fin)
	}
	if nrep > 0 && h.s.Len() != 0 {
		add("wheel-malformed", "store-still-resident", "key reported EXPIRED but Len()=%d", h.s.Len())
	}
	delay := "never"
	if nrep > 0 {
		k := 0
		for _, a := range h.advs[dSetAt:] {
			if a >= d && a < h.notes[0].at {
				k++
			}
		}
		delay = fmt.Sprintf("k%d", c04Min(k, 3))
	}
	outcome = fmt.Sprintf("L%d:%s", schedLvl, delay)
	return
}

func c04StoreCase(res *vh.Result, name string) {
	for _, c := range c04StoreCases(true) {
		if c.name != name {
			continue
		}
		var viol [][3]string
		var out string
		var nadv int
		var err error
		for try := 0; try < 3; try++ {
			if viol, out, nadv, err = c04StoreRun(c); err == nil || !strings.HasPrefix(err.Error(), "clock drift") {
				break
			}
		}
		if err != nil {
			res.Error = "store case " + name + ": " + err.Error()
			return
		}
		res.Executions++
		res.States++
		res.Transitions += int64(nadv)
		res.Outcome(out)
		for _, v := range viol {
			res.Violate(v[0], v[1], "store case "+name+" (1 s ticker cadence) => "+v[2], len(c.steps), c04Replay{Mode: "store", Case: name})
		}
		if len(viol) == 0 {
			res.Sample(map[string]any{"store_case": name, "ticker_advances": nadv, "outcome": out})
		}
		return
	}
	res.Error = "unknown store case " + name
}

func c04Store(res *vh.Result, env vh.EnvT) {
	past := env.Int("past", 0) == 1
	cs := c04StoreCases(past)
	res.Bounds["cases"] = len(cs)
	res.MaxSamples = 4
	for i, c := range cs {
		if i%env.NShards != env.Shard {
			continue
		}
		if !env.Deadline.IsZero() && time.Now().After(env.Deadline) {
			res.Cap("deadline")
			return
		}
		c04StoreCase(res, c.name)
		if res.Error != "" {
			return
		}
	}
	if env.Shard == 0 {
		c04StoreWindow(res)
	}
	res.MaxDepth = 6
}

// c04StoreWindow records (as a note, not as a verdict) what happens when a TTL extension lands between the
// wheel's deadline test in TimerWheel.expire and removeEntry's re-check. The two statements the wheel
// executes for an expired entry (deschedule; remove(entry, EXPIRED)) are issued by hand after the
// extending Set — a hand-made interleaving, which is why it is only reported, the scheduler-driven
// check of C02 owns it.
func c04StoreWindow(res *vh.Result) {
	h, err := c04NewS()
	if err != nil {
		return
	}
	defer h.s.Close()
	defer func() {
		if r := recover(); r != nil {
			res.Note("expiry-window probe panicked: %v", r)
		}
	}()
	const key = 9
	h.tick(c04Sec)
	h.setNow(h.vnow)
	h.s.Set(key, 1, 1, 2*time.Second)
	h.pump(-1)
	e := h.entry(key)
	h.setNow(h.vnow + 3*c04Sec) // the first deadline has passed; the wheel would now find it expired
	h.s.Set(key, 2, 1, 100*time.Second)
	d2 := e.expire.Load()
	h.s.policyMu.Lock()
	h.s.timerwheel.deschedule(e)
	h.s.removeEntry(e, EXPIRED)
	h.s.policyMu.Unlock()
	h.pump(-1)
	h.tickAt = h.vnow
	now := h.vnow
	for now < d2+200*c04Sec {
		now = h.tick(h.tickAt + c04Sec)
	}
	res.Note("expiry-window probe (hand-made interleaving: TTL 2s extended to 100s between the wheel's test and removeEntry's re-check): notifications=%d, resident=%d, in wheel level=%d, 200 s after the new deadline — %s",
		len(h.notes), h.s.Len(), h.locate(e), map[bool]string{true: "reclaimed", false: "NEVER reclaimed (entry flagged removed, its UPDATE event ignored)"}[len(h.notes) > 0])
}
