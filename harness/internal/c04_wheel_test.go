//go:build verif && vplain

package internal

import (
	"fmt"
	"os"
	"sort"
	"strings"
	"testing"
	"time"

	"github.com/Yiling-J/theine-go/internal/vrt/vh"
)

// C04 — expired entries are reclaimed within about one tick of their deadline.
//
// Engine E2-BFS on the REAL TimerWheel (un-instrumented build). Time is virtual: the wheel time is
// whatever advance(now, …) is given; a fresh wheel's nanos field is set to the chosen start time t0
// (white-box write; on an empty wheel this is exactly what advance(t0) does).
//
// Oracle (per entry incarnation = one schedule/reschedule, deadline d; a_1<a_2<… the advances after it):
//   early-expiry    reported by an advance whose time is < d
//   late-expiry     still in the wheel after the FIRST advance whose time is >= d + 2^30 ns
//                   (one tick of the finest wheel; with the 1 s ticker that advance is < d + 2^30 + 1 s,
//                   the "roughly two seconds" of the statement)
//   double-report   reported twice for one incarnation
//   spurious-report reported although removed / never scheduled
//   wrong-reason    reason other than EXPIRED
//   wheel-malformed a bucket ring is inconsistent, an entry is in no / two lists, sits in a slot that does
//                   not match its deadline, or on a finer level than its remaining duration allows, or an
//                   unscheduled entry keeps wheel pointers
// Rescheduling replaces d; nothing about the earlier deadline enters any clause.

const (
	c04Tick   = int64(1) << 30 // one tick of the finest wheel: the upper bound of the property
	c04Sec    = int64(time.Second)
	c04MaxEnt = 3
)

var c04Shift = [5]uint{30, 36, 42, 47, 49}
var c04Buckets = [5]int64{64, 64, 32, 4, 1}
var c04Span = [6]int64{1 << 30, 1 << 36, 1 << 42, 1 << 47, 1 << 49, 1 << 49}

// c04Level: the level the property's mechanism assigns to a remaining duration.
func c04Level(duration int64) int {
	for i := 0; i < 5; i++ {
		if duration < c04Span[i+1] {
			return i
		}
	}
	return 4
}

func c04Slot(d int64, lvl int) int { return int((d >> c04Shift[lvl]) & (c04Buckets[lvl] - 1)) }

func c04Dur(ns int64) string {
	neg := ""
	if ns < 0 {
		neg, ns = "-", -ns
	}
	switch {
	case ns < 1000:
		return fmt.Sprintf("%s%dns", neg, ns)
	case ns < 120*c04Sec:
		return fmt.Sprintf("%s%.3fs", neg, float64(ns)/1e9)
	case ns < 48*3600*c04Sec:
		return fmt.Sprintf("%s%.3fh", neg, float64(ns)/3.6e12)
	}
	return fmt.Sprintf("%s%.3fd", neg, float64(ns)/8.64e13)
}

type c04Op struct {
	K string `json:"k"`           // S schedule/reschedule, R remove, A advance by V, T advance to V
	E int    `json:"e,omitempty"` // entry
	V int64  `json:"v,omitempty"` // S: absolute deadline; A: delta; T: absolute time
	N string `json:"n,omitempty"` // readable label
}

func (o c04Op) String() string {
	switch o.K {
	case "S":
		return fmt.Sprintf("schedule(e%d, deadline=%d [%s])", o.E, o.V, o.N)
	case "R":
		return fmt.Sprintf("remove(e%d)", o.E)
	case "A":
		return fmt.Sprintf("advance(+%s [%s])", c04Dur(o.V), o.N)
	}
	return fmt.Sprintf("advanceTo(%d [%s])", o.V, o.N)
}

func c04Ops(ops []c04Op) string {
	var s []string
	for _, o := range ops {
		s = append(s, o.String())
	}
	return strings.Join(s, "; ")
}

type c04Ent struct {
	e        *Entry[int, int]
	sched    bool
	removed  bool
	d        int64
	bound    int64 // max(d, wheel time at schedule) + one finest tick: the first advance at or after it must have reported the entry
	schedNow int64
	schedLvl int
	reports  int
	late     bool
	missed   int // advances with time >= d that did not report it
	repAt    int64
	used     bool
	// position as found by the last well-formedness scan
	lvl, slot, pos int
}

type c04V struct {
	clause, sig, detail string
	ent                 int
	cost                int // schedule/remove operations + advances executed when it was found
}

type c04W struct {
	tw    *TimerWheel[int, int]
	t0    int64
	now   int64
	ne    int
	ents  [c04MaxEnt]c04Ent
	rep   []int
	why   []RemoveReason
	viol  []c04V
	nadv  int
	nops  int
	obs   []string
	mute  bool
	wfOff bool
	dead  bool   // the wheel is structurally broken or panicked: no further calls into it (they may not return)
	herr  string // harness inconsistency (reported as an infrastructure error, never as a verdict)
}

func c04New(t0 int64, ne int) *c04W {
	w := &c04W{tw: NewTimerWheel[int, int](16), t0: t0, now: t0, ne: ne}
	w.tw.nanos = t0
	for i := 0; i < ne; i++ {
		w.ents[i].e = &Entry[int, int]{key: i, value: i}
	}
	return w
}

func (w *c04W) violate(clause, sig string, ent int, format string, a ...any) {
	if w.mute {
		return
	}
	w.viol = append(w.viol, c04V{clause, sig, fmt.Sprintf(format, a...), ent, w.nops + w.nadv})
	if clause == "wheel-malformed" || clause == "panic" {
		w.dead = true
	}
}

func (w *c04W) cb(e *Entry[int, int], reason RemoveReason) {
	w.rep = append(w.rep, e.key)
	w.why = append(w.why, reason)
}

func (w *c04W) endInc(en *c04Ent, how string) {
	if en.used {
		w.obs = append(w.obs, fmt.Sprintf("L%d:%s", en.schedLvl, how))
	}
}

func (w *c04W) describe(id int) string {
	en := &w.ents[id]
	return fmt.Sprintf("e%d deadline=%d (= schedule-time wheel time %d + %s, level %d by duration, slot %d there)",
		id, en.d, en.schedNow, c04Dur(en.d-en.schedNow), en.schedLvl, c04Slot(en.d, en.schedLvl))
}

func (w *c04W) advance(now int64) {
	if w.dead {
		return
	}
	c04Progress++
	w.rep, w.why = w.rep[:0], w.why[:0]
	w.tw.advance(now, w.cb)
	w.now = now
	w.nadv++
	if w.tw.nanos != now {
		w.violate("wheel-malformed", "wheel-time", -1, "after advance(%d) the wheel time is %d", now, w.tw.nanos)
	}
	for i, id := range w.rep {
		if id < 0 || id >= w.ne {
			w.violate("spurious-report", "unknown-entry", -1, "advance(%d) reported an entry with key %d", now, id)
			continue
		}
		en := &w.ents[id]
		if w.why[i] != EXPIRED {
			w.violate("wrong-reason", fmt.Sprintf("reason=%d", w.why[i]), id, "advance(%d) reported %s with reason %d, want EXPIRED", now, w.describe(id), w.why[i])
		}
		switch {
		case !en.sched && en.reports > 0 && !en.removed:
			en.reports++
			w.violate("double-report", fmt.Sprintf("sched-level=%d", en.schedLvl), id, "advance(%d) reported %s again (report #%d of this incarnation)", now, w.describe(id), en.reports)
		case !en.sched:
			w.violate("spurious-report", "not-scheduled", id, "advance(%d) reported e%d which is not scheduled (removed=%v)", now, id, en.removed)
		default:
			if en.d > now {
				w.violate("early-expiry", fmt.Sprintf("sched-level=%d", en.schedLvl), id, "advance(%d) reported %s, %s BEFORE its deadline", now, w.describe(id), c04Dur(en.d-now))
			}
			en.sched = false
			en.reports++
			en.repAt = now
			w.endInc(en, fmt.Sprintf("k%d", c04Min(en.missed, 3)))
		}
	}
	for id := 0; id < w.ne; id++ {
		en := &w.ents[id]
		if !en.sched || now < en.d {
			continue
		}
		en.missed++
		if now >= en.bound && !en.late {
			en.late = true
			lvl, slot, _ := w.locate(id)
			sig := fmt.Sprintf("level=%d", lvl)
			if lvl > en.schedLvl { // parked coarser than its last (re)schedule allows: it was not re-positioned
				sig += fmt.Sprintf(" coarser-than-scheduled(sched-level=%d)", en.schedLvl)
			}
			if en.d <= en.schedNow {
				sig += " sched=past"
				if en.d>>c04Shift[0] == en.schedNow>>c04Shift[0] {
					sig += "-same-tick"
				}
			}
			w.violate("late-expiry", sig, id, "advance #%d to %d = deadline + %s (>= max(deadline, schedule time) + one finest tick 2^30 ns) did not report %s; it still sits on level %d slot %d (that slot's span ends at %d = deadline + %s)",
				w.nadv, now, c04Dur(now-en.d), w.describe(id), lvl, slot, c04SlotEnd(en.d, lvl), c04Dur(c04SlotEnd(en.d, lvl)-en.d))
		}
	}
}

func c04Min(a, b int) int {
	if a < b {
		return a
	}
	return b
}

func c04SlotEnd(d int64, lvl int) int64 {
	if lvl < 0 || lvl > 4 {
		return 0
	}
	return ((d >> c04Shift[lvl]) + 1) << c04Shift[lvl]
}

// locate scans the real wheel for entry id.
func (w *c04W) locate(id int) (lvl, slot, pos int) {
	e := w.ents[id].e
	for l := range w.tw.wheel {
		for s, list := range w.tw.wheel[l] {
			p := 0
			for x := list.root.meta.wheelNext; x != nil && x != &list.root && p <= c04MaxEnt; x = x.meta.wheelNext {
				if x == e {
					return l, s, p
				}
				p++
			}
		}
	}
	return -1, -1, -1
}

// wf checks the structure of the whole wheel against the model and records the positions.
func (w *c04W) wf() {
	if w.wfOff {
		return
	}
	var seen [c04MaxEnt]int
	for id := 0; id < w.ne; id++ {
		w.ents[id].lvl, w.ents[id].slot, w.ents[id].pos = -1, -1, -1
	}
	if len(w.tw.wheel) != 5 {
		w.violate("wheel-malformed", "geometry", -1, "wheel has %d levels", len(w.tw.wheel))
		return
	}
	for l := range w.tw.wheel {
		if int64(len(w.tw.wheel[l])) != c04Buckets[l] || w.tw.shift[l] != c04Shift[l] {
			w.violate("wheel-malformed", "geometry", -1, "level %d has %d buckets / shift %d; the property's mechanism (and this oracle's finest tick of 2^30 ns) assume %d / %d", l, len(w.tw.wheel[l]), w.tw.shift[l], c04Buckets[l], c04Shift[l])
			return
		}
		for s, list := range w.tw.wheel[l] {
			root := &list.root
			prev := root
			p := 0
			x := root.meta.wheelNext
			for ; x != root; x = x.meta.wheelNext {
				if x == nil || p > c04MaxEnt {
					w.violate("wheel-malformed", "ring", -1, "level %d slot %d: ring broken after %d nodes", l, s, p)
					return
				}
				if x.meta.wheelPrev != prev {
					w.violate("wheel-malformed", "ring", -1, "level %d slot %d: node %d has a wrong back pointer", l, s, p)
					return
				}
				id := x.key
				if id < 0 || id >= w.ne || w.ents[id].e != x {
					w.violate("wheel-malformed", "foreign-node", -1, "level %d slot %d holds a node that is no harness entry", l, s)
					return
				}
				seen[id]++
				w.ents[id].lvl, w.ents[id].slot, w.ents[id].pos = l, s, p
				prev = x
				p++
			}
			if root.meta.wheelPrev != prev {
				w.violate("wheel-malformed", "ring", -1, "level %d slot %d: root back pointer wrong", l, s)
				return
			}
		}
	}
	for id := 0; id < w.ne; id++ {
		en := &w.ents[id]
		m := en.e.meta
		switch {
		case en.sched && seen[id] == 0:
			w.violate("wheel-malformed", "lost", id, "%s is scheduled but in no bucket (it can never be reported)", w.describe(id))
		case seen[id] > 1:
			w.violate("wheel-malformed", "duplicate", id, "e%d is linked into %d buckets", id, seen[id])
		case !en.sched && seen[id] > 0:
			w.violate("wheel-malformed", "zombie", id, "e%d was reported/removed but is still linked on level %d slot %d", id, en.lvl, en.slot)
		case !en.sched && (m.wheelPrev != nil || m.wheelNext != nil):
			w.violate("wheel-malformed", "dangling", id, "e%d is not scheduled but keeps wheel pointers", id)
		case en.sched:
			if m.wheelPrev == nil || m.wheelNext == nil {
				w.violate("wheel-malformed", "dangling", id, "e%d is scheduled but has a nil wheel pointer", id)
			}
			// an entry that was already due when it reached the wheel may also wait in the slot of the tick it
			// was scheduled in (the next tick change visits that slot)
			dueSlot := en.d <= en.schedNow && en.lvl == 0 && en.slot == c04Slot(en.schedNow, 0)
			if en.slot != c04Slot(en.d, en.lvl) && !dueSlot {
				w.violate("wheel-malformed", fmt.Sprintf("slot-mismatch level=%d", en.lvl), id, "%s sits on level %d slot %d, its deadline maps to slot %d there", w.describe(id), en.lvl, en.slot, c04Slot(en.d, en.lvl))
			}
			if want := c04Level(en.d - w.now); en.lvl < want {
				w.violate("wheel-malformed", fmt.Sprintf("level-too-fine level=%d", en.lvl), id, "%s sits on level %d but %s remain (level %d)", w.describe(id), en.lvl, c04Dur(en.d-w.now), want)
			}
			if en.lvl > en.schedLvl {
				w.violate("wheel-malformed", fmt.Sprintf("level-too-coarse level=%d", en.lvl), id, "%s sits on level %d, coarser than at schedule time", w.describe(id), en.lvl)
			}
		}
	}
}

func (w *c04W) apply(op c04Op) {
	if w.dead {
		return
	}
	if op.K == "S" || op.K == "R" {
		w.nops++
	}
	switch op.K {
	case "S":
		en := &w.ents[op.E]
		if en.sched {
			w.endInc(en, "rs")
		}
		en.e.expire.Store(op.V)
		w.tw.schedule(en.e)
		*en = c04Ent{e: en.e, sched: true, used: true, d: op.V, schedNow: w.now, schedLvl: c04Level(op.V - w.now), bound: op.V + c04Tick}
		if op.V < w.now { // a deadline already in the past when it reaches the wheel: one tick from now
			en.bound = w.now + c04Tick
		}
	case "R":
		en := &w.ents[op.E]
		w.tw.deschedule(en.e)
		en.sched, en.removed = false, true
		w.endInc(en, "rm")
	case "A":
		w.advance(w.now + op.V)
	case "T":
		w.advance(op.V)
	}
	w.wf()
}

// run replays ops on a fresh real wheel; a panic of the code under test is a violation.
func c04Run(t0 int64, ne int, ops []c04Op, then func(w *c04W)) (w *c04W) {
	w = c04New(t0, ne)
	c04Progress++
	c04Current = func() (string, c04Replay) {
		return fmt.Sprintf("t0=%d: %s (+ follow-up, if any)", t0, c04Ops(ops)), c04Replay{Mode: "ops", T0: t0, Ents: ne, Ops: ops}
	}
	defer func() {
		if r := recover(); r != nil {
			w.mute = false
			w.violate("panic", "wheel", -1, "panic in the wheel: %v", r)
		}
	}()
	for _, op := range ops {
		w.apply(op)
	}
	if then != nil {
		then(w)
	}
	return w
}

type c04Key struct {
	now int64
	e   [c04MaxEnt]struct {
		d              int64
		lvl, slot, pos int8
		sched          bool
	}
}

func (w *c04W) key() c04Key {
	k := c04Key{now: w.now}
	for i := 0; i < w.ne; i++ {
		en := &w.ents[i]
		if en.sched {
			k.e[i].d, k.e[i].lvl, k.e[i].slot, k.e[i].pos, k.e[i].sched = en.d, int8(en.lvl), int8(en.slot), int8(en.pos), true
		}
	}
	return k
}

// pending: entries that are scheduled and not yet convicted of lateness; min and max of their bounds.
func (w *c04W) pending() (n int, minb, maxb int64) {
	for i := 0; i < w.ne; i++ {
		if en := &w.ents[i]; en.sched && !en.late {
			if n == 0 || en.bound < minb {
				minb = en.bound
			}
			if n == 0 || en.bound > maxb {
				maxb = en.bound
			}
			n++
		}
	}
	return
}

// ---- enumeration: start times, deadlines, advance deltas ----

type c04DL struct {
	d int64
	n string
}

func c04T0s(set string) []int64 {
	half := c04Sec / 2
	all := []int64{0, 12345678901, 5<<30 - half, 3<<36 - half, 3<<42 - half, 3<<47 - half, 1<<49 - half, 1<<49 - 1}
	switch set {
	case "pair":
		return []int64{0, 1<<49 - half}
	case "small":
		return []int64{0, 3<<36 - half, 1<<49 - half}
	case "mid":
		return []int64{0, 12345678901, 3<<36 - half, 3<<42 - half, 1<<49 - half}
	}
	return all
}

// c04Deadlines lists boundary deadlines relative to wheel time now: for every level the ticks 1, 2,
// buckets-1, buckets ahead and the first ticks that map to slots 0, 1 and buckets-1, each with the times
// slotStart-1, slotStart, slotStart+1, slotEnd-1; the level-selection edges now+span-1, now+span; a few
// plain TTLs. reduced picks about four per level.
func c04Deadlines(now int64, reduced bool, past bool) []c04DL {
	seen := map[int64]bool{}
	var out []c04DL
	add := func(d int64, why string) {
		if d <= now || seen[d] || d < 0 {
			return
		}
		seen[d] = true
		lvl := c04Level(d - now)
		out = append(out, c04DL{d, fmt.Sprintf("now+%s L%d s%d %s", c04Dur(d-now), lvl, c04Slot(d, lvl), why)})
	}
	for l := 0; l < 5; l++ {
		tick := int64(1) << c04Shift[l]
		cur := now >> c04Shift[l]
		b := c04Buckets[l]
		js := []int64{1, 2, b - 1, b}
		if l == 4 {
			js = []int64{1, 2}
		}
		wrap := int64(1) // the first tick ahead that maps to slot 0 (wrap-around of this wheel)
		for _, want := range []int64{0, 1, b - 1} {
			for j := int64(1); j <= b; j++ {
				if (cur+j)&(b-1) == want {
					js = append(js, j)
					if want == 0 {
						wrap = j
					}
					break
				}
			}
		}
		if reduced {
			js = []int64{wrap}
			if l < 4 && wrap != b-1 {
				js = append(js, b-1)
			}
		}
		for _, j := range js {
			if j < 1 {
				continue
			}
			start := (cur + j) << c04Shift[l]
			if reduced {
				add(start, fmt.Sprintf("tick+%d@L%d start", j, l))
				add(start+tick-1, fmt.Sprintf("tick+%d@L%d end-1", j, l))
				continue
			}
			add(start-1, fmt.Sprintf("tick+%d@L%d start-1", j, l))
			add(start, fmt.Sprintf("tick+%d@L%d start", j, l))
			add(start+1, fmt.Sprintf("tick+%d@L%d start+1", j, l))
			add(start+tick-1, fmt.Sprintf("tick+%d@L%d end-1", j, l))
		}
	}
	for i := 1; i <= 4; i++ {
		if !reduced {
			add(now+c04Span[i]-1, fmt.Sprintf("span%d-1", i))
		}
		add(now+c04Span[i], fmt.Sprintf("span%d", i))
	}
	ttls := []int64{c04Sec, 100 * c04Sec}
	if !reduced {
		ttls = []int64{1, c04Sec, 5 * c04Sec, 100 * c04Sec, 3600 * c04Sec, 86400 * c04Sec, 7 * 86400 * c04Sec, 30 * 86400 * c04Sec}
	}
	for _, t := range ttls {
		add(now+t, "ttl")
	}
	if past {
		for _, d := range []int64{now, now - 1, now - c04Tick, now - 2*c04Tick - 1, now - 70*c04Sec} {
			if d > 0 && !seen[d] {
				seen[d] = true
				out = append(out, c04DL{d, fmt.Sprintf("now%s PAST", c04Dur(d-now))})
			}
		}
	}
	return out
}

type c04Delta struct {
	v int64
	n string
}

func c04Deltas(reduced bool) []c04Delta {
	t := func(l int) int64 { return int64(1) << c04Shift[l] }
	all := []c04Delta{
		{c04Sec, "1s"}, {t(0), "1 tick L0"},
		{63 * t(0), "63 ticks L0"}, {64 * t(0), "64 ticks L0 = rotation L0"}, {65 * t(0), "65 ticks L0"},
		{63 * t(1), "63 ticks L1"}, {64 * t(1), "rotation L1"}, {65 * t(1), "65 ticks L1"},
		{31 * t(2), "31 ticks L2"}, {32 * t(2), "rotation L2"}, {33 * t(2), "33 ticks L2"},
		{3 * t(3), "3 ticks L3"}, {4 * t(3), "rotation L3"}, {5 * t(3), "5 ticks L3"},
		{64*t(1) - t(0), "rotation L1 - 1 finest tick"}, {64*t(1) + t(0), "rotation L1 + 1 finest tick"},
		{32*t(2) - t(0), "rotation L2 - 1 finest tick"}, {32*t(2) + t(0), "rotation L2 + 1 finest tick"},
		{4*t(3) - t(0), "rotation L3 - 1 finest tick"}, {4*t(3) + t(0), "rotation L3 + 1 finest tick"},
		{10 * 86400 * c04Sec, "10 days"},
	}
	if !reduced {
		return all
	}
	return []c04Delta{all[0], all[2], all[4], all[5], all[7], all[9], all[12], all[15], all[20]}
}

type c04Cfg struct {
	ne            int
	depth         int
	redDL, redAdv bool
	past          bool
	t0set         string
}

// alphabet: the operations enabled in the state reached by w (deterministic in the state).
func c04Alphabet(w *c04W, c c04Cfg) []c04Op {
	var ops []c04Op
	used := 0
	for i := 0; i < c.ne; i++ {
		if w.ents[i].used {
			used = i + 1
		}
	}
	dls := c04Deadlines(w.now, c.redDL, c.past)
	for e := 0; e < c.ne && e <= used; e++ { // entries are interchangeable: e(i+1) is first used after e(i)
		for _, dl := range dls {
			if w.ents[e].sched && w.ents[e].d == dl.d {
				continue
			}
			ops = append(ops, c04Op{K: "S", E: e, V: dl.d, N: dl.n})
		}
	}
	for e := 0; e < c.ne; e++ {
		en := &w.ents[e]
		if !en.sched {
			continue
		}
		ops = append(ops, c04Op{K: "R", E: e})
		lvl := en.lvl
		if lvl < 0 {
			lvl = 0
		}
		for _, tg := range []c04DL{{en.d - 1, "deadline-1ns"}, {en.d, "deadline"}, {en.d + c04Tick - 1, "deadline+tick-1ns"}, {en.d + c04Tick, "deadline+tick"},
			{c04SlotEnd(en.d, lvl) - 1, "its slot end-1ns"}, {c04SlotEnd(en.d, lvl), "its slot end"}} {
			if tg.d > w.now {
				ops = append(ops, c04Op{K: "T", E: e, V: tg.d, N: fmt.Sprintf("e%d %s", e, tg.n)})
			}
		}
	}
	for _, d := range c04Deltas(c.redAdv) {
		ops = append(ops, c04Op{K: "A", V: d.v, N: d.n})
	}
	return ops
}

// follow-ups: advance patterns that run a state to the point where everything pending must be gone.
var c04Follows = []string{"1s-cadence", "jump-to-bound", "jump-far"}

func c04Follow(w *c04W, kind string) {
	n, _, maxb := w.pending()
	if n == 0 || w.dead {
		return
	}
	switch kind {
	case "jump-to-bound":
		w.advance(maxb)
	case "jump-far":
		w.advance(maxb + c04Span[4] + 12345)
	case "1s-cadence":
		if maxb-w.now <= 300*c04Sec {
			for n > 0 && !w.dead {
				w.advance(w.now + c04Sec)
				n, _, _ = w.pending()
			}
		} else {
			for {
				n, minb, _ := w.pending()
				if n == 0 || w.dead {
					break
				}
				if w.now < minb-c04Tick-2*c04Sec {
					w.advance(minb - c04Tick - 2*c04Sec)
				}
				for w.now < minb && !w.dead {
					w.advance(w.now + c04Sec)
				}
			}
		}
	}
	w.wf()
	if n, _, _ := w.pending(); n > 0 && !w.dead {
		w.herr = fmt.Sprintf("follow-up %s ended at %d with %d entries pending and not flagged", kind, w.now, n)
	}
}

type c04Replay struct {
	Mode   string  `json:"mode"`
	T0     int64   `json:"t0"`
	Ents   int     `json:"ents,omitempty"`
	Ops    []c04Op `json:"ops,omitempty"`
	Follow string  `json:"follow,omitempty"`
	D      int64   `json:"d,omitempty"`
	Pat    string  `json:"pattern,omitempty"`
	Case   string  `json:"case,omitempty"`
}

type c04Sink struct {
	res  *vh.Result
	best map[string]int
}

// lateness probe: keep advancing (1 s steps close to the slot end, oracle muted) until the entry is reported.
func c04Probe(w *c04W, id int) (out string) {
	en := &w.ents[id]
	if w.dead {
		return ""
	}
	defer func() {
		if r := recover(); r != nil {
			out = fmt.Sprintf("; continuing, the wheel panicked: %v", r)
		}
	}()
	if !en.sched {
		if en.reports > 0 {
			return fmt.Sprintf("; it was finally reported by the advance at %d = deadline + %s", en.repAt, c04Dur(en.repAt-en.d))
		}
		return ""
	}
	w.mute, w.wfOff = true, true
	defer func() { w.mute, w.wfOff = false, false }()
	for step := 0; step < 200000 && en.sched && !w.dead; step++ {
		next := w.now + c04Sec
		if lvl, _, _ := w.locate(id); lvl >= 0 {
			if se := c04SlotEnd(en.d, lvl); se-3*c04Sec > next {
				next = se - 3*c04Sec
			}
		}
		w.advance(next)
	}
	if en.sched {
		return "; continuing with 1 s advances it was still not reported 200000 advances later"
	}
	return fmt.Sprintf("; continuing (jump to 3 s before its slot end, then 1 s advances) it was finally reported by the advance at %d = deadline + %s", en.repAt, c04Dur(en.repAt-en.d))
}

func (s *c04Sink) take(w *c04W, _ int, head string, rp c04Replay) {
	if w.herr != "" && s.res.Error == "" {
		s.res.Error = w.herr + " [" + head + "]"
	}
	for _, v := range w.viol {
		cost := v.cost
		k := v.clause + "|" + v.sig
		detail := ""
		if b, ok := s.best[k]; !ok || cost < b {
			s.best[k] = cost
			extra := ""
			if v.clause == "late-expiry" && v.ent >= 0 {
				extra = c04Probe(w, v.ent)
			}
			detail = head + " => " + v.detail + extra
		}
		s.res.Violate(v.clause, v.sig, detail, cost, rp)
	}
}

// progress counter and current case for the hang watchdog (a wheel operation that never returns, e.g. on a
// cross-linked bucket ring, cannot be interrupted: the watchdog records it, writes the result and exits).
var c04Progress int64
var c04Current func() (string, c04Replay)

func c04Watchdog(res *vh.Result) {
	go func() {
		last, idle := int64(-1), 0
		for {
			time.Sleep(5 * time.Second)
			if p := c04Progress; p != last {
				last, idle = p, 0
				continue
			}
			idle++
			if idle < 6 {
				continue
			}
			head, rp := "unknown case", c04Replay{}
			if c04Current != nil {
				head, rp = c04Current()
			}
			res.Violate("non-termination", "wheel-call-does-not-return", head+" => a call into the wheel made no progress for 30 s (normal: microseconds)", 1, rp)
			res.Cap("aborted after a non-terminating call")
			res.Write()
			os.Exit(1)
		}
	}()
}

func TestVerif_C04(t *testing.T) {
	env := vh.Env()
	mode := env.Params["mode"]
	res := vh.NewResult("C04/"+mode, "E2-BFS", env)
	defer res.Write()
	c04Watchdog(res)
	res.MaxSamples = 3
	sink := &c04Sink{res: res, best: map[string]int{}}
	defer func() {
		if r := recover(); r != nil {
			res.Error = fmt.Sprintf("harness panic: %v", r)
		}
	}()
	if env.Replay != "" {
		var rp c04Replay
		if err := vh.LoadReplay(env.Replay, &rp); err != nil {
			res.Error = "replay: " + err.Error()
			return
		}
		c04DoReplay(res, sink, rp)
		return
	}
	switch mode {
	case "bfs":
		c04BFS(res, sink, env)
	case "sweep":
		c04Sweep(res, sink, env)
	case "store":
		c04Store(res, env)
	default:
		res.Error = "unknown mode " + mode
	}
}

func c04DoReplay(res *vh.Result, sink *c04Sink, rp c04Replay) {
	res.Executions = 1
	switch rp.Mode {
	case "ops":
		w := c04Run(rp.T0, rp.Ents, rp.Ops, func(w *c04W) {
			if rp.Follow != "" {
				c04Follow(w, rp.Follow)
			}
		})
		sink.take(w, len(rp.Ops), fmt.Sprintf("t0=%d: %s; follow-up=%q", rp.T0, c04Ops(rp.Ops), rp.Follow), rp)
		res.Note("replayed %d ops, follow-up %q: %d violations; outcome %v", len(rp.Ops), rp.Follow, len(w.viol), w.obs)
	case "sweep":
		w := c04SweepOne(rp.T0, rp.D, rp.Pat)
		sink.take(w, 2, fmt.Sprintf("t0=%d: schedule(e0, deadline=%d = t0+%s); advance pattern %s", rp.T0, rp.D, c04Dur(rp.D-rp.T0), rp.Pat), rp)
		res.Note("replayed sweep case: %d advances, %d violations", w.nadv, len(w.viol))
	case "store":
		c04StoreCase(res, rp.Case)
	default:
		res.Error = "replay: unknown mode " + rp.Mode
	}
}

// ---- mode bfs: explicit-state search over operation sequences ----

func c04BFS(res *vh.Result, sink *c04Sink, env vh.EnvT) {
	c := c04Cfg{ne: env.Int("ents", 2), depth: env.Int("depth", 3), redDL: env.Int("reddl", 1) == 1, redAdv: env.Int("redadv", 0) == 1,
		past: env.Int("past", 0) == 1, t0set: env.Params["t0"]}
	shardDepth := 2
	if c.depth < 3 {
		shardDepth = 1
	}
	res.Bounds["depth"] = c.depth
	res.Bounds["entries"] = c.ne
	res.Bounds["t0_values"] = len(c04T0s(c.t0set))
	res.Bounds["deadlines_per_state"] = len(c04Deadlines(0, c.redDL, c.past))
	res.Bounds["advance_deltas"] = len(c04Deltas(c.redAdv))
	res.Bounds["follow_ups_per_state"] = len(c04Follows)
	res.Bounds["past_deadlines"] = c.past
	counter := 0
	capped := false
	for _, t0 := range c04T0s(c.t0set) {
		visited := map[c04Key]struct{}{}
		frontier := [][]c04Op{nil}
		for depth := 1; depth <= c.depth && !capped; depth++ {
			count := env.Shard == 0 || depth > shardDepth
			var next [][]c04Op
			for _, ops := range frontier {
				if !env.Deadline.IsZero() && time.Now().After(env.Deadline) {
					res.Cap(fmt.Sprintf("deadline at depth %d (t0=%d)", depth, t0))
					capped = true
					break
				}
				base := c04Run(t0, c.ne, ops, nil)
				for _, op := range c04Alphabet(base, c) {
					ops2 := append(append(make([]c04Op, 0, len(ops)+1), ops...), op)
					w := c04Run(t0, c.ne, ops2, nil)
					if count {
						res.Transitions++
						res.Executions++
					}
					head := fmt.Sprintf("t0=%d: %s", t0, c04Ops(ops2))
					obs0, nadv0 := strings.Join(w.obs, " "), w.nadv
					if len(w.viol) > 0 {
						sink.take(w, len(ops2), head, c04Replay{Mode: "ops", T0: t0, Ents: c.ne, Ops: ops2})
					}
					k := w.key()
					if _, ok := visited[k]; ok {
						continue
					}
					visited[k] = struct{}{}
					if count {
						res.States++
						if depth > res.MaxDepth {
							res.MaxDepth = depth
						}
					}
					if n, _, _ := w.pending(); n > 0 {
						for _, f := range c04Follows {
							wf := c04Run(t0, c.ne, ops2, func(w *c04W) { c04Follow(w, f) })
							if count {
								res.Executions++
								res.Transitions += int64(wf.nadv - nadv0)
							}
							obs := strings.Join(wf.obs, " ") // before the lateness probe of take() extends the run
							if len(wf.viol) > 0 || wf.herr != "" {
								sink.take(wf, len(ops2)+1, head+"; then follow-up "+f, c04Replay{Mode: "ops", T0: t0, Ents: c.ne, Ops: ops2, Follow: f})
							}
							res.Outcome(obs)
							if count && len(wf.viol) == 0 {
								res.Sample(map[string]any{"t0": t0, "ops": c04Ops(ops2), "follow_up": f, "advances": wf.nadv, "incarnations": obs})
							}
						}
					} else {
						res.Outcome(obs0)
					}
					if depth < c.depth {
						if depth == shardDepth {
							counter++
							if counter%env.NShards != env.Shard {
								continue
							}
						}
						next = append(next, ops2)
					}
				}
			}
			frontier = next
		}
		if capped {
			break
		}
	}
}

// ---- mode sweep: one entry, every boundary deadline x start time x advance pattern, run from schedule to bound ----

var c04Patterns = []string{"1s", "tick", "irregular", "70s", "rotL1+", "day", "to-deadline", "to-bound"}

func c04SweepOne(t0, d int64, pat string) *c04W {
	return c04Run(t0, 1, nil, func(w *c04W) {
		w.wfOff = true
		w.apply(c04Op{K: "S", E: 0, V: d})
		w.wfOff = false
		w.wf()
		irr := []int64{3 * c04Sec / 10, 17 * c04Sec / 10, c04Sec, 5 * c04Sec, 1000000, 64 * c04Sec, 1}
		i := 0
		for w.ents[0].sched && !w.ents[0].late && !w.dead {
			prev := w.now
			var next int64
			switch pat {
			case "1s":
				next = prev + c04Sec
			case "tick":
				next = prev + c04Tick
			case "irregular":
				next = prev + irr[i%len(irr)]
			case "70s":
				next = prev + 70*c04Sec
			case "rotL1+":
				next = prev + c04Span[2] + c04Tick
			case "day":
				next = prev + 86400*c04Sec
			case "to-deadline": // one jump to exactly the deadline, then 1 s
				next = prev + c04Sec
				if prev < d {
					next = d
				}
			case "to-bound": // one jump to 1 ns before the bound, then 1 ns more
				next = prev + 1
				if prev < d+c04Tick-1 {
					next = d + c04Tick - 1
				}
			}
			i++
			// full structural check whenever something can have moved (a report, or a level-1 tick change), cheap otherwise
			w.wfOff = true
			w.advance(next)
			w.wfOff = false
			if len(w.rep) > 0 || next>>c04Shift[1] != prev>>c04Shift[1] || w.nadv < 200 {
				w.wf()
			}
		}
		w.wf()
	})
}

func c04Sweep(res *vh.Result, sink *c04Sink, env vh.EnvT) {
	t0s := c04T0s(env.Params["t0"])
	pats := c04Patterns
	if p := env.Params["patterns"]; p != "" {
		pats = strings.Split(p, "+")
	}
	maxTTL := int64(env.Int("maxttl_s", 0)) * c04Sec // 0 = no limit; long TTLs x fine cadences are the expensive corner
	res.Bounds["t0_values"] = len(t0s)
	res.Bounds["patterns"] = pats
	res.Bounds["deadlines_per_t0"] = len(c04Deadlines(0, false, false))
	idx := 0
	for _, t0 := range t0s {
		for _, dl := range c04Deadlines(t0, false, false) {
			for _, pat := range pats {
				if maxTTL > 0 && dl.d-t0 > maxTTL && (pat == "1s" || pat == "tick" || pat == "irregular") {
					continue
				}
				idx++
				if idx%env.NShards != env.Shard {
					continue
				}
				if !env.Deadline.IsZero() && time.Now().After(env.Deadline) {
					res.Cap("deadline")
					return
				}
				w := c04SweepOne(t0, dl.d, pat)
				res.Executions++
				res.States++
				res.Transitions += int64(w.nadv)
				obs := strings.Join(w.obs, " ")
				if len(w.viol) > 0 {
					sink.take(w, 2, fmt.Sprintf("t0=%d: schedule(e0, deadline=%d [%s]); advance pattern %s", t0, dl.d, dl.n, pat),
						c04Replay{Mode: "sweep", T0: t0, D: dl.d, Pat: pat})
				}
				res.Outcome(fmt.Sprintf("%s %s", pat, obs))
				if len(w.viol) == 0 && idx%97 == 0 {
					res.Sample(map[string]any{"t0": t0, "deadline": dl.n, "pattern": pat, "advances": w.nadv, "reported_at_deadline_plus": c04Dur(w.ents[0].repAt - dl.d)})
				}
			}
		}
	}
	res.MaxDepth = 2
	sort.Strings(res.Notes)
}
