//go:build verif && vsched

package internal

import (
	"fmt"
	"strings"
	"testing"

	"github.com/Yiling-J/theine-go/internal/vrt"
	"github.com/Yiling-J/theine-go/internal/vrt/vh"
)

// C05 on hybrid caches (engine E1-ICB): what the removal listener is told while entries move between the tiers.
// A demoted entry is not reported (it lives on in the secondary tier), so the counting clause of the plain
// scenarios does not carry over; what does carry over, for every schedule of a Delete / Set racing the real demotion
// worker (entry pool off and on, scheduling points inside the secondary calls):
//   * every notification names a (key, value) pair that was really stored under that key,
//   * no pair is reported twice,
//   * REMOVED is reported only for a key some Delete was called on,
//   * a Delete of a key that is stored, not demoted yet and never re-set is reported (exactly once, REMOVED or,
//     if the policy got there first, EVICTED) - the pair does not vanish without any notification unless it reached
//     the secondary tier.

func c05HyCheck(res *vh.Result, cfg *icCfg) func(r *icRun, x *vrt.Sched, cost int) {
	return func(r *icRun, x *vrt.Sched, cost int) {
		rp := map[string]any{"driver": cfg.Name, "choices": x.Choices()}
		hy := r.hy
		viol := func(clause, sig, d string) {
			res.Violate(clause, sig, fmt.Sprintf("%s: %s\nhistory: %s\nlistener: %s\nsecondary calls: %s", cfg.Name, d, r.history(), fmtNotes(r.h.notes), hy.sec.logString(0)), cost, rp)
		}
		if len(r.stuck) > 0 || x.ErrKind == "deadlock" {
			viol("call-never-returns", strings.Join(r.stuck, ",")+firstLine(x.Err), fmt.Sprintf("calls parked forever: %v %s", r.stuck, x.Err))
			return
		}
		stored := map[[2]int]bool{}
		deleted := map[int]bool{}
		for _, c := range r.calls {
			switch c.Op.Kind {
			case "set":
				if c.Ret == 0 || c.OK {
					stored[[2]int{c.Op.K, c.V}] = true
				}
			case "lget":
				if c.Loaded {
					stored[[2]int{c.Op.K, c.V}] = true
				}
			case "hdel", "del":
				deleted[c.Op.K] = true
			}
		}
		seen := map[[2]int]int{}
		for _, n := range r.h.notes {
			kv := [2]int{n.K, n.V}
			seen[kv]++
			if !stored[kv] {
				viol("notification-invented-pair", fmt.Sprintf("reason=%d", n.R), fmt.Sprintf("the listener was told (%d, %d, reason %d); that value was never stored under that key", n.K, n.V, n.R))
			}
			if seen[kv] == 2 {
				viol("duplicate-notification", fmt.Sprintf("reason=%d", n.R), fmt.Sprintf("(%d, %d) was reported twice", n.K, n.V))
			}
			if n.R == REMOVED && !deleted[n.K] {
				viol("wrong-reason", "REMOVED-without-delete", fmt.Sprintf("(%d, %d) reported as REMOVED; no Delete of that key was ever called", n.K, n.V))
			}
		}
		// a stored pair that is gone from memory, is not (or no longer) the secondary tier's value and was never superseded
		// by a later Set: it must have been reported
		final := r.final
		for kv := range stored {
			k, v := kv[0], kv[1]
			if fv, ok := final[k]; ok && fv == v {
				continue
			}
			if e, ok := hy.sec.m[k]; ok && e.V == v {
				continue
			}
			// overwritten in place or in the secondary tier by a later value of the same key: not a departure of its own
			later := false
			for o := range stored {
				if o[0] == k && o[1] > v {
					later = true
				}
			}
			if later {
				continue
			}
			// written to the secondary tier at some point and deleted from it by a Delete: reported only if it was resident then
			wasDemoted := false
			for _, c := range hy.sec.log {
				if c.Op == "set" && c.K == k && c.V == v && !c.Fail {
					wasDemoted = true
				}
			}
			if wasDemoted {
				continue
			}
			if seen[kv] == 0 {
				viol("missing-notification", "hybrid:never-demoted-pair-vanished", fmt.Sprintf("(%d, %d) was stored, is in neither tier at the end, never reached the secondary tier, and was never reported", k, v))
			}
		}
		res.Outcome(fmt.Sprintf("%s|%s|mem %s|sec %s", cfg.Name, fmtNotes(r.h.notes), fmtMap(r.final), hy.sec.String()))
		if res.NOutcomes() <= 2 {
			res.Sample(map[string]any{"driver": cfg.Name, "history": r.history(), "listener": fmtNotes(r.h.notes)})
		}
	}
}

func c05HyDrivers() []*icCfg {
	const long = 3600 * sec
	T := func(k int) icOp { return icOp{Kind: "set", K: k, Cost: 1, TTL: long} }
	H := func(k int) icOp { return icOp{Kind: "hget", K: k} }
	D := func(k int) icOp { return icOp{Kind: "hdel", K: k} }
	W := icOp{Kind: "wait"}
	Z := icOp{Kind: "settle"}
	o := hOpts{MaxSize: 1, ChanSize: 4, BufSize: 2}
	op := hOpts{MaxSize: 1, ChanSize: 4, BufSize: 2, Pool: true}
	slow := &hyIcCfg{Workers: 1, Prob: 1, Slow: true}
	queued := []icOp{T(1), T(2), W}
	return []*icCfg{
		{Name: "HY1-delete-vs-worker", O: o, Hy: slow, Pre: queued, Scripts: [][]icOp{{D(1)}, {H(2)}}, Post: []icOp{W, Z, T(3), W, Z}},
		{Name: "HY1p-delete-vs-worker-pool", O: op, Fresh: true, Hy: slow, Pre: queued, Scripts: [][]icOp{{D(1)}, {H(2)}}, Post: []icOp{W, Z, T(3), W, Z, D(3), W, Z}},
		// the secondary store refuses the Delete (scripted): the call fails and both tiers stay as they were - or, if
		// the entry does leave memory, that is reported
		{Name: "HY3-failed-secondary-delete", O: hOpts{MaxSize: 2, ChanSize: 4, BufSize: 2}, Hy: &hyIcCfg{Workers: 1, Prob: 1, Faults: "D1"}, Pre: []icOp{T(1), T(2), W, Z}, Scripts: [][]icOp{{D(1)}, {H(2)}}, Post: []icOp{W, Z}},
		{Name: "HY2p-delete-set-vs-worker-pool", O: op, Fresh: true, Hy: slow, Pre: queued, Scripts: [][]icOp{{D(1), T(3)}}, Post: []icOp{W, Z, D(3), W, Z}},
	}
}

func TestVerif_C05_Hybrid(t *testing.T) {
	env := vh.Env()
	res := vh.NewResult("C05", "E1-ICB", env)
	defer res.Write()
	for _, cfg := range c05HyDrivers() {
		if d := env.Params["driver"]; d != "" && d != cfg.Name {
			continue
		}
		cfg.P, cfg.D = env.Int("P", 2), env.Int("D", 1)
		icExplore(res, env, cfg, c05HyCheck(res, cfg))
		if res.Error != "" {
			return
		}
	}
}
