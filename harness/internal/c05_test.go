//go:build verif && vsched

package internal

import (
	"fmt"
	"sort"
	"strings"
	"testing"

	"github.com/Yiling-J/theine-go/internal/vrt"
	"github.com/Yiling-J/theine-go/internal/vrt/vh"
)

// C05 — exactly one removal notification per departed entry, with the true reason.
//
// Engine E2-BFS (big steps) with a recording listener. At every drained state:
//   stored incarnations (calls that put a new entry object into the map) = resident ⊎ notified;
//   no (key,value) notified twice; nothing resident notified; every notification carries a value that
//   was really written for that key and is the incarnation's last value; reason REMOVED only for an
//   incarnation a Delete call removed, EXPIRED only at/after a deadline, EVICTED only for an incarnation
//   that was neither removed by Delete nor past its deadline.

type c05Inc struct {
	costs    [][2]int64 // (step, cost) written by the API, in order
	key      int
	entry    *Entry[int, int]
	created  *bsRec
	last     int    // last value written into the incarnation
	deleted  *bsRec // Delete call that removed it from the map (nil if none)
	deadline int64  // last deadline the API gave it (0 none)
	recycled bool   // its entry object has been reused for a later incarnation (entry pool)
}

func c05Step(r *bsRec) int {
	if r.MapDone > 0 {
		return r.MapDone
	}
	return r.End
}

func c05Cost(r *bsRec) int64 {
	if r.EffCost > 0 {
		return r.EffCost
	}
	if r.Op.Kind == "lget" {
		return r.LoadCost
	}
	if r.Op.Cost == 0 {
		return 1
	}
	return r.Op.Cost
}

func (in *c05Inc) costAt(step int) int64 {
	var c int64
	for _, sc := range in.costs {
		if int(sc[0]) <= step {
			c = sc[1]
		}
	}
	return c
}

// c05Incarnations reconstructs the incarnations from the call records (map phases are atomic big
// steps, so record order is linearization order).
func c05Incarnations(w *bsWorld) []*c05Inc {
	var incs []*c05Inc
	cur := map[*Entry[int, int]]*c05Inc{}
	for _, r := range w.recs {
		switch {
		case r.Created:
			in := &c05Inc{key: r.Op.K, entry: r.Entry, created: r, last: r.V, deadline: r.Deadline}
			in.costs = append(in.costs, [2]int64{int64(c05Step(r)), c05Cost(r)})
			incs = append(incs, in)
			if old := cur[r.Entry]; old != nil {
				old.recycled = true // entry pool: the object now carries another incarnation
			}
			cur[r.Entry] = in
		case (r.Op.Kind == "set" || r.Stored) && r.Entry != nil:
			if in := cur[r.Entry]; in != nil {
				in.last = r.V
				in.deadline = r.Deadline
				in.costs = append(in.costs, [2]int64{int64(c05Step(r)), c05Cost(r)})
			}
		case r.Removed:
			if in := cur[r.Entry]; in != nil && in.deleted == nil {
				in.deleted = r
			}
		}
	}
	return incs
}

func c05Drained(res *vh.Result) bsVisit {
	return func(w *bsWorld, hist []string) {
		rp := map[string]any{"cfg": w.cfg.Name, "hist": hist}
		viol := func(clause, sig, detail string) {
			res.Violate(clause, sig, fmt.Sprintf("history %v (then drained): %s; listener log: %s; resident: %s", hist, detail, fmtNotes(w.h.notes), fmtMap(w.h.resident())), len(hist), rp)
		}
		incs := c05Incarnations(w)
		resident := map[*Entry[int, int]]bool{}
		for _, sh := range w.h.s.shards {
			for _, e := range sh.hashmap {
				resident[e] = true
			}
		}
		byKV := map[[2]int]*c05Inc{}
		written := map[[2]int]bool{}
		for _, in := range incs {
			byKV[[2]int{in.key, in.last}] = in
		}
		for _, r := range w.recs {
			if r.Op.Kind == "set" || r.Created || r.Stored {
				written[[2]int{r.Op.K, r.V}] = true
			}
		}
		seen := map[[2]int]int{}
		isRes := func(in *c05Inc) bool { return !in.recycled && resident[in.entry] && in.entry.key == in.key }
		for i, n := range w.h.notes {
			kv := [2]int{n.K, n.V}
			seen[kv]++
			if seen[kv] == 2 {
				viol("duplicate-notification", fmt.Sprintf("reason=%d", n.R), fmt.Sprintf("(%d,%d) reported twice", n.K, n.V))
			}
			if !written[kv] {
				viol("notification-for-unwritten-value", fmt.Sprintf("reason=%d", n.R), fmt.Sprintf("(%d,%d) was never stored", n.K, n.V))
				continue
			}
			in := byKV[kv]
			if in == nil {
				viol("notification-stale-value", fmt.Sprintf("reason=%d", n.R), fmt.Sprintf("(%d,%d) is not the last value of its incarnation", n.K, n.V))
				continue
			}
			if isRes(in) {
				viol("notified-but-resident", fmt.Sprintf("reason=%d", n.R), fmt.Sprintf("(%d,%d) reported but its entry is still resident", n.K, n.V))
			}
			switch n.R {
			case REMOVED:
				if in.deleted == nil {
					viol("wrong-reason", "REMOVED-without-delete", fmt.Sprintf("(%d,%d) reported REMOVED but no Delete call removed it", n.K, n.V))
				}
			case EXPIRED:
				if in.deadline == 0 {
					viol("wrong-reason", "EXPIRED-without-deadline", fmt.Sprintf("(%d,%d) reported EXPIRED but has no deadline", n.K, n.V))
				} else if w.noteNow[i] < in.deadline {
					viol("wrong-reason", "EXPIRED-before-deadline", fmt.Sprintf("(%d,%d) reported EXPIRED at %d, before its deadline %d", n.K, n.V, w.noteNow[i], in.deadline))
				}
			case EVICTED:
				if in.deleted != nil && w.noteStep[i] > in.deleted.MapDone {
					viol("wrong-reason", "EVICTED-after-delete", fmt.Sprintf("(%d,%d) reported EVICTED although Delete had removed it", n.K, n.V))
				}
			}
		}
		nres := 0
		var missing []string
		for _, in := range incs {
			if isRes(in) {
				nres++
				continue
			}
			if seen[[2]int{in.key, in.last}] == 0 {
				how := "policy"
				if in.deleted != nil {
					how = "delete"
				}
				missing = append(missing, fmt.Sprintf("%s(flags=%06b)", how, uint8(in.entry.flag.Flags)&0x3f))
				viol("missing-notification", fmt.Sprintf("departed-by-%s", how),
					fmt.Sprintf("incarnation (%d,%d) is no longer resident and was never reported (map slot removed by %s, entry flags %07b)", in.key, in.last, how, in.entry.flag.Flags))
			}
		}
		if len(incs) != nres+len(w.h.notes) && len(missing) == 0 {
			viol("count-mismatch", "stored!=resident+notified", fmt.Sprintf("%d stored, %d resident, %d notifications", len(incs), nres, len(w.h.notes)))
		}
		var rs []string
		for _, n := range w.h.notes {
			rs = append(rs, fmt.Sprintf("%d", n.R))
		}
		sort.Strings(rs)
		res.Outcome(fmt.Sprintf("%s|%d|%d|%s|%v", w.cfg.Name, len(incs), nres, strings.Join(rs, ""), missing))
	}
}

func c05Cfgs() []*bsCfg {
	S := func(k int, c int64) bsOp { return bsOp{"set", k, c, 0} }
	T := func(k int, c int64, ttl int64) bsOp { return bsOp{"set", k, c, ttl} }
	D := func(k int) bsOp { return bsOp{"del", k, 0, 0} }
	return []*bsCfg{
		{Name: "m1", MaxSize: 1, ChanSize: 2, BufSize: 2, NClients: 2, OpsPer: 2, Depth: 12,
			Ops: []bsOp{S(1, 1), S(2, 1), D(1)}},
		{Name: "m1-ttl", MaxSize: 1, ChanSize: 2, BufSize: 2, NClients: 2, OpsPer: 2, Depth: 9, Ticks: 2, TickNs: 1100 * 1e6,
			Ops: []bsOp{T(1, 1, sec), S(1, 1), S(2, 1), D(1)}},
		{Name: "m2-3c", MaxSize: 2, ChanSize: 2, BufSize: 1, NClients: 3, OpsPer: 1, Depth: 10, Ticks: 1, TickNs: 1100 * 1e6,
			Ops: []bsOp{T(1, 1, sec), S(1, 2), S(2, 1), S(3, 1), D(1), D(2)}},
		{Name: "m1-pool", MaxSize: 1, ChanSize: 2, BufSize: 2, Pool: true, NClients: 2, OpsPer: 2, Depth: 12,
			Ops: []bsOp{S(1, 1), S(2, 1), D(1)}},
		{Name: "m1-pool-ttl", MaxSize: 1, ChanSize: 2, BufSize: 2, Pool: true, NClients: 2, OpsPer: 2, Depth: 9, Ticks: 2, TickNs: 1100 * 1e6,
			Ops: []bsOp{T(1, 1, sec), S(2, 1), D(1)}},
		// a pooled entry object that carried a TTL is reused by a Set without TTL on another key
		{Name: "m1-pool-reuse", MaxSize: 1, ChanSize: 2, BufSize: 2, Pool: true, NClients: 1, OpsPer: 3, Depth: 11, Ticks: 1, TickNs: 1100 * 1e6,
			Ops: []bsOp{T(1, 1, sec), S(2, 1), S(3, 1)}},
	}
}

func TestVerif_C05(t *testing.T) {
	env := vh.Env()
	res := vh.NewResult("C05", "E2-BFS", env)
	defer res.Write()
	for _, cfg := range c05Cfgs() {
		if d := env.Params["cfg"]; d != "" && d != cfg.Name {
			continue
		}
		if d := env.Int("depth", 0); d > 0 {
			cfg.Depth = d
		}
		if n := env.Int("clients", 0); n > 0 {
			cfg.NClients = n
		}
		if n := env.Int("ops", 0); n > 0 {
			cfg.OpsPer = n
		}
		b := &bsSearch{cfg: cfg, res: res, env: env, drained: c05Drained(res)}
		b.run()
		res.Bounds["cfg"] = cfg.Name
		res.Bounds["depth"] = cfg.Depth
		if res.Error != "" {
			return
		}
	}
}

// ---- E1-ICB: the same accounting under interleavings inside the critical sections ----
// Every key is set at most once per driver, so each successful Set is one incarnation.

func c05IcbCheck(res *vh.Result, cfg *icCfg) func(r *icRun, x *vrt.Sched, cost int) {
	return func(r *icRun, x *vrt.Sched, cost int) {
		rp := map[string]any{"driver": cfg.Name, "choices": x.Choices()}
		viol := func(clause, sig, d string) {
			res.Violate(clause, sig, cfg.Name+": "+d+"\nhistory: "+r.history()+"\nlistener: "+fmtNotes(r.h.notes)+"\nresident: "+fmtMap(r.final), cost, rp)
		}
		if len(r.stuck) > 0 || x.ErrKind == "deadlock" {
			viol("deadlock", strings.Join(r.stuck, ","), "clients never finished "+x.Err)
			return
		}
		// incarnations: the entry objects resident after the pre-history (their final value is whatever the
		// object holds now: nobody writes an entry after it left the map, entry pool off) plus every later
		// successful Set that did not update one of them in place
		type inc struct {
			k, v     int
			ttl      bool
			resident bool
		}
		var incs []*inc
		superseded := map[[2]int]bool{} // values an in-place update overwrote: must never be reported
		inPlace := map[int]bool{}       // values written in place into a pre-history entry
		vrt.Quiet(func() {
			for k, p := range r.pre {
				i := &inc{k: k, v: p.value, ttl: p.expire.Load() != 0}
				_, idx := r.h.s.index(k)
				i.resident = r.h.s.shards[idx].hashmap[k] == p
				incs = append(incs, i)
				inPlace[p.value] = true
			}
		})
		deleted := map[int]bool{}
		ttlOf := map[int]bool{}
		ttlNs := map[int]int64{} // value -> TTL of the Set that wrote it
		var elapsed int64        // upper bound of the virtual time that passes in this driver
		for _, c := range r.calls {
			if c.Op.Kind == "tick" || c.Op.Kind == "adv" {
				elapsed += c.Op.Arg
			}
			if c.Op.Kind == "del" {
				deleted[c.Op.K] = true
			}
			if c.Op.Kind != "set" || !c.OK {
				continue
			}
			ttlOf[c.V] = c.Op.TTL != 0
			ttlNs[c.V] = c.Op.TTL
			if p := r.pre[c.Op.K]; p != nil && c.Client == -1 {
				if p.value != c.V {
					superseded[[2]int{c.Op.K, c.V}] = true // the pre-history value was overwritten in place later
				}
				continue
			}
			if inPlace[c.V] {
				continue // this Set updated a pre-history entry in place
			}
			if p := r.pre[c.Op.K]; p != nil && !cfg.O.Pool {
				// a Set on a pre-history key that is not the object's final value: either it created a new
				// incarnation (the old one had left) or it was overwritten in place by a later update
				_ = p
			}
			i := &inc{k: c.Op.K, v: c.V, ttl: c.Op.TTL != 0}
			if v, ok := r.final[c.Op.K]; ok && v == c.V {
				i.resident = true
			}
			incs = append(incs, i)
		}
		stored := map[[2]int]*inc{}
		for _, i := range incs {
			stored[[2]int{i.k, i.v}] = i
		}
		seen := map[[2]int]int{}
		for _, n := range r.h.notes {
			kv := [2]int{n.K, n.V}
			seen[kv]++
			if seen[kv] == 2 {
				viol("duplicate-notification", fmt.Sprintf("reason=%d", n.R), fmt.Sprintf("(%d,%d) reported twice", n.K, n.V))
			}
			if superseded[kv] {
				viol("notification-stale-value", fmt.Sprintf("reason=%d", n.R), fmt.Sprintf("(%d,%d) reported, but that value had been overwritten in place before the entry left (the entry's last value is %d)", n.K, n.V, r.pre[n.K].value))
				continue
			}
			i := stored[kv]
			if i == nil {
				viol("notification-for-unwritten-value", fmt.Sprintf("reason=%d", n.R), fmt.Sprintf("(%d,%d) was never stored", n.K, n.V))
				continue
			}
			if i.resident {
				viol("notified-but-resident", fmt.Sprintf("reason=%d", n.R), fmt.Sprintf("(%d,%d) reported but still resident", n.K, n.V))
			}
			switch n.R {
			case REMOVED:
				if !deleted[n.K] {
					viol("wrong-reason", "REMOVED-without-delete", fmt.Sprintf("(%d,%d) reported REMOVED, no Delete was issued", n.K, n.V))
				}
			case EXPIRED:
				if !i.ttl && !ttlOf[n.V] {
					viol("wrong-reason", "EXPIRED-without-deadline", fmt.Sprintf("(%d,%d) reported EXPIRED but has no deadline", n.K, n.V))
				} else if ttlNs[n.V] > elapsed {
					viol("wrong-reason", "EXPIRED-before-deadline", fmt.Sprintf("(%d,%d) reported EXPIRED: the Set that wrote it gave it %d s to live, at most %d s pass in this run", n.K, n.V, ttlNs[n.V]/sec, elapsed/sec))
				}
			}
		}
		for _, i := range incs {
			if i.resident {
				continue
			}
			if seen[[2]int{i.k, i.v}] == 0 {
				how := "policy"
				if deleted[i.k] {
					how = "delete-or-policy"
				}
				viol("missing-notification", "departed-by-"+how, fmt.Sprintf("(%d,%d) is no longer resident and was never reported", i.k, i.v))
			}
		}
		var rs []string
		for _, n := range r.h.notes {
			rs = append(rs, fmt.Sprint(n.R))
		}
		sort.Strings(rs)
		res.Outcome(fmt.Sprintf("%s|%d|%s|%s", cfg.Name, len(incs), fmtMap(r.final), strings.Join(rs, "")))
		if res.NOutcomes() <= 2 {
			res.Sample(map[string]any{"driver": cfg.Name, "history": r.history(), "listener": fmtNotes(r.h.notes)})
		}
	}
}

func c05IcbDrivers() []*icCfg {
	S := func(k int) icOp { return icOp{Kind: "set", K: k, Cost: 1} }
	T := func(k int, ttl int64) icOp { return icOp{Kind: "set", K: k, Cost: 1, TTL: ttl} }
	D := func(k int) icOp { return icOp{Kind: "del", K: k} }
	tick := icOp{Kind: "tick", Arg: 2 * sec}
	m1 := hOpts{MaxSize: 1, ChanSize: 2, BufSize: 2}
	m1p := hOpts{MaxSize: 1, ChanSize: 2, BufSize: 2, Pool: true}
	return []*icCfg{
		{Name: "del-vs-evict", O: m1, Scripts: [][]icOp{{S(1), D(1)}, {S(2)}, {S(4)}}},
		{Name: "del-vs-expire", O: m1, Scripts: [][]icOp{{T(1, sec), D(1)}, {S(2)}, {tick}}},
		{Name: "update-vs-evict", O: m1, Pre: []icOp{S(1)}, Scripts: [][]icOp{{S(1)}, {S(2)}, {S(4)}}},
		{Name: "update-vs-expire", O: hOpts{MaxSize: 3, ChanSize: 2, BufSize: 2}, Pre: []icOp{T(1, sec)}, Scripts: [][]icOp{{S(1)}, {tick}, {S(2)}}},
		// a TTL extension racing the reclamation of the old deadline: the extended value must not be reported at all
		{Name: "extend-vs-expire", O: hOpts{MaxSize: 3, ChanSize: 2, BufSize: 2}, Pre: []icOp{T(1, sec), {Kind: "wait"}}, Scripts: [][]icOp{{T(1, 90*sec)}, {tick}}},
		{Name: "del-vs-evict-pool", O: m1p, Fresh: true, Scripts: [][]icOp{{S(1), D(1)}, {S(2)}, {S(4)}}},
	}
}

func TestVerif_C05Icb(t *testing.T) {
	env := vh.Env()
	res := vh.NewResult("C05/icb", "E1-ICB", env)
	defer res.Write()
	for _, cfg := range c05IcbDrivers() {
		if d := env.Params["driver"]; d != "" && d != cfg.Name {
			continue
		}
		cfg.P, cfg.D = env.Int("P", 2), env.Int("D", 1)
		cfg.EndWait = true
		icExplore(res, env, cfg, c05IcbCheck(res, cfg))
		if res.Error != "" {
			return
		}
	}
}
