//go:build verif && vplain

package internal

import (
	"fmt"
	"testing"

	"github.com/Yiling-J/theine-go/internal/bf"
	"github.com/Yiling-J/theine-go/internal/vrt/vh"
)

// C06, the doorkeeper's filter as a component (internal/bf): "Set returns false only for ... a doorkeeper first
// sight" rests on the filter having NO FALSE NEGATIVES between two resets and being EMPTY after a reset.
// Enumeration: capacity requests x hash families (structured 64-bit patterns: small integers, values with only
// high / only low halves set, all ones, golden-ratio multiples, one-bit values) - every hash of a family is inserted,
// then every one of them must be reported present by Exist and by a second Insert; after Reset none may be; every
// bit index must stay inside the vector (a panic is reported).

func TestVerif_C06Bloom(t *testing.T) {
	env := vh.Env()
	res := vh.NewResult("C06", "EX-ENUM", env)
	defer res.Write()
	families := map[string]func(i int) uint64{
		"small-ints":   func(i int) uint64 { return uint64(i) },
		"high-half":    func(i int) uint64 { return uint64(i) << 32 },
		"both-halves":  func(i int) uint64 { return uint64(i)<<32 | uint64(i) },
		"golden":       func(i int) uint64 { return uint64(i+1) * 0x9E3779B97F4A7C15 },
		"inverted":     func(i int) uint64 { return ^uint64(i) },
		"one-bit":      func(i int) uint64 { return uint64(1) << uint(i%64) },
		"high-ones":    func(i int) uint64 { return 0xFFFFFFFF00000000 | uint64(i) },
		"low-ones-hi+": func(i int) uint64 { return uint64(i)<<32 | 0xFFFFFFFF },
	}
	caps := []int{0, 1, 320, 321, 1000, 4096, 20000}
	n := 0
	for _, c := range caps {
		for name, f := range families {
			n++
			if n%env.NShards != env.Shard {
				continue
			}
			func() {
				rp := map[string]any{"capacity": c, "family": name}
				defer func() {
					if e := recover(); e != nil {
						res.Violate("panic", "bloom:"+name, fmt.Sprintf("capacity request %d, hash family %s: %v", c, name, e), c, rp)
					}
				}()
				d := bf.New(0.01)
				d.EnsureCapacity(c)
				count := d.Capacity
				if count > 5000 {
					count = 5000
				}
				fps := 0
				for i := 0; i < count; i++ {
					if d.Insert(f(i)) {
						fps++
					}
				}
				for i := 0; i < count; i++ {
					h := f(i)
					if !d.Exist(h) {
						res.Violate("set-false-without-reason", "bloom-false-negative:Exist", fmt.Sprintf("capacity %d (M=%d K=%d), family %s: hash %#x was inserted and Exist says it was not", d.Capacity, d.M, d.K, name, h), c, rp)
						break
					}
					if !d.Insert(h) {
						res.Violate("set-false-without-reason", "bloom-false-negative:Insert", fmt.Sprintf("capacity %d (M=%d K=%d), family %s: hash %#x was inserted and a second Insert reports a first sight", d.Capacity, d.M, d.K, name, h), c, rp)
						break
					}
				}
				d.Reset()
				for i := 0; i < count; i++ {
					if d.Exist(f(i)) {
						res.Violate("doorkeeper-reset-incomplete", "bloom", fmt.Sprintf("capacity %d, family %s: hash %#x is still present after Reset", d.Capacity, name, f(i)), c, rp)
						break
					}
				}
				res.Outcome(fmt.Sprint(c, name, d.M, d.K, fps*10/(count+1)))
				res.Executions++
				res.Completed++
			}()
		}
	}
	res.Bounds["capacities"], res.Bounds["families"] = len(caps), len(families)
}
