//go:build verif && vplain

package internal

import (
	"fmt"
	"testing"

	"github.com/Yiling-J/theine-go/internal/vrt/vh"
)

// C06, doorkeeper over its reset: "Set returns false only for cost > MaxSize or a doorkeeper first sight".
// The big-step scenarios never reach the doorkeeper's reset (more than Capacity refused first-time keys in one
// shard). This enumeration does: for every warm-up length n of a catalogue around the reset threshold, n distinct
// first-time keys of ONE shard are offered once; then each of a few fresh keys of that shard is offered up to three
// times and must be admitted by the third offer at the latest, and be readable afterwards.
//
// Why three: a fresh key's first offer is refused (first sight); the second is admitted unless the filter was reset
// between the two (a reset happens when the refusal counter has passed the capacity, and zeroes the counter), in
// which case it counts as a first sight again and the third offer is admitted; two resets cannot follow each other.
// Bloom-filter false positives only admit earlier. Sequential, real store, Wait before reading.

func TestVerif_C06Door(t *testing.T) {
	env := vh.Env()
	res := vh.NewResult("C06", "EX-ENUM", env)
	defer res.Write()
	warm := []int{0, 1, 100, 318, 319, 320, 321, 322, 323, 400, 640, 641, 642, 643, 1000}
	if env.Thorough() {
		warm = nil
		for n := 0; n <= 2000; n++ {
			warm = append(warm, n)
		}
	}
	res.Bounds["warmups"] = len(warm)
	pools := []bool{false, true}
	if env.Replay != "" {
		var rp struct {
			Warmup int  `json:"warmup"`
			Pool   bool `json:"pool"`
		}
		if err := vh.LoadReplay(env.Replay, &rp); err != nil {
			res.Error = "replay: " + err.Error()
			return
		}
		warm, pools = []int{rp.Warmup}, []bool{rp.Pool}
	}
	for wi, n := range warm {
		if env.Replay == "" && wi%env.NShards != env.Shard {
			continue
		}
		for _, pool := range pools {
			s := NewStore(&StoreOptions[int, int]{MaxSize: 100000, Doorkeeper: true, EntryPool: pool})
			// keys of shard 0
			var keys []int
			for k := 0; len(keys) < n+3; k++ {
				if _, idx := s.index(k); idx == 0 {
					keys = append(keys, k)
				}
			}
			refused := 0
			for _, k := range keys[:n] {
				if !s.Set(k, k, 1, 0) {
					refused++
				}
			}
			s.Wait()
			var obs []int
			for _, k := range keys[n:] {
				admitted := 0
				for try := 1; try <= 3; try++ {
					if s.Set(k, 1000+k, 1, 0) {
						admitted = try
						break
					}
				}
				obs = append(obs, admitted)
				rp := map[string]any{"warmup": n, "pool": pool}
				if admitted == 0 {
					res.Violate("set-false-without-reason", "doorkeeper-never-admits",
						fmt.Sprintf("doorkeeper on, entry pool %v: after %d first-time keys of one shard (%d of them refused), a fresh key %d was refused three times in a row; only a first sight may be refused", pool, n, refused, k), n, rp)
					continue
				}
				s.Wait()
				if v, ok := s.Get(k); !ok || v != 1000+k {
					res.Violate("stored-value-unreadable", "doorkeeper", fmt.Sprintf("Set(%d) returned true on offer %d but Get returns (%d,%v)", k, admitted, v, ok), n, rp)
				}
			}
			res.Outcome(fmt.Sprint(n > 320, n > 641, obs))
			res.Executions++
			res.Completed++
			if res.Executions <= 2 {
				res.Sample(map[string]any{"warmup": n, "pool": pool, "refused": refused, "admitted_on_offer": obs})
			}
			s.Close()
		}
	}
}
