//go:build verif && vsched

package internal

import (
	"fmt"
	"strings"
	"testing"

	"github.com/Yiling-J/theine-go/internal/vrt"
	"github.com/Yiling-J/theine-go/internal/vrt/vh"
)

// C06, interleaving part (E1-ICB): "a value disappears only because it was deleted, its deadline passed, or the cache
// needed room" inside the one window the big-step scenarios cannot enter - the expiry path between the timer wheel's
// deadline comparison and removeEntry's own look at the entry. A single writer extends the TTL of a key that is about to
// be reclaimed (its old deadline has passed, the tick is being applied) to 90 s, reads it, and (second driver) rewrites it
// without a TTL; the cache is far from full and nothing is deleted. Whatever the schedule:
//   - a Get issued after the extending Set returned hits and returns that Set's value (or the later one's),
//   - no value written by the extending Set or after it is ever reported to the removal listener (its deadline is 90 s
//     away, virtual time moves by 2 s),
//   - at the end the key is resident with the last value written.
// The order of the writes is known (one writer thread), so the reference needs no linearization search.

func c06IcbDrivers() []*icCfg {
	S := func(k int, c int64) icOp { return icOp{Kind: "set", K: k, Cost: c} }
	T := func(k int, c int64, ttl int64) icOp { return icOp{Kind: "set", K: k, Cost: c, TTL: ttl} }
	G := func(k int) icOp { return icOp{Kind: "get", K: k} }
	tick := icOp{Kind: "tick", Arg: 2 * sec}
	o := hOpts{MaxSize: 3, ChanSize: 2, BufSize: 2}
	return []*icCfg{
		{Name: "X1-ttl-extended-in-expiry-window", O: o, Pre: []icOp{T(1, 1, sec), {Kind: "wait"}}, Scripts: [][]icOp{{tick}, {T(1, 1, 90*sec), G(1)}}},
		{Name: "X2-extended-then-rewritten", O: o, Pre: []icOp{T(1, 1, sec), {Kind: "wait"}}, Scripts: [][]icOp{{tick}, {T(1, 1, 90*sec), S(1, 2), G(1)}}},
		{Name: "X3-loading-read-after-extension", O: o, Loading: true, LoadCost: 1, Pre: []icOp{T(1, 1, sec), {Kind: "wait"}}, Scripts: [][]icOp{{tick}, {T(1, 1, 90*sec), {Kind: "lget", K: 1}}}},
	}
}

func c06IcbCheck(res *vh.Result, cfg *icCfg) func(r *icRun, x *vrt.Sched, cost int) {
	return func(r *icRun, x *vrt.Sched, cost int) {
		rp := map[string]any{"driver": cfg.Name, "choices": x.Choices()}
		viol := func(clause, sig, detail string) {
			res.Violate(clause, sig, cfg.Name+": "+detail+"\nhistory: "+r.history()+"\nlistener: "+fmtNotes(r.h.notes), cost, rp)
		}
		if len(r.stuck) > 0 || x.ErrKind == "deadlock" {
			viol("deadlock", strings.Join(r.stuck, ","), "clients never finished "+x.Err)
			return
		}
		// the writer's calls in program order
		var key int
		var longLived []int // values written by the extending Set and after it
		last := 0
		extended := false
		var obs []string
		for _, c := range r.calls {
			if c.Client != 1 {
				continue
			}
			switch c.Op.Kind {
			case "set":
				key = c.Op.K
				if !c.OK {
					viol("set-refused", "icb", fmt.Sprintf("Set(%d) with cost %d <= MaxSize returned false", c.Op.K, c.Op.Cost))
					continue
				}
				if c.Op.TTL == 90*sec {
					extended = true
				}
				if extended {
					longLived = append(longLived, c.V)
				}
				last = c.V
			case "get", "lget":
				if !extended {
					continue
				}
				if !c.OK || c.Got != last {
					viol("set-true-not-visible", "icb:ttl-extended-in-expiry-window", fmt.Sprintf("%s(%d) after Set returned true (value %d, deadline 90 s away, no Delete, cache not full) -> (%d,%v)%s", c.Op.Kind, c.Op.K, last, c.Got, c.OK, map[bool]string{true: " [the loader ran]"}[c.Loaded]))
				}
				obs = append(obs, fmt.Sprintf("%s:%v", c.Op.Kind, c.OK))
			}
		}
		for _, n := range r.h.notes {
			for _, v := range longLived {
				if n.K == key && n.V == v {
					viol("lost-without-reason", "icb:ttl-extended-in-expiry-window:"+fmt.Sprint(n.R), fmt.Sprintf("(%d,%d) was reported to the removal listener (reason %v): its deadline is 90 s away, it was not deleted, the cache is not full", n.K, n.V, n.R))
				}
			}
		}
		if got, ok := r.final[key]; extended && (!ok || got != last) {
			viol("lost-without-reason", "icb:ttl-extended-in-expiry-window:final", fmt.Sprintf("at the end key %d should hold %d (deadline 90 s away): resident map %s", key, last, fmtMap(r.final)))
		}
		res.Outcome(fmt.Sprintf("%s|%v|%s|%s", cfg.Name, obs, fmtMap(r.final), fmtNotes(r.h.notes)))
		if res.NOutcomes() <= 2 {
			res.Sample(map[string]any{"driver": cfg.Name, "history": r.history(), "schedule_len": len(x.Trace)})
		}
	}
}

func TestVerif_C06Icb(t *testing.T) {
	env := vh.Env()
	res := vh.NewResult("C06/icb", "E1-ICB", env)
	defer res.Write()
	for _, cfg := range c06IcbDrivers() {
		if d := env.Params["driver"]; d != "" && d != cfg.Name {
			continue
		}
		cfg.P, cfg.D = env.Int("P", 2), env.Int("D", 1)
		cfg.EndWait = true
		icExplore(res, env, cfg, c06IcbCheck(res, cfg))
		if res.Error != "" {
			return
		}
	}
}
