//go:build verif && vsched

package internal

import (
	"fmt"
	"math"
	"sort"
	"strings"
	"testing"

	"github.com/Yiling-J/theine-go/internal/vrt"
	"github.com/Yiling-J/theine-go/internal/vrt/vh"
)

// C06 — a successful Set is visible and is never lost without a reason.
//
// Engine E2-BFS (big steps) with a virtual clock. Reference model (record order = linearization
// order, because a map phase is one atomic big step): key -> (value, cost, deadline).
//   * Set returns false only for cost > MaxSize or a doorkeeper first sight, and then the map is unchanged;
//   * a Set that returns true is readable through the real read path at its linearization point;
//   * a Set on a key whose previous value has expired is governed by the new call's TTL only;
//   * at every drained state each reference-live key is resident with its reference value unless it was
//     reported EVICTED while there was capacity pressure, and nothing is reported EVICTED in a history whose
//     stored-and-not-yet-reported cost never exceeded MaxSize; nothing is reported EXPIRED before/without
//     its reference deadline;
//   * a value whose cost exceeds MaxSize is never resident (Set or loader).

type c06Ref struct {
	v        int
	cost     int64
	deadline int64 // cache nanos, 0 = none
	rec      *bsRec
}

func c06Check(res *vh.Result) bsVisit {
	return func(w *bsWorld, hist []string) {
		rp := map[string]any{"cfg": w.cfg.Name, "hist": hist}
		viol := func(clause, sig, detail string) {
			res.Violate(clause, sig, fmt.Sprintf("history %v (then drained): %s; listener log: %s; resident: %s", hist, detail, fmtNotes(w.h.notes), fmtMap(w.h.resident())), len(hist), rp)
		}
		max := w.cfg.MaxSize
		ref := map[int]*c06Ref{}
		tainted := map[[2]int]bool{} // values whose later misbehaviour is already reported by its root cause
		seen := map[int]bool{}       // doorkeeper reference: keys offered since the start (no reset happens in these runs)
		var outcome []string
		for _, r := range w.recs {
			k := r.Op.K
			cur := ref[k]
			if cur != nil && cur.deadline != 0 && cur.deadline <= r.Now {
				// previous value expired before this call
				delete(ref, k)
				cur = nil
			}
			if r.Op.Kind == "set" && r.Entry != nil && !r.Created && r.End != 0 && r.OK && r.PrevDL != 0 && r.PrevDL <= r.Now {
				// the call updated an expired, not yet reclaimed entry in place: it must behave like a fresh entry
				want := int64(0)
				if r.Op.TTL != 0 {
					want = r.Now + r.Op.TTL
				}
				if r.Deadline != want {
					sig := "ttl-set-on-expired-unreclaimed-entry"
					if r.Op.TTL == 0 {
						sig = "no-ttl-set-on-expired-unreclaimed-entry"
					}
					viol("stale-deadline-kept", sig,
						fmt.Sprintf("%s at t=%d returned true on a key whose previous value had expired (deadline %d) but was not yet reclaimed: the entry keeps deadline %d, the call's own TTL gives %d; read-back at the linearization point: (%d,%v)", r.Op, r.Now, r.PrevDL, r.Deadline, want, r.ProbeV, r.ProbeOK))
					// the unreadable value, its EXPIRED report and its loss are consequences of this one defect
					tainted[[2]int{k, r.V}] = true
				}
			}
			switch r.Op.Kind {
			case "set":
				if r.End == 0 {
					continue
				}
				cost := c05Cost(r)
				if !r.OK {
					legit := cost > max || (w.cfg.Doorkeeper && !seen[k] && cur == nil)
					if !legit {
						viol("set-false-without-reason", fmt.Sprintf("cost<=max,doorkeeper=%v", w.cfg.Doorkeeper), fmt.Sprintf("%s returned false", r.Op))
					}
					if r.Entry != nil || r.Created {
						viol("rejected-set-stored", "entry-written", fmt.Sprintf("%s returned false but wrote the map", r.Op))
					}
					if cost <= max {
						seen[k] = true // an over-cost Set is refused before the doorkeeper is consulted
					}
					outcome = append(outcome, "rej")
					continue
				}
				seen[k] = true
				if cost > max {
					viol("oversize-admitted", "set", fmt.Sprintf("%s returned true with cost %d > MaxSize %d", r.Op, cost, max))
				}
				if r.Probed && (!r.ProbeOK || r.ProbeV != r.V) && !tainted[[2]int{k, r.V}] {
					sig := "fresh-entry"
					if !r.Created {
						sig = "update-in-place"
					}
					viol("set-true-not-readable", sig, fmt.Sprintf("%s at t=%d returned true but the read path gives (%d,%v) at its linearization point (entry deadline %d)", r.Op, r.Now, r.ProbeV, r.ProbeOK, r.Deadline))
				}
				nr := &c06Ref{v: r.V, cost: cost, rec: r}
				switch {
				case r.Op.TTL != 0:
					nr.deadline = r.Now + r.Op.TTL
				case cur != nil:
					nr.deadline = cur.deadline // a TTL-less update of a live value keeps its deadline
				}
				ref[k] = nr
				outcome = append(outcome, "ok")
			case "lget":
				if r.Stored {
					if r.LoadCost > max {
						viol("oversize-admitted", "loader", fmt.Sprintf("loader returned cost %d > MaxSize %d for key %d and the value was stored", r.LoadCost, max, k))
					}
					nr := &c06Ref{v: r.V, cost: r.LoadCost, rec: r}
					if w.cfg.LoadTTL != 0 {
						nr.deadline = c03SatAdd(c06LoadTime(r), w.cfg.LoadTTL)
					} else if cur != nil {
						nr.deadline = cur.deadline
					}
					ref[k] = nr
				}
			case "del":
				delete(ref, k)
			}
		}
		// capacity pressure over the history: stored and not yet reported, at current cost
		incs := c05Incarnations(w)
		byKV := map[[2]int]*c05Inc{}
		for _, in := range incs {
			byKV[[2]int{in.key, in.last}] = in
		}
		notedStep := map[*c05Inc]int{}
		for i, n := range w.h.notes {
			if in := byKV[[2]int{n.K, n.V}]; in != nil {
				if _, ok := notedStep[in]; !ok {
					notedStep[in] = w.noteStep[i]
				}
			}
		}
		var maxPressure int64
		for _, r := range w.recs {
			t := c05Step(r)
			var p int64
			for _, in := range incs {
				if c05Step(in.created) > t {
					continue
				}
				if s, ok := notedStep[in]; ok && s < t {
					continue
				}
				p += in.costAt(t)
			}
			if p > maxPressure {
				maxPressure = p
			}
		}
		now := vrt.NowNanos()
		evicted := map[[2]int]bool{}
		for i, n := range w.h.notes {
			switch n.R {
			case EVICTED:
				evicted[[2]int{n.K, n.V}] = true
				if maxPressure <= max {
					sig := "events-queued-in-map-order"
					if c06Reordered(w, w.noteStep[i]) {
						sig = "events-queued-out-of-map-order"
					}
					viol("evicted-without-pressure", sig,
						fmt.Sprintf("(%d,%d) reported EVICTED although the cost of everything stored and not yet reported never exceeded MaxSize (max %d)", n.K, n.V, maxPressure))
				}
			case EXPIRED:
				in := byKV[[2]int{n.K, n.V}]
				if in == nil || tainted[[2]int{n.K, n.V}] {
					continue
				}
				// reference deadline of that value
				var dl int64 = -1
				for _, r := range w.recs {
					if (r.Op.Kind == "set" || r.Stored) && r.V == n.V && r.Op.K == n.K {
						dl = c06DeadlineOf(w, r)
					}
				}
				if dl == 0 {
					viol("expired-without-deadline", "reference-deadline-none", fmt.Sprintf("(%d,%d) reported EXPIRED but the call that wrote it gives it no deadline", n.K, n.V))
				} else if dl > 0 && w.noteNow[i] < dl {
					viol("expired-before-deadline", "reference-deadline-later", fmt.Sprintf("(%d,%d) reported EXPIRED at %d, reference deadline %d", n.K, n.V, w.noteNow[i], dl))
				}
			}
		}
		resident := w.h.resident()
		var ks []int
		for k := range ref {
			ks = append(ks, k)
		}
		sort.Ints(ks)
		for _, k := range ks {
			r := ref[k]
			if r.deadline != 0 && r.deadline <= now {
				continue
			}
			if v, ok := resident[k]; ok && v == r.v {
				continue
			}
			if evicted[[2]int{k, r.v}] || tainted[[2]int{k, r.v}] {
				continue // legitimate, or already reported by the eviction / root-cause clause
			}
			if r.cost > max {
				continue // reported above as oversize-admitted if it was stored
			}
			why := "absent"
			if v, ok := resident[k]; ok {
				why = fmt.Sprintf("resident value is %d", v)
			}
			viol("lost-without-reason", "live-key-missing-after-drain", fmt.Sprintf("key %d should hold %d (cost %d, deadline %d, now %d): %s", k, r.v, r.cost, r.deadline, now, why))
		}
		// nothing oversize resident
		for _, sh := range w.h.s.shards {
			for _, e := range sh.hashmap {
				if e.weight.Load() > max {
					viol("oversize-resident", "after-drain", fmt.Sprintf("resident entry %d=%d has cost %d > MaxSize %d", e.key, e.value, e.weight.Load(), max))
				}
			}
		}
		res.Outcome(fmt.Sprintf("%s|%s|%s|%d|%d", w.cfg.Name, strings.Join(outcome, ""), fmtMap(resident), len(w.h.notes), maxPressure))
	}
}

// c06Reordered reports whether, before logical step upto, two write calls put their events on the
// write queue in an order different from the order of their map phases (the window between a call's
// map update and its queue send), or a call's event was still unsent while a later call's event was
// already applied.
func c06Reordered(w *bsWorld, upto int) bool {
	lastEnd := 0
	for _, r := range w.recs {
		if r.MapDone == 0 || r.MapDone > upto {
			continue // the call queued nothing or started later
		}
		end := r.End
		if end == 0 || end > upto {
			end = 1 << 30 // still unsent when the eviction happened
		}
		if end < lastEnd {
			return true
		}
		lastEnd = end
	}
	return false
}

// c06LoadTime: a loaded value is stored when its loader returns ("as a Set made then would be")
func c06LoadTime(r *bsRec) int64 {
	if r.LoadEnd != 0 {
		return r.LoadEnd
	}
	return r.Now
}

// c06DeadlineOf replays the reference deadline rule for the value written by call r.
func c06DeadlineOf(w *bsWorld, r *bsRec) int64 {
	var dl int64
	live := false
	for _, x := range w.recs {
		if x.Op.K != r.Op.K {
			continue
		}
		if live && dl != 0 && dl <= x.Now {
			live, dl = false, 0
		}
		switch x.Op.Kind {
		case "set":
			if x.End == 0 || !x.OK {
				break
			}
			if x.Op.TTL != 0 {
				dl = x.Now + x.Op.TTL
			} else if !live {
				dl = 0
			}
			live = true
		case "lget":
			if x.Stored {
				if w.cfg.LoadTTL != 0 {
					dl = c03SatAdd(c06LoadTime(x), w.cfg.LoadTTL)
				} else if !live {
					dl = 0
				}
				live = true
			}
		case "del":
			live, dl = false, 0
		}
		if x == r {
			return dl
		}
	}
	return -1
}

func c06Cfgs() []*bsCfg {
	S := func(k int, c int64) bsOp { return bsOp{"set", k, c, 0} }
	T := func(k int, c int64, ttl int64) bsOp { return bsOp{"set", k, c, ttl} }
	D := func(k int) bsOp { return bsOp{"del", k, 0, 0} }
	L := func(k int) bsOp { return bsOp{"lget", k, 0, 0} }
	return []*bsCfg{
		{Name: "ttl-mix", MaxSize: 2, ChanSize: 2, BufSize: 2, NClients: 1, OpsPer: 4, Depth: 12, Ticks: 2, TickNs: 1100 * 1e6, Advs: []int64{1100 * 1e6}, MaxAdv: 1, Probe: true,
			Ops: []bsOp{T(1, 1, sec), S(1, 1), T(1, 1, 60*sec), S(2, 1), D(1)}},
		{Name: "cost", MaxSize: 2, ChanSize: 2, BufSize: 2, NClients: 2, OpsPer: 2, Depth: 10, Probe: true,
			Ops: []bsOp{S(1, 1), S(1, 2), S(1, 3), S(2, 1), S(3, 0)}},
		{Name: "cost3", MaxSize: 3, ChanSize: 2, BufSize: 2, NClients: 3, OpsPer: 1, Depth: 10, Probe: true,
			Ops: []bsOp{S(1, 1), S(1, 2), S(1, 3), S(2, 1)}},
		{Name: "doorkeeper", MaxSize: 2, ChanSize: 2, BufSize: 2, Doorkeeper: true, NClients: 2, OpsPer: 3, Depth: 10, Probe: true,
			Ops: []bsOp{S(1, 1), S(2, 1), S(1, 3), D(1)}},
		{Name: "loader-big", MaxSize: 2, ChanSize: 2, BufSize: 2, Loading: true, LoadCost: 3, NClients: 2, OpsPer: 2, Depth: 9, Probe: true,
			Ops: []bsOp{S(1, 1), S(2, 1), L(3), L(1)}},
		// the loader leaves Cost 0, so the cost function rates the value: loaded values (>= 1000) cost MaxSize+1
		{Name: "loader-costfn", MaxSize: 2, ChanSize: 2, BufSize: 2, Loading: true, LoadCost: 0, NClients: 2, OpsPer: 2, Depth: 9, Probe: true,
			CostFn: func(v int) int64 {
				if v >= 1000 {
					return 3
				}
				return 1
			},
			Ops: []bsOp{S(1, 0), S(2, 1), L(3), L(1)}},
		// a slow loader: the clock moves by 2 s inside the load, the value it returns lives 1.5 s from then on
		{Name: "loader-slow", MaxSize: 2, ChanSize: 2, BufSize: 2, Loading: true, LoadCost: 1, LoadTTL: 1500 * 1e6, LoadLat: 2 * sec, NClients: 1, OpsPer: 3, Depth: 7, Ticks: 2, TickNs: 1100 * 1e6, Probe: true,
			Ops: []bsOp{{"lget", 1, 0, 0}, {"lget", 2, 0, 0}, {"get", 1, 0, 0}}},
		// a loader TTL that overflows when added to the clock: the deadline saturates ("never"), as ExpireNano does for Set
		{Name: "loader-huge-ttl", MaxSize: 2, ChanSize: 2, BufSize: 2, Loading: true, LoadCost: 1, LoadTTL: math.MaxInt64 - 1000, NClients: 1, OpsPer: 3, Depth: 6, Ticks: 1, TickNs: 1100 * 1e6, Probe: true,
			Ops: []bsOp{{"lget", 1, 0, 0}, {"get", 1, 0, 0}, {"set", 2, 1, 0}}},
		{Name: "loader-ttl", MaxSize: 2, ChanSize: 2, BufSize: 2, Loading: true, LoadCost: 1, LoadTTL: sec, NClients: 2, OpsPer: 2, Depth: 9, Ticks: 1, TickNs: 1100 * 1e6, Advs: []int64{1100 * 1e6}, MaxAdv: 1, Probe: true,
			Ops: []bsOp{S(1, 1), L(1), L(2), D(1)}},
	}
}

func TestVerif_C06(t *testing.T) {
	env := vh.Env()
	res := vh.NewResult("C06", "E2-BFS", env)
	defer res.Write()
	for _, cfg := range c06Cfgs() {
		if d := env.Params["cfg"]; d != "" && d != cfg.Name {
			continue
		}
		if d := env.Int("depth", 0); d > 0 {
			cfg.Depth = d
		}
		if n := env.Int("clients", 0); n > 0 {
			cfg.NClients = n
		}
		if n := env.Int("ops", 0); n > 0 {
			cfg.OpsPer = n
		}
		b := &bsSearch{cfg: cfg, res: res, env: env, drained: c06Check(res)}
		b.run()
		res.Bounds["cfg"] = cfg.Name
		res.Bounds["depth"] = cfg.Depth
		if res.Error != "" {
			return
		}
	}
}
