//go:build verif && vplain

package internal

import (
	"fmt"
	"hash/fnv"
	"math"
	"os"
	"sort"
	"strconv"
	"strings"
	"sync/atomic"
	"testing"
	"time"

	"github.com/Yiling-J/theine-go/internal/hasher"
	"github.com/Yiling-J/theine-go/internal/vrt/vh"
)

// C07 — eviction policy state stays structurally consistent and within bounds.
//
// Engine E2-BFS: explicit-state breadth-first search over operation sequences on the REAL
// TinyLfu / Slru / List (un-instrumented build, driven white-box and sequentially). A state
// is never cloned: successor = fresh NewTinyLfu + replay of the history + one more op.
//
// Call protocol (mirrors store.go, so that only states the Store can produce are visited):
//   set(e,c)   sinkWrite/NEW:   fresh Entry (policyWeight 0, as setShardWithoutLock makes it),
//              flag.SetRemoved(false); sketch.Add(hash); policyWeight += c; policy.Set(entry).
//              Only for keys that are NOT tracked (one NEW per Entry object; a key that was evicted
//              or removed gets a new Entry object, the sketch keeps its history).
//   acc(e)     drainRead:       skipped for removed entries; policy.Access({entry,hash}); tracked only.
//   upd(e,c')  sinkWrite/UPDATE: policyWeight += c'-c; return if meta.prev==nil; UpdateCost(entry,c'-c)
//              only when the change is non-zero; 1 <= c' <= capacity (Store.Set rejects cost > cap).
//   rem(e)     sinkWrite/REMOVE -> removeEntry(REMOVED): flags deleted+removed; policy.Remove(entry,false)
//              only if meta.prev != nil. (Timer-wheel expiry reaches the policy through the same call.)
//   callback   removeCallback = removeEntry(EVICTED): flag.SetRemoved(true); Remove(entry,false) only if
//              meta.prev != nil (never the case, the policy unlinks before calling back).
//   freq(e,n)  sketch content: the four counters of key e are set to n (keys are chosen so that the
//              20 counters of the five keys are pairwise distinct, hence Estimate(e) == n exactly).
//   climb(v)   hitsInSample/missesInSample are set to a chosen pair with h+m = 700 > SampleSize (640) and
//              the guarded block `if hits+misses > SampleSize { climb(); resizeWindow() }` is run through
//              the real Access with a nil entry (which executes that block and nothing else).
//              v=0 repeats the previous sample ratio (delta == 0), v=1..3 = 1:99, 50:50, 99:1.
//
// Random admission coin: admit() consults xruntime.Fastrand only when candidateFreq >= 6. A plain
// build cannot intercept it, so the harness keeps every estimate <= 5 (counters of the five keys are
// clamped to 5 after every op) and enumerates sketch contents instead. This loses nothing structural:
// in one evictFromMain run every candidate is compared exactly once, against an entry that appeared
// earlier, so the comparison constraints form a forest and any sequence of coin results is also produced
// by some assignment of estimates in 0..5 to <= 5 entries, which the search enumerates.

const c07MaxN = 5

var (
	c07Keys   [c07MaxN]int
	c07Hashes [c07MaxN]uint64
	c07Hasher = hasher.NewHasher[int](nil)
)

var c07Ratios = [4][2]uint64{{0, 0}, {7, 693}, {350, 350}, {693, 7}}

type c07Op struct {
	K string `json:"k"` // set acc upd rem freq climb
	E int    `json:"e"` // entry index (0-based)
	V int    `json:"v"` // cost / new cost / estimate / climb variant
}

func (o c07Op) String() string {
	switch o.K {
	case "set":
		return fmt.Sprintf("Set(e%d,%d)", o.E+1, o.V)
	case "acc":
		return fmt.Sprintf("Access(e%d)", o.E+1)
	case "upd":
		return fmt.Sprintf("UpdateCost(e%d->%d)", o.E+1, o.V)
	case "rem":
		return fmt.Sprintf("Remove(e%d)", o.E+1)
	case "freq":
		return fmt.Sprintf("Freq(e%d=%d)", o.E+1, o.V)
	case "climb":
		if o.V == 0 {
			return "Climb(same-ratio)"
		}
		return fmt.Sprintf("Climb(h=%d,m=%d)", c07Ratios[o.V][0], c07Ratios[o.V][1])
	}
	return "?"
}

var c07Kinds = []string{"set", "acc", "rem", "upd", "freq", "climb"}

func c07Enc(o c07Op) uint16 {
	k := 0
	for i, s := range c07Kinds {
		if s == o.K {
			k = i
		}
	}
	return uint16(k)<<12 | uint16(o.E)<<8 | uint16(o.V)
}

func c07Dec(x uint16) c07Op {
	return c07Op{K: c07Kinds[x>>12], E: int(x>>8) & 0xf, V: int(x & 0xff)}
}

type c07Cfg struct {
	Cap   int   `json:"cap"`
	N     int   `json:"n"`
	W0    int   `json:"w0"` // 0 = fresh; otherwise initial window capacity (protected = sum - w0)
	Costs []int `json:"costs"`
	Freqs []int `json:"freqs"`
	Climb bool  `json:"climb"`
}

type c07Budget struct{}

type c07Sys struct {
	cfg       *c07Cfg
	t         *TinyLfu[int, int]
	ent       [c07MaxN]*Entry[int, int]
	tracked   [c07MaxN]bool
	lastRatio int
	capSum    uint
	cb        int
	evicted   []string
	anomaly   string
	infra     string
}

// c07FindKeys picks five int keys whose sketch counters (4 each) are pairwise distinct in the
// initial 64-word table, using the real indexOf/rehash.
func c07FindKeys() error {
	s := NewCountMinSketch()
	used := map[[2]uint]bool{}
	n := 0
	for k := 1; k < 100000 && n < c07MaxN; k++ {
		h := c07Hasher.Hash(k)
		block := (h & uint64(s.BlockMask)) << 3
		hc := rehash(h)
		var mine [][2]uint
		ok := true
		for i := uint8(0); i < 4; i++ {
			idx, off := s.indexOf(hc, block, i)
			p := [2]uint{idx, off}
			if used[p] {
				ok = false
			}
			for _, q := range mine {
				if q == p {
					ok = false
				}
			}
			mine = append(mine, p)
		}
		if !ok {
			continue
		}
		for _, p := range mine {
			used[p] = true
		}
		c07Keys[n], c07Hashes[n] = k, h
		n++
	}
	if n < c07MaxN {
		return fmt.Errorf("could not find %d keys with disjoint sketch counters", c07MaxN)
	}
	return nil
}

func c07SetFreq(s *CountMinSketch, h uint64, n uint) {
	block := (h & uint64(s.BlockMask)) << 3
	hc := rehash(h)
	for i := uint8(0); i < 4; i++ {
		idx, off := s.indexOf(hc, block, i)
		off <<= 2
		s.Table[idx] = s.Table[idx]&^(uint64(0xF)<<off) | uint64(n)<<off
	}
}

func c07New(cfg *c07Cfg) *c07Sys {
	s := &c07Sys{cfg: cfg, lastRatio: -1}
	t := NewTinyLfu[int, int](uint(cfg.Cap), c07Hasher)
	s.t = t
	s.capSum = t.window.capacity + t.slru.protected.capacity
	if cfg.W0 > 0 {
		// a split of window+protected capacity that a long run of productive climbs reaches
		t.window.capacity = uint(cfg.W0)
		t.slru.protected.capacity = s.capSum - uint(cfg.W0)
	}
	t.removeCallback = func(e *Entry[int, int]) {
		s.cb++
		if s.cb > 4*c07MaxN {
			panic(c07Budget{})
		}
		// store.removeEntry(entry, EVICTED)
		e.flag.SetRemoved(true)
		if e.meta.prev != nil {
			t.Remove(e, false)
		}
		i := e.value
		if i >= 0 && i < c07MaxN && s.ent[i] == e && s.tracked[i] {
			s.tracked[i] = false
			s.evicted = append(s.evicted, fmt.Sprintf("e%d", i+1))
		} else {
			s.anomaly = fmt.Sprintf("removeCallback for e%d which is not tracked", i+1)
		}
	}
	return s
}

func (s *c07Sys) est(i int) int { return int(s.t.sketch.Estimate(c07Hashes[i])) }

// apply executes one op with the Store's call protocol; a panic inside the policy is returned.
func (s *c07Sys) apply(op c07Op) (pan any) {
	s.cb = 0
	s.evicted = s.evicted[:0]
	defer func() {
		if r := recover(); r != nil {
			pan = r
		}
	}()
	t := s.t
	switch op.K {
	case "set":
		e := &Entry[int, int]{key: c07Keys[op.E], value: op.E}
		e.weight.Store(int64(op.V))
		e.policyWeight = 0
		s.ent[op.E] = e
		s.tracked[op.E] = true
		e.flag.SetRemoved(false)
		t.sketch.Add(c07Hashes[op.E])
		e.policyWeight += int64(op.V)
		t.Set(e)
	case "acc":
		e := s.ent[op.E]
		if e.flag.IsRemoved() {
			return
		}
		t.Access(ReadBufItem[int, int]{entry: e, hash: c07Hashes[op.E]})
	case "upd":
		e := s.ent[op.E]
		change := int64(op.V) - e.weight.Swap(int64(op.V))
		if e.flag.IsDeleted() || e.flag.IsRemoved() {
			return
		}
		e.policyWeight += change
		if e.meta.prev == nil {
			return
		}
		if change != 0 {
			t.UpdateCost(e, change)
		}
	case "rem":
		e := s.ent[op.E]
		e.flag.SetDeleted(true)
		e.flag.SetRemoved(true)
		s.tracked[op.E] = false
		if e.meta.prev != nil {
			t.Remove(e, false)
		}
	case "freq":
		c07SetFreq(t.sketch, c07Hashes[op.E], uint(op.V))
		if s.est(op.E) != op.V {
			s.infra = fmt.Sprintf("Freq(e%d=%d) gave estimate %d", op.E+1, op.V, s.est(op.E))
		}
	case "climb":
		v := op.V
		if v == 0 {
			v = s.lastRatio
		}
		h, m := uint64(0), uint64(700) // no climb yet: hr == 0, so 0 hits repeats it
		if v > 0 {
			h, m = c07Ratios[v][0], c07Ratios[v][1]
		}
		if op.V != 0 {
			s.lastRatio = op.V
		}
		t.hitsInSample, t.missesInSample = h, m
		if uint(h+m) <= t.sketch.SampleSize {
			s.infra = "sample counters do not pass the climb guard"
		}
		t.Access(ReadBufItem[int, int]{})
	}
	// keep estimates below ADMIT_HASHDOS_THRESHOLD: the admission coin is never tossed
	for i := 0; i < c07MaxN; i++ {
		if s.est(i) > 5 {
			c07SetFreq(t.sketch, c07Hashes[i], 5)
		}
	}
	if len(t.sketch.Table) != 64 {
		s.infra = "sketch table grew; key counters may collide"
	}
	return nil
}

type c07Bad struct{ clause, sig, what string }

func c07Regions(t *TinyLfu[int, int]) [3]*List[int, int] {
	return [3]*List[int, int]{t.window, t.slru.probation, t.slru.protected}
}

var c07RegionName = [3]string{"window", "probation", "protected"}

func c07FlagName(f Flag) string {
	var p []string
	if f.IsWindow() {
		p = append(p, "window")
	}
	if f.IsProbation() {
		p = append(p, "probation")
	}
	if f.IsProtected() {
		p = append(p, "protected")
	}
	if len(p) == 0 {
		return "none"
	}
	return strings.Join(p, "+")
}

// walk returns the entries of a list front->back with a bound on the number of hops.
func c07Walk(l *List[int, int]) (es []*Entry[int, int], problem string) {
	root := &l.root
	e := root.meta.next
	for hops := 0; ; hops++ {
		if e == nil {
			return es, "nil-link"
		}
		if e == root {
			break
		}
		if hops > 2*c07MaxN {
			return es, "cycle"
		}
		if e.meta.next == nil || e.meta.next.meta.prev != e {
			return es, "broken-backlink"
		}
		es = append(es, e)
		e = e.meta.next
	}
	if root.meta.next == nil || root.meta.next.meta.prev != root {
		return es, "broken-backlink"
	}
	return es, ""
}

// check evaluates the invariants of the property statement after one step.
func (s *c07Sys) check(op c07Op, pan any) []c07Bad {
	var bad []c07Bad
	add := func(c, sig, what string) { bad = append(bad, c07Bad{c, sig, what}) }
	if pan != nil {
		if _, ok := pan.(c07Budget); ok {
			add("eviction-terminates", "op="+op.K+" callbacks-exceed-budget",
				fmt.Sprintf("more than %d removal callbacks inside one policy call with at most %d tracked entries: the eviction loop does not terminate", 4*c07MaxN, c07MaxN))
		} else {
			msg := fmt.Sprint(pan)
			if i := strings.Index(msg, " ["); i > 0 {
				msg = msg[:i]
			}
			add("panic", "op="+op.K+" "+msg, "the policy call panicked: "+fmt.Sprint(pan))
		}
		return bad
	}
	t := s.t
	if s.anomaly != "" {
		add("region-cover", "op="+op.K+" callback-for-untracked", s.anomaly)
	}
	type seenT struct {
		e *Entry[int, int]
		r int
	}
	var seenBuf [2 * c07MaxN]seenT
	seenL := seenBuf[:0]
	lookup := func(e *Entry[int, int]) (int, bool) {
		for _, x := range seenL {
			if x.e == e {
				return x.r, true
			}
		}
		return 0, false
	}
	var total int64
	for r, l := range c07Regions(t) {
		es, problem := c07Walk(l)
		name := c07RegionName[r]
		if problem != "" {
			add("list-links", "list="+name+" "+problem, "intrusive list is corrupt: "+problem)
			return bad
		}
		var sum int64
		for _, e := range es {
			sum += e.policyWeight
			if prev, dup := lookup(e); dup {
				add("region-disjoint", "in="+c07RegionName[prev]+"+"+name, fmt.Sprintf("e%d is linked in two regions", e.value+1))
			}
			seenL = append(seenL, seenT{e, r})
			i := e.value
			if i < 0 || i >= c07MaxN || s.ent[i] != e || !s.tracked[i] {
				add("region-cover", "untracked-in="+name, fmt.Sprintf("an entry (e%d) that is not tracked is linked in %s", i+1, name))
			}
			if fn := c07FlagName(e.flag); fn != name {
				add("flag-mismatch", "list="+name+" flag="+fn, fmt.Sprintf("e%d is linked in %s but its region flag says %s", i+1, name, fn))
			}
		}
		if l.len != sum {
			dir := "len<sum"
			if l.len > sum {
				dir = "len>sum"
			}
			add("region-size", "list="+name+" "+dir, fmt.Sprintf("%s.len=%d but its entries weigh %d", name, l.len, sum))
		}
		if l.count != len(es) {
			add("region-count", "list="+name, fmt.Sprintf("%s.count=%d but it holds %d entries", name, l.count, len(es)))
		}
		total += l.len
	}
	for i := 0; i < s.cfg.N; i++ {
		e := s.ent[i]
		if e == nil {
			continue
		}
		if s.tracked[i] {
			if _, ok := lookup(e); !ok {
				add("region-cover", "tracked-missing flag="+c07FlagName(e.flag), fmt.Sprintf("tracked e%d is in no region", i+1))
			}
		} else {
			if fn := c07FlagName(e.flag); fn != "none" || e.meta.prev != nil || e.meta.next != nil {
				if _, ok := lookup(e); !ok {
					add("flag-mismatch", "untracked flag="+fn, fmt.Sprintf("e%d left the policy but still carries region flag %s / list links", i+1, fn))
				}
			}
		}
	}
	if int64(t.weightedSize) != total || t.weightedSize >= 1<<63 {
		dir := "total<regions"
		if t.weightedSize >= 1<<63 {
			dir = "total-wrapped"
		} else if int64(t.weightedSize) > total {
			dir = "total>regions"
		}
		add("total-mismatch", "op="+op.K+" "+dir, fmt.Sprintf("weightedSize=%d but the regions record %d", t.weightedSize, total))
	}
	if (op.K == "set" || op.K == "upd") && t.weightedSize > t.capacity {
		add("over-capacity", "op="+op.K, fmt.Sprintf("weightedSize=%d > capacity=%d after %s", t.weightedSize, t.capacity, op.K))
	}
	wc, pc := t.window.capacity, t.slru.protected.capacity
	wrapped := false
	for r, l := range c07Regions(t) {
		if l.capacity >= 1<<63 {
			wrapped = true
			add("capacity-wrap", "region="+c07RegionName[r], fmt.Sprintf("%s.capacity=%d (negative as int: %d)", c07RegionName[r], l.capacity, int64(l.capacity)))
		}
	}
	if wc < 1 {
		add("window-cap-min", "op="+op.K, "window.capacity=0")
	}
	if !wrapped && wc+pc != s.capSum {
		add("capacity-conservation", "op="+op.K, fmt.Sprintf("window.capacity+protected.capacity=%d+%d, was %d", wc, pc, s.capSum))
	}
	if t.capacity != uint(s.cfg.Cap) {
		add("capacity-conservation", "op="+op.K+" total-capacity", fmt.Sprintf("policy capacity changed to %d", t.capacity))
	}
	return bad
}

// key is the canonical state. Entries are interchangeable except for position, weight and sketch
// estimate (their sketch counters are disjoint), so identities are dropped: each region is the
// front->back sequence of (weight,estimate), untracked keys are the sorted multiset of estimates.
func (s *c07Sys) key() string {
	t := s.t
	var b strings.Builder
	for _, l := range c07Regions(t) {
		for e := l.Front(); e != nil; e = e.Next(l.listType) {
			b.WriteString(strconv.Itoa(int(e.policyWeight)))
			b.WriteByte('.')
			b.WriteString(strconv.Itoa(s.est(e.value)))
			b.WriteByte(' ')
		}
		b.WriteByte('|')
	}
	var u []int
	for i := 0; i < s.cfg.N; i++ {
		if !s.tracked[i] {
			u = append(u, s.est(i))
		}
	}
	sort.Ints(u)
	for _, f := range u {
		b.WriteString(strconv.Itoa(f))
	}
	b.WriteByte('|')
	b.WriteString(strconv.Itoa(int(t.window.capacity)))
	b.WriteByte(',')
	b.WriteString(strconv.Itoa(int(t.slru.protected.capacity)))
	// the climber: when |step| < 1 and a reset step is < 1 too, climb can never move capacity
	// (int(±step) == 0 for ever), so step and hr cannot influence any later state.
	inert := math.Abs(float64(t.step)) < 1 && float32(t.capacity)*HILL_CLIMBER_STEP_PERCENT < 1 && t.amount == 0
	if !inert {
		fmt.Fprintf(&b, ",%d,%x,%x", t.amount, math.Float32bits(t.step), math.Float32bits(t.hr))
	}
	return b.String()
}

func (s *c07Sys) render() string {
	t := s.t
	var b strings.Builder
	for r, l := range c07Regions(t) {
		fmt.Fprintf(&b, "%s[cap=%d len=%d n=%d:", c07RegionName[r], int64(l.capacity), l.len, l.count)
		es, _ := c07Walk(l)
		for _, e := range es {
			fmt.Fprintf(&b, " e%d:w%d:f%d", e.value+1, e.policyWeight, s.est(e.value))
		}
		b.WriteString("] ")
	}
	fmt.Fprintf(&b, "total=%d/%d step=%g amount=%d hr=%g", int64(t.weightedSize), t.capacity, t.step, t.amount, t.hr)
	return b.String()
}

// enabled lists the ops of the alphabet that the Store protocol allows in this state,
// simplest first. Untracked keys with equal estimates are interchangeable: only the
// lowest-numbered one of each estimate is used.
func (s *c07Sys) enabled() []c07Op {
	var ops []c07Op
	cfg := s.cfg
	rep := func(i int) bool {
		for j := 0; j < i; j++ {
			if !s.tracked[j] && s.est(j) == s.est(i) {
				return false
			}
		}
		return true
	}
	for i := 0; i < cfg.N; i++ {
		if !s.tracked[i] && rep(i) {
			for _, c := range cfg.Costs {
				ops = append(ops, c07Op{"set", i, c})
			}
		}
	}
	for i := 0; i < cfg.N; i++ {
		if s.tracked[i] {
			ops = append(ops, c07Op{"acc", i, 0})
		}
	}
	for i := 0; i < cfg.N; i++ {
		if s.tracked[i] {
			ops = append(ops, c07Op{"rem", i, 0})
		}
	}
	for i := 0; i < cfg.N; i++ {
		if s.tracked[i] {
			for _, c := range cfg.Costs {
				if int64(c) != s.ent[i].policyWeight {
					ops = append(ops, c07Op{"upd", i, c})
				}
			}
		}
	}
	for i := 0; i < cfg.N; i++ {
		if s.tracked[i] || rep(i) {
			for _, f := range cfg.Freqs {
				if f != s.est(i) {
					ops = append(ops, c07Op{"freq", i, f})
				}
			}
		}
	}
	if cfg.Climb {
		for v := 0; v < 4; v++ {
			ops = append(ops, c07Op{"climb", 0, v})
		}
	}
	return ops
}

func c07Build(cfg *c07Cfg, hist []uint16) *c07Sys {
	s := c07New(cfg)
	for _, x := range hist {
		s.apply(c07Dec(x))
	}
	return s
}

func c07Ints(s string, def []int) []int {
	if s == "" {
		return def
	}
	var out []int
	for _, p := range strings.Split(s, "/") {
		if i := strings.Index(p, "-"); i > 0 {
			a, _ := strconv.Atoi(p[:i])
			b, _ := strconv.Atoi(p[i+1:])
			for x := a; x <= b; x++ {
				out = append(out, x)
			}
			continue
		}
		n, err := strconv.Atoi(p)
		if err == nil {
			out = append(out, n)
		}
	}
	return out
}

type c07Oc struct {
	kind                      string
	self, other, dwin, remain int
	full                      bool
}

type c07Replay struct {
	Cfg c07Cfg  `json:"cfg"`
	Ops []c07Op `json:"ops"`
	Txt string  `json:"text"`
}

func c07HistText(ops []c07Op) string {
	p := make([]string, len(ops))
	for i, o := range ops {
		p[i] = o.String()
	}
	return strings.Join(p, " ; ")
}

// failsafe for loops that never call back (evictFromWindow spinning on an empty list cannot be
// interrupted or counted): the op sequence number must advance.
var c07Seq atomic.Int64

type c07CurT struct {
	cfg  c07Cfg
	hist []uint16
}

var c07Cur atomic.Pointer[c07CurT]
var c07CurOp atomic.Uint32

func c07Failsafe(res *vh.Result, limit time.Duration) {
	go func() {
		last, since := int64(-1), time.Now()
		for {
			time.Sleep(limit / 4)
			cur := c07Seq.Load()
			if cur != last {
				last, since = cur, time.Now()
				continue
			}
			if c := c07Cur.Load(); c != nil && time.Since(since) >= limit {
				op := c07Dec(uint16(c07CurOp.Load()))
				ops := append(c07DecAll(c.hist), op)
				r := &c07Replay{Cfg: c.cfg, Ops: ops, Txt: c07HistText(ops)}
				res.Violate("eviction-terminates", "op="+op.K+" call-never-returned",
					fmt.Sprintf("cap=%d: %s — the last policy call did not return within %s (a microsecond operation; loop without removal callbacks, failsafe verdict)", r.Cfg.Cap, r.Txt, limit),
					len(r.Ops), r)
				res.Write()
				os.Exit(0)
			}
		}
	}()
}

func TestVerif_C07(t *testing.T) {
	env := vh.Env()
	capacity := env.Int("cap", 3)
	cfg := &c07Cfg{Cap: capacity, N: env.Int("n", 5), W0: env.Int("w0", 0), Climb: env.Int("climb", 1) == 1}
	var all []int
	for c := 1; c <= capacity; c++ {
		all = append(all, c)
	}
	cfg.Costs = c07Ints(env.Params["costs"], all)
	cfg.Freqs = c07Ints(env.Params["freqs"], []int{0, 1, 2, 3, 4, 5})
	depth := env.Int("depth", 7)
	maxStates := env.Int("maxstates", 4000000)
	name := fmt.Sprintf("C07/cap%d", capacity)
	if cfg.W0 > 0 {
		name += fmt.Sprintf("-w%d", cfg.W0)
	}
	res := vh.NewResult(name, "E2-BFS", env)
	defer res.Write()
	res.MaxSamples = 6
	if cfg.N > c07MaxN || cfg.N < 1 {
		res.Error = "n out of range"
		return
	}
	for _, c := range cfg.Costs {
		if c < 1 || c > capacity {
			res.Error = "cost outside 1..cap"
			return
		}
	}
	for _, f := range cfg.Freqs {
		if f < 0 || f > 5 {
			res.Error = "estimate outside 0..5"
			return
		}
	}
	if err := c07FindKeys(); err != nil {
		res.Error = err.Error()
		return
	}
	c07Failsafe(res, 40*time.Second)
	res.Bounds["capacity"] = capacity
	res.Bounds["entries"] = cfg.N
	res.Bounds["costs"] = cfg.Costs
	res.Bounds["estimates"] = cfg.Freqs
	res.Bounds["window0"] = cfg.W0

	seenV := map[string]int{}
	report := func(ops []c07Op, pre string, s *c07Sys, bad []c07Bad) {
		for _, b := range bad {
			k := b.clause + "|" + b.sig
			if best, ok := seenV[k]; ok && best <= len(ops) {
				res.Violate(b.clause, b.sig, "", len(ops), nil)
				continue
			}
			seenV[k] = len(ops)
			txt := c07HistText(ops)
			detail := fmt.Sprintf("cap=%d entries=%d: %s || before last op: %s || after: %s || violated: %s", cfg.Cap, cfg.N, txt, pre, s.render(), b.what)
			res.Violate(b.clause, b.sig, detail, len(ops), &c07Replay{Cfg: *cfg, Ops: append([]c07Op(nil), ops...), Txt: txt})
		}
	}

	// ---- replay mode ----
	if env.Replay != "" {
		var rp c07Replay
		if err := vh.LoadReplay(env.Replay, &rp); err != nil {
			res.Error = "replay: " + err.Error()
			return
		}
		rcfg := rp.Cfg
		s := c07New(&rcfg)
		failed := false
		for i, op := range rp.Ops {
			pre := s.render()
			var hh []uint16
			for _, o := range rp.Ops[:i] {
				hh = append(hh, c07Enc(o))
			}
			c07CurOp.Store(uint32(c07Enc(op)))
			c07Cur.Store(&c07CurT{rcfg, hh})
			pan := s.apply(op)
			c07Seq.Add(1)
			res.Executions++
			res.Transitions++
			if bad := s.check(op, pan); len(bad) > 0 {
				cfg = &rcfg
				report(rp.Ops[:i+1], pre, s, bad)
				failed = true
				break
			}
		}
		if !failed {
			res.Outcome(s.key())
			res.Sample(map[string]any{"replayed": c07HistText(rp.Ops), "final": s.render()})
		} else {
			res.Outcome("violation reproduced")
		}
		return
	}

	// ---- BFS ----
	type node struct {
		hist []uint16
		kh   uint64
	}
	root := c07New(cfg)
	if bad := root.check(c07Op{K: "init"}, nil); len(bad) > 0 {
		report(nil, "", root, bad)
		return
	}
	// visited set: 128-bit FNV-1a of the canonical state string
	h128 := func(k string) (o [16]byte) {
		h := fnv.New128a()
		h.Write([]byte(k))
		h.Sum(o[:0])
		return o
	}
	visited := map[[16]byte]struct{}{h128(root.key()): {}}
	frontier := []node{{nil, vh.Hash(root.key())}}
	res.States = 1
	capped := false
	ocSeen := map[c07Oc]bool{}
	for d := 0; d < depth && len(frontier) > 0 && !capped; d++ {
		var next []node
		for ni, nd := range frontier {
			if ni&63 == 0 && !env.Deadline.IsZero() && time.Now().After(env.Deadline) {
				res.Cap(fmt.Sprintf("deadline at depth %d (%d of %d frontier states expanded)", d+1, ni, len(frontier)))
				capped = true
				break
			}
			if int(res.States) >= maxStates {
				res.Cap(fmt.Sprintf("state cap %d at depth %d", maxStates, d+1))
				capped = true
				break
			}
			base := c07Build(cfg, nd.hist)
			if base.infra != "" {
				res.Error = base.infra
				return
			}
			if vh.Hash(base.key()) != nd.kh {
				res.Error = "replay of a history is not deterministic: " + c07HistText(c07DecAll(nd.hist))
				return
			}
			pre := ""
			c07Cur.Store(&c07CurT{*cfg, nd.hist})
			for _, op := range base.enabled() {
				s := c07Build(cfg, nd.hist)
				c07CurOp.Store(uint32(c07Enc(op)))
				wc0 := s.t.window.capacity
				pan := s.apply(op)
				c07Seq.Add(1)
				res.Transitions++
				res.Executions++
				if s.infra != "" {
					res.Error = s.infra + " after " + c07HistText(append(c07DecAll(nd.hist), op))
					return
				}
				if bad := s.check(op, pan); len(bad) > 0 {
					if pre == "" {
						pre = base.render()
					}
					report(append(c07DecAll(nd.hist), op), pre, s, bad)
					continue
				}
				// outcome: what the step did (evictions with the evicted entry's role, capacity moved, remainder)
				ok := c07Oc{kind: op.K, dwin: int(int64(s.t.window.capacity - wc0)), remain: s.t.amount, full: s.t.weightedSize == s.t.capacity}
				self := fmt.Sprintf("e%d", op.E+1)
				for _, ev := range s.evicted {
					if ev == self && (op.K == "set" || op.K == "upd") {
						ok.self++
					} else {
						ok.other++
					}
				}
				if !ocSeen[ok] {
					ocSeen[ok] = true
					oc := fmt.Sprintf("%s evicted(self=%d other=%d) dwin=%d remain=%d full=%v", ok.kind, ok.self, ok.other, ok.dwin, ok.remain, ok.full)
					res.Outcome(oc)
					if (ok.self+ok.other > 0 || ok.dwin != 0) && len(res.Samples) < res.MaxSamples {
						res.Sample(map[string]any{"ops": c07HistText(append(c07DecAll(nd.hist), op)), "state": s.render(), "step": oc})
					}
				}
				k := s.key()
				kk := h128(k)
				if _, ok := visited[kk]; ok {
					continue
				}
				visited[kk] = struct{}{}
				res.States++
				h2 := make([]uint16, len(nd.hist)+1)
				copy(h2, nd.hist)
				h2[len(nd.hist)] = c07Enc(op)
				next = append(next, node{h2, vh.Hash(k)})
			}
		}
		if !capped {
			res.Note("depth %d: states so far %d, transitions so far %d, new states %d", d+1, res.States, res.Transitions, len(next))
			res.Bounds["depth"] = d + 1
			if len(next) > 0 {
				res.MaxDepth = d + 1
			} else {
				res.Note("state space closed at depth %d: every reachable state within the alphabet has been visited", d+1)
				res.Bounds["closed"] = true
			}
		}
		frontier = next
	}
	res.Note("states=%d transitions=%d frontier_left=%d", res.States, res.Transitions, len(frontier))
}

func c07DecAll(h []uint16) []c07Op {
	ops := make([]c07Op, len(h))
	for i, x := range h {
		ops[i] = c07Dec(x)
	}
	return ops
}
