//go:build verif && vplain

package internal

import (
	"fmt"
	"strings"
	"testing"

	"github.com/Yiling-J/theine-go/internal/vrt/vh"
)

// C08, the consumer side: what the read buffer DELIVERS must reach the policy. The buffer itself may lose events
// (it is lossy by design, and its own scenarios decide what it may and may not do); once a batch has been handed to
// drainRead, every read in it whose entry is still tracked by the policy must be recorded in the sketch - also when
// the batch contains reads of entries that have left the cache in the meantime (they are skipped, nothing more).
//
// Enumeration (sequential, one stripe, the real ring of 16 slots): every sequence of up to 5 reads over two resident
// keys A, B and a key X that is deleted before the batch is drained; the ring is then
// filled with reads of a third resident key until it drains. Oracle: the sketch estimate of A, B and the filler is at
// least 1 (its Set) + the number of its reads in the batch, capped at 15. No aging reset can interfere: a reset needs
// 640 recorded additions, a run makes fewer than 30.

func TestVerif_C08Batch(t *testing.T) {
	env := vh.Env()
	res := vh.NewResult("C08", "EX-ENUM", env)
	defer res.Write()
	maxLen := env.Int("len", 5)
	res.Bounds["max_reads_before_the_removal"] = maxLen
	const A, B, X, F = 1, 2, 3, 4
	alpha := []int{A, B, X}
	var seqs [][]int
	var gen func(cur []int)
	gen = func(cur []int) {
		hasX := false
		for _, k := range cur {
			hasX = hasX || k == X
		}
		if len(cur) > 0 && hasX {
			seqs = append(seqs, append([]int(nil), cur...))
		}
		if len(cur) == maxLen {
			return
		}
		for _, k := range alpha {
			gen(append(cur, k))
		}
	}
	gen(nil)
	n := 0
	for _, how := range []string{"delete"} { // (an eviction of X cannot be arranged through the API at will: the policy picks the victim)
		for _, seq := range seqs {
			n++
			if n%env.NShards != env.Shard {
				continue
			}
			StripedBufferSize = 1
			maxsize := int64(100)
			if how == "evict" {
				maxsize = 4 // A, B, X, F fill it; one more insertion evicts somebody: the run is used only if that is X
			}
			s := NewStore(&StoreOptions[int, int]{MaxSize: maxsize})
			for _, k := range []int{A, B, X, F} {
				s.Set(k, k, 1, 0)
			}
			s.Wait()
			reads := map[int]int{}
			for _, k := range seq {
				if _, ok := s.Get(k); ok {
					reads[k]++
				}
			}
			if how == "delete" {
				s.Delete(X)
			} else {
				s.Set(5, 5, 1, 0)
			}
			s.Wait()
			if _, still := s.Get(X); still {
				// (evict variant) the policy chose another victim: not the situation this enumeration is about
				s.Close()
				continue
			}
			// fill the ring: the producer that fills the last slot drains the batch
			for i := 0; i < 64; i++ {
				if _, ok := s.Get(F); ok {
					reads[F]++
				}
				s.policyMu.Lock()
				done := s.policy.sketch.Estimate(s.hasher.Hash(F)) >= 2
				s.policyMu.Unlock()
				if done {
					break // the batch has been applied (the filler's own reads are in it)
				}
			}
			s.policyMu.Lock()
			var bad []string
			est := map[int]uint{}
			for _, k := range []int{A, B} {
				if _, resident := s.shards[func() int { _, i := s.index(k); return i }()].hashmap[k]; !resident {
					continue // evicted by the extra insertion: its reads are stale too
				}
				e := s.policy.sketch.Estimate(s.hasher.Hash(k))
				est[k] = e
				want := uint(1 + reads[k])
				if want > 15 {
					want = 15
				}
				if e < want {
					bad = append(bad, fmt.Sprintf("key %d: %d reads in the batch + its Set, sketch estimate %d", k, reads[k], e))
				}
			}
			s.policyMu.Unlock()
			rp := map[string]any{"reads": seq, "removal": how}
			if len(bad) > 0 {
				res.Violate("delivered-read-not-applied", "batch-with-stale-read:"+how, fmt.Sprintf("reads %v, then key %d left the cache (%s), then the stripe was filled and drained: %s", seq, X, how, strings.Join(bad, "; ")), len(seq), rp)
			}
			res.Outcome(fmt.Sprint(how, seq, est))
			res.Executions++
			res.Completed++
			if res.Executions <= 2 {
				res.Sample(map[string]any{"reads": fmt.Sprint(seq), "removal": how, "estimates": fmt.Sprint(est)})
			}
			s.Close()
		}
	}
}
