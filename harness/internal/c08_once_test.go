//go:build verif && vplain

package internal

import (
	"fmt"
	"io"
	"strings"
	"testing"

	"github.com/Yiling-J/theine-go/internal/vrt/vh"
)

// C08, "every event it delivers corresponds to one real hit and is delivered once" - seen from the POLICY's side and
// across the other API calls that touch the read buffers or the policy (SaveCache, Wait, writes, size views, Range).
//
// Enumeration (sequential, one stripe, the real ring of 16 slots): every sequence of up to `len` actions over
//   gA gB      a hit on the resident key A / B
//   save       Store.Persist into io.Discard
//   wait       Store.Wait
//   new        Set of a fresh key (NEW event)
//   upd        Set of A again, same cost (UPDATE event)
//   del        Delete of a resident key that is never read
//   views      Len, EstimatedSize, Stats, Range
// followed by hits on a filler key F until the stripe has been drained (F's estimate rises) and a final Wait.
// Oracle, evaluated white-box under the policy lock after EVERY action and at the end: the sketch estimate of A and B
// never exceeds 1 (its insertion) + the number of real hits so far, capped at 15 (no invented, no duplicated event);
// at the end it EQUALS that number (sequentially, with one stripe, nothing may be lost either: every drained batch is
// applied). A, B, F and the other keys are chosen so that their sketch counters are pairwise disjoint (checked on a
// scratch sketch of the same geometry), and a run records far fewer than the 640 additions an aging reset needs.

func c08oKeys(n int) []int {
	// greedy choice of keys whose 4 counters are pairwise disjoint in a sketch of the store's initial geometry
	s := NewStore(&StoreOptions[int, int]{MaxSize: 100})
	defer s.Close()
	var keys []int
	var hs []uint64
	for k := 1; k < 4000 && len(keys) < n; k++ {
		h := s.hasher.Hash(k)
		ok := true
		for _, o := range hs {
			sk := NewCountMinSketch()
			for i := 0; i < 15; i++ {
				sk.Add(o)
			}
			if sk.Estimate(h) != 0 {
				ok = false
				break
			}
			sk2 := NewCountMinSketch()
			for i := 0; i < 15; i++ {
				sk2.Add(h)
			}
			if sk2.Estimate(o) != 0 {
				ok = false
				break
			}
		}
		if ok {
			keys = append(keys, k)
			hs = append(hs, h)
		}
	}
	return keys
}

func TestVerif_C08Once(t *testing.T) {
	env := vh.Env()
	res := vh.NewResult("C08", "EX-ENUM", env)
	defer res.Write()
	maxLen := env.Int("len", 5)
	res.Bounds["max_actions"] = maxLen
	acts := []string{"gA", "gB", "save", "wait", "new", "upd", "del", "views"}
	// pool=1: entry pool on and a cache of 3 entries, so that "new" evicts and the evicted entry OBJECT is handed to the next
	// fresh key while reads of its previous key may still sit in the stripe. A delivered read must then not be credited to
	// the object's new key: an entry whose key was never read is never promoted to the protected region.
	pool := env.Int("pool", 0) == 1
	maxSize := int64(100)
	if pool {
		acts = []string{"gA", "gB", "wait", "new", "upd"}
		maxSize = 3
	}
	res.Bounds["entry_pool"] = pool
	keys := c08oKeys(4 + maxLen)
	if len(keys) < 4+maxLen {
		res.Error = "could not find keys with disjoint sketch counters"
		return
	}
	A, B, F, D := keys[0], keys[1], keys[2], keys[3]
	fresh := keys[4:]
	total := 1
	for i := 0; i < maxLen; i++ {
		total *= len(acts)
	}
	only := -1
	if env.Replay != "" {
		var rp struct{ N, Len int }
		if err := vh.LoadReplay(env.Replay, &rp); err != nil || rp.Len != maxLen {
			res.Error = fmt.Sprintf("replay artefact unusable (len %d vs %d): %v", rp.Len, maxLen, err)
			return
		}
		only = rp.N
	}
	for n := 0; n < total; n++ {
		if only >= 0 && n != only || only < 0 && n%env.NShards != env.Shard {
			continue
		}
		if res.Executions%256 == 0 && env.Expired() {
			res.Cap("deadline")
			break
		}
		seq := make([]string, maxLen)
		for i, x := 0, n; i < maxLen; i++ {
			seq[i] = acts[x%len(acts)]
			x /= len(acts)
		}
		StripedBufferSize = 1
		s := NewStore(&StoreOptions[int, int]{MaxSize: maxSize, EntryPool: pool})
		for _, k := range []int{A, B, F, D} {
			if pool && k == D {
				continue
			}
			s.Set(k, k, 1, 0)
		}
		s.Wait()
		hits := map[int]int{}
		extraSets := map[int]int{} // pool variant: a Set of an evicted key inserts it anew, which records one more addition
		nfresh := 0
		var bad []string
		check := func(when string, exact bool) {
			s.policyMu.Lock()
			for _, k := range []int{A, B} {
				e := int(s.policy.sketch.Estimate(s.hasher.Hash(k)))
				want := 1 + hits[k] + extraSets[k]
				if want > 15 {
					want = 15
				}
				if e > want {
					bad = append(bad, fmt.Sprintf("over:%s: key %d has %d real hits (+1 insertion), sketch estimate %d", when, k, hits[k], e))
				} else if exact && e < want {
					bad = append(bad, fmt.Sprintf("under:%s: key %d has %d real hits (+1 insertion), sketch estimate %d after the stripe was drained", when, k, hits[k], e))
				}
			}
			s.policyMu.Unlock()
		}
		get := func(k int) {
			if _, ok := s.Get(k); ok {
				hits[k]++
			}
		}
		for i, a := range seq {
			switch a {
			case "gA":
				get(A)
			case "gB":
				get(B)
			case "save":
				if err := s.Persist(1, io.Discard); err != nil {
					res.Error = "Persist: " + err.Error()
					return
				}
			case "wait":
				s.Wait()
			case "new":
				s.Set(fresh[nfresh], 0, 1, 0)
				nfresh++
			case "upd":
				s.Set(A, 100+i, 1, 0)
				if pool {
					extraSets[A]++
				}
			case "del":
				s.Delete(D)
			case "views":
				_ = s.Len()
				_ = s.EstimatedSize()
				_ = s.Stats()
				s.Range(func(k, v int) bool { return true })
			}
			check(fmt.Sprintf("after action %d (%s)", i, a), false)
		}
		// fill the ring until it drains: F's own hits are part of the batch
		for i := 0; i < 64; i++ {
			get(F)
			s.policyMu.Lock()
			done := s.policy.sketch.Estimate(s.hasher.Hash(F)) >= 2
			s.policyMu.Unlock()
			if done {
				break
			}
		}
		s.Wait()
		check("at the end", !pool) // under eviction pressure (pool variant) a key may have left and come back: only the upper bound applies
		if pool {
			s.policyMu.Lock()
			for _, sh := range s.shards {
				for k, e := range sh.hashmap {
					if hits[k] == 0 && e.flag.IsProtected() {
						bad = append(bad, fmt.Sprintf("over:at the end: key %d was never read, yet its entry sits in the protected region (a read of the entry object's previous key was credited to it)", k))
					}
				}
			}
			s.policyMu.Unlock()
		}
		if len(bad) > 0 {
			clause, sig := "event-delivered-twice-or-invented", "estimate-above-real-hits"
			if strings.HasPrefix(bad[0], "under:") {
				clause, sig = "delivered-read-not-applied", "sequential-drain-lost-reads"
			}
			for _, a := range seq {
				if a == "save" && strings.HasPrefix(bad[0], "over:") {
					sig += ":after-save"
					break
				}
			}
			res.Violate(clause, sig, fmt.Sprintf("actions %v, then the stripe was filled and drained: %s", seq, strings.Join(bad, "; ")), len(seq), map[string]any{"n": n, "len": maxLen})
		}
		s.policyMu.Lock()
		res.Outcome(fmt.Sprint(hits[A], hits[B], s.policy.sketch.Estimate(s.hasher.Hash(A)), s.policy.sketch.Estimate(s.hasher.Hash(B)), s.policy.hitsInSample))
		s.policyMu.Unlock()
		res.Executions++
		res.Completed++
		if res.Executions <= 2 {
			res.Sample(map[string]any{"actions": strings.Join(seq, " "), "hits": fmt.Sprint(hits)})
		}
		s.Close()
	}
}
