//go:build verif && vsched

package internal

import (
	"bytes"
	"fmt"
	"strings"
	"testing"

	"github.com/Yiling-J/theine-go/internal/vrt"
	"github.com/Yiling-J/theine-go/internal/vrt/vh"
)

// C08 (B3) — store level. One read stripe (StripedBufferSize=1), `capacity` rewritten to 2, the atomics of
// buffer.go are scheduling points (rbmutex.go / counter.go coarse). 2-3 clients hit one resident key through
// Store.Get (or LoadingStore.Get) while somebody else keeps policyMu for a while: either a plain holder
// thread (standing for SaveCache / a slow removal listener) or the real maintenance goroutine working on a
// concurrent Set. After everybody returned, a sequential tail of 2×capacity+2 further hits must raise the
// key's sketch estimate ("further hits on a key again improve its standing with the policy"), and the
// estimate never exceeds the number of real hits (+1 for the Set): no invented / duplicated read events.

type c08sCfg struct {
	name    string
	gets    []int // hits per client
	holder  bool  // a thread doing policyMu.Lock; yield; Unlock
	writer  bool  // a client doing Set(other key) -> maintenance takes policyMu
	loading bool  // hits go through LoadingStore.Get
	hybrid  bool  // a secondary tier is attached and the hits go through the hybrid lookup (Store.GetWithSecodary)
	recover bool  // a thread running LoadCache (Store.Recover) of a stream saved by this store while it was empty: it holds policyMu
}

type c08sRun struct {
	h          *hStore
	hash       uint64
	hits       int
	finished   int
	want       int
	head, tail uint64
	free       bool
	slots      []uint64 // 1 = occupied
	est0, est1 uint
	tailHits   int
	loads      int
	saved      []byte
	recErr     string
}

func c08sBody(cfg c08sCfg) (*c08sRun, func()) {
	r := &c08sRun{}
	return r, func() {
		key, other := 0, 0
		get := func() bool {
			if cfg.loading {
				_, err := r.h.ls.Get(nil, key)
				return err == nil
			}
			if cfg.hybrid {
				_, ok, err := r.h.s.GetWithSecodary(key)
				return ok && err == nil
			}
			_, ok := r.h.s.Get(key)
			return ok
		}
		vrt.NoBranch(func() {
			o := hOpts{MaxSize: 10, Stripes: 1, ChanSize: 4, BufSize: 1}
			if cfg.loading {
				o.Loader = func(k int) (Loaded[int], error) { r.loads++; return Loaded[int]{Value: k, Cost: 1}, nil }
			}
			if cfg.hybrid {
				o.Secondary, o.Workers, o.Prob = newHySec("", false, func() int { return 0 }), 1, 1
			}
			r.h = newHStore(o)
			same, _ := sameShardKeys(r.h.s, 2)
			key, other = same[0], same[1]
			_, used := r.h.s.index(key)
			for i, sh := range r.h.s.shards {
				if i != used {
					sh.mu.rw.Quiet = true
				}
			}
			r.hash, _ = r.h.s.index(key)
		})
		settle()
		vrt.NoBranch(func() {
			if cfg.recover {
				var buf bytes.Buffer
				if err := r.h.s.Persist(1, &buf); err != nil {
					r.recErr = "Persist: " + err.Error()
				}
				r.saved = buf.Bytes()
			}
			r.h.s.Set(key, 1, 1, 0)
			r.h.s.Wait()
		})
		for ci, n := range cfg.gets {
			ci, n := ci, n
			r.want++
			vrt.GoNamed(fmt.Sprintf("client%d", ci), func() {
				for i := 0; i < n; i++ {
					if get() {
						r.hits++
					}
				}
				r.finished++
			})
		}
		if cfg.holder {
			r.want++
			vrt.GoNamed("holder", func() {
				r.h.s.policyMu.Lock()
				vrt.Yield("hold", "policyMu")
				r.h.s.policyMu.Unlock()
				r.finished++
			})
		}
		if cfg.recover {
			r.want++
			vrt.GoNamed("loadcache", func() {
				if err := r.h.s.Recover(1, bytes.NewReader(r.saved)); err != nil {
					r.recErr = "Recover: " + err.Error()
				}
				r.finished++
			})
		}
		if cfg.writer {
			r.want++
			vrt.GoNamed("writer", func() {
				r.h.s.Set(other, 2, 1, 0)
				r.finished++
			})
		}
		vrt.WaitIdle()
		if r.finished != r.want {
			return
		}
		vrt.NoBranch(func() {
			r.h.s.Wait()
			b := r.h.s.stripedBuffer[0]
			vrt.Quiet(func() {
				r.head, r.tail, r.free = b.head.Load(), b.tail.Load(), b.returned != nil
				for i := range b.buffer {
					if b.buffer[i] != nil {
						r.slots = append(r.slots, 1)
					} else {
						r.slots = append(r.slots, 0)
					}
				}
				r.est0 = r.h.s.policy.sketch.Estimate(r.hash)
			})
			for i := 0; i < 2*capacity+2; i++ {
				if get() {
					r.tailHits++
				}
			}
			vrt.Quiet(func() { r.est1 = r.h.s.policy.sketch.Estimate(r.hash) })
		})
	}
}

func c08sCfgs() []c08sCfg {
	return []c08sCfg{
		{name: "S1-2x2-holder", gets: []int{2, 2}, holder: true},
		{name: "S2-2x3-holder", gets: []int{3, 3}, holder: true},
		{name: "S3-2x2-writer", gets: []int{2, 2}, writer: true},
		{name: "S4-3x2-holder", gets: []int{2, 2, 2}, holder: true},
		{name: "S5-loading-2x2-holder", gets: []int{2, 2}, holder: true, loading: true},
		{name: "S6-2x3-writer", gets: []int{3, 3}, writer: true},
		{name: "S7-2x2-loadcache", gets: []int{2, 2}, recover: true},
		{name: "S8-hybrid-2x2-holder", gets: []int{2, 2}, holder: true, hybrid: true},
		{name: "S8L-hybrid-loading-2x2-holder", gets: []int{2, 2}, holder: true, hybrid: true, loading: true},
	}
}

func TestVerif_C08Store(t *testing.T) {
	env := vh.Env()
	res := vh.NewResult("C08/store", "E1-ICB", env)
	defer res.Write()
	res.Bounds["capacity"] = capacity
	for _, cfg := range c08sCfgs() {
		if d := env.Params["driver"]; d != cfg.name {
			continue
		}
		cfg := cfg
		total := 0
		for _, n := range cfg.gets {
			total += n
		}
		res.Bounds["hits_per_client"] = fmt.Sprint(cfg.gets)
		e1Run(res, env, e1Opts{P: env.Int("P", 2), D: -1, Iterative: true, MaxSteps: 20000},
			func() (*c08sRun, func()) { return c08sBody(cfg) },
			func(r *c08sRun, x *vrt.Sched, cost int) {
				rp := map[string]any{"driver": cfg.name, "choices": x.Choices()}
				if x.ErrKind != "" {
					res.Violate(x.ErrKind, firstLine(x.Err), cfg.name+": "+x.Err, cost, rp)
					return
				}
				if r.finished != r.want {
					res.Violate("deadlock", strings.Join(stuckNow("client", "holder", "writer", "loadcache"), ","), fmt.Sprintf("%s: %d of %d threads finished", cfg.name, r.finished, r.want), cost, rp)
					return
				}
				if r.recErr != "" {
					res.Violate("driver", "loadcache-failed", cfg.name+": "+r.recErr, cost, rp)
					return
				}
				state := fmt.Sprintf("stripe head=%d tail=%d token-free=%v occupied-slots=%v", r.head, r.tail, r.free, r.slots)
				if r.hits != total || r.tailHits != 2*capacity+2 || r.loads != 0 {
					res.Violate("driver", "get-missed", fmt.Sprintf("%s: %d of %d concurrent and %d of %d tail Gets hit (loader ran %d times): the driver's key must stay resident", cfg.name, r.hits, total, r.tailHits, 2*capacity+2, r.loads), cost, rp)
					return
				}
				// one Set + every real hit: the sketch counts of a single key cannot legitimately exceed this
				if int(r.est0) > 1+total || int(r.est1) > 1+total+r.tailHits {
					res.Violate("invented", "estimate-exceeds-real-hits", fmt.Sprintf("%s: sketch estimate %d after %d hits (+1 Set), %d after %d more", cfg.name, r.est0, total, r.est1, r.tailHits), cost, rp)
				}
				if r.est1 <= r.est0 && r.est0 < 15 {
					sig := c08WedgeSig(r.head, r.tail, r.free, r.slots)
					res.Violate("wedge", sig, fmt.Sprintf("%s (capacity %d, one stripe): after all clients returned the %s; %d further sequential hits on the key left its sketch estimate at %d (was %d): later hits no longer reach the policy. Schedule (%d points): %s",
						cfg.name, capacity, state, r.tailHits, r.est1, r.est0, len(x.Trace), c08sSched(x)), cost, rp)
				}
				res.Outcome(fmt.Sprintf("%s|size%d,free%v|est%d->%d", cfg.name, r.tail-r.head, r.free, r.est0, r.est1))
				if res.NOutcomes() <= 2 {
					res.Sample(map[string]any{"driver": cfg.name, "stripe": state, "estimate_before_tail": r.est0, "estimate_after_tail": r.est1, "schedule_len": len(x.Trace)})
				}
			})
		if res.Error != "" {
			return
		}
	}
}

// c08sSched renders the schedule as runs of (thread name × steps).
func c08sSched(x *vrt.Sched) string {
	var s []string
	last, n := -1, 0
	flush := func() {
		if n > 0 && last >= 0 && last < len(x.Threads) {
			s = append(s, fmt.Sprintf("%s×%d", x.Threads[last].Name, n))
		}
	}
	for _, p := range x.Trace {
		if p.Next != last {
			flush()
			last, n = p.Next, 0
		}
		n++
	}
	flush()
	if len(s) > 40 {
		s = append(s[:40], "…")
	}
	return strings.Join(s, " ")
}
