//go:build verif && vsched

package internal

import (
	"fmt"
	"strings"
	"testing"
	"unsafe"

	"github.com/Yiling-J/theine-go/internal/vrt"
	"github.com/Yiling-J/theine-go/internal/vrt/vh"
)

// C08 — read events keep reaching the policy; the lossy buffer never invents or wedges.
//
// (B1) Component, E1-SK: the REAL Buffer with `capacity` rewritten (2, thorough also 4), every atomic of
//      buffer.go a scheduling point, unbounded preemptions, search closed by state-key pruning. 2-3 threads
//      each do n Adds of items with unique ids; whoever is handed a batch does `hold(); Free()` exactly as
//      Store.Get does (hold = one scheduling point standing for drainRead waiting for the policy lock).
// (B2) Component at the real capacity (16), E1-ICB: ring prefilled sequentially to tail=capacity-1, then
//      A `Add; hold; Free` ‖ B `Add×(capacity+1)`.
// (B3) Store level (c08_store_test.go part below): Get hits from 2-3 clients on one stripe while another thread
//      keeps policyMu for a while; afterwards further hits must raise the key's sketch estimate.
//
// Oracle: (i) every delivered item was added (no invention), (ii) no id is delivered twice, (iii) at most
// one thread holds the batch at a time and the batch does not change while held, (iv) NO WEDGE: from every
// terminal state a sequential tail of 2×capacity+2 further Adds (Free after any batch) yields a batch.

const c08IDBase = 100 // ids of the concurrent phase are c08IDBase*(thread+1)+i; tail ids start at 9000

type c08Run struct {
	b        *Buffer[int, int]
	added    map[uint64]bool
	got      map[uint64]int
	holders  int
	finished int
	logs     [][]string // per thread: one observation per Add
	bad      [][2]string
	// terminal observations (filled by the main thread)
	head, tail uint64
	free       bool
	slots      []uint64
	tailGot    int
	tailLog    []string
}

func c08Slot(p unsafe.Pointer) uint64 {
	if p == nil {
		return 0
	}
	return (*ReadBufItem[int, int])(p).hash
}

func c08IDs(items []ReadBufItem[int, int]) []uint64 {
	ids := make([]uint64, len(items))
	for i := range items {
		ids[i] = items[i].hash
	}
	return ids
}

// c08Key renders ALL shared state of the component plus the harness's observations. Runs in quiet mode.
func c08Key(r *c08Run) string {
	b := r.b
	var s strings.Builder
	fmt.Fprintf(&s, "h%d,t%d,f%v|", b.head.Load(), b.tail.Load(), b.returned != nil)
	for i := range b.buffer {
		fmt.Fprintf(&s, "%d,", c08Slot(b.buffer[i]))
	}
	pb := (*PolicyBuffers[int, int])(b.policyBuffers)
	fmt.Fprintf(&s, "|pb%v|H%d,F%d|", c08IDs(pb.Returned), r.holders, r.finished)
	for _, l := range r.logs {
		s.WriteString(strings.Join(l, ";"))
		s.WriteByte('/')
	}
	fmt.Fprintf(&s, "|bad%d", len(r.bad))
	return s.String()
}

func (r *c08Run) violate(clause, sig string) { r.bad = append(r.bad, [2]string{clause, sig}) }

// take records a batch handed to a caller (i, ii) and returns its ids.
func (r *c08Run) take(pb *PolicyBuffers[int, int]) []uint64 {
	ids := c08IDs(pb.Returned)
	if len(ids) > capacity {
		r.violate("batch-size", "batch-larger-than-capacity")
	}
	for _, id := range ids {
		if !r.added[id] {
			r.violate("invented", "delivered-id-never-added")
		}
		r.got[id]++
		if r.got[id] == 2 {
			r.violate("duplicate", "id-delivered-twice")
		}
	}
	return ids
}

// add is what Store.Get does with one hit: Add, and if handed a batch: drainRead (hold) then Free.
func (r *c08Run) add(ti int, id uint64, hold func()) string {
	r.added[id] = true
	pb := r.b.Add(ReadBufItem[int, int]{hash: id})
	if pb == nil {
		return "-"
	}
	if r.holders > 0 {
		r.violate("token", "two-holders")
	}
	r.holders++
	ids := r.take(pb)
	hold()
	if now := c08IDs(pb.Returned); fmt.Sprint(now) != fmt.Sprint(ids) {
		r.violate("token", "batch-changed-while-held")
	}
	r.b.Free()
	r.holders-- // nothing can run between the token store inside Free and this line
	return fmt.Sprint(ids)
}

// epilogue: terminal snapshot and the sequential tail (iv). Main thread, nothing else can run.
func (r *c08Run) epilogue() {
	vrt.Quiet(func() {
		b := r.b
		r.head, r.tail, r.free = b.head.Load(), b.tail.Load(), b.returned != nil
		for i := range b.buffer {
			r.slots = append(r.slots, c08Slot(b.buffer[i]))
		}
		for i := 0; i < 2*capacity+2; i++ {
			o := r.add(-1, uint64(9000+i), func() {})
			r.tailLog = append(r.tailLog, o)
			if o != "-" {
				r.tailGot++
			}
		}
	})
}

type c08Cfg struct {
	name string
	per  []int // adds per thread
	pre  int   // sequential prefill (B2)
	// B2: thread 0 is the late drainer, its script is fixed by per[0]
}

func c08Body(cfg c08Cfg) (*c08Run, func()) {
	r := &c08Run{added: map[uint64]bool{}, got: map[uint64]int{}, logs: make([][]string, len(cfg.per))}
	return r, func() {
		vrt.NoBranch(func() {
			r.b = NewBuffer[int, int]()
			for i := 0; i < cfg.pre; i++ {
				if o := r.add(-1, uint64(50+i), func() {}); o != "-" {
					r.violate("prefill", "unexpected-batch-in-prefill")
				}
			}
		})
		for ti, n := range cfg.per {
			ti, n := ti, n
			vrt.GoNamed(fmt.Sprintf("t%d", ti), func() {
				for i := 0; i < n; i++ {
					vrt.BeginOp(i)
					o := r.add(ti, uint64(c08IDBase*(ti+1)+i), func() { vrt.Yield("hold", "") })
					r.logs[ti] = append(r.logs[ti], o)
				}
				r.finished++
			})
		}
		vrt.WaitIdle()
		if r.finished == len(cfg.per) {
			r.epilogue()
		}
	}
}

func c08Check(res *vh.Result, cfg c08Cfg) func(r *c08Run, x *vrt.Sched, cost int) {
	return func(r *c08Run, x *vrt.Sched, cost int) {
		rp := map[string]any{"driver": cfg.name, "choices": x.Choices()}
		hist := func() string {
			var s []string
			for ti, l := range r.logs {
				s = append(s, fmt.Sprintf("t%d:%s", ti, strings.Join(l, " ")))
			}
			return strings.Join(s, " | ")
		}
		if x.ErrKind != "" {
			res.Violate(x.ErrKind, firstLine(x.Err), cfg.name+": "+x.Err+"\n"+hist(), cost, rp)
			return
		}
		if r.finished != len(cfg.per) {
			res.Violate("deadlock", "thread-never-finished", fmt.Sprintf("%s: %d of %d threads finished; %v", cfg.name, r.finished, len(cfg.per), stuckNow("t")), cost, rp)
			return
		}
		state := fmt.Sprintf("head=%d tail=%d token-free=%v slots=%v", r.head, r.tail, r.free, r.slots)
		for _, b := range r.bad {
			res.Violate(b[0], b[1], fmt.Sprintf("%s: %s; per-thread results of Add (\"-\" = nil, [..] = ids of the batch): %s; terminal %s; tail %v",
				cfg.name, b[1], hist(), state, r.tailLog), cost, rp)
		}
		if r.tailGot == 0 {
			sig := c08WedgeSig(r.head, r.tail, r.free, r.slots)
			res.Violate("wedge", sig, fmt.Sprintf("%s (capacity %d): after all threads returned the buffer is %s; a sequential tail of %d further Adds (Free after any batch) delivered no batch: %v. Per-thread results of Add: %s. Schedule (%d points): %s",
				cfg.name, capacity, state, 2*capacity+2, r.tailLog, hist(), len(x.Trace), c08sSched(x)), cost, rp)
		}
		// outcome: what each thread observed (ids are symmetric enough as they are) + terminal fullness
		delivered := 0
		for _, n := range r.got {
			delivered += n
		}
		res.Outcome(fmt.Sprintf("%s|%s|size%d,free%v,tail%d", cfg.name, hist(), r.tail-r.head, r.free, r.tailGot))
		if res.NOutcomes() <= 2 {
			res.Sample(map[string]any{"driver": cfg.name, "adds_results": hist(), "terminal": state, "delivered": delivered, "tail": r.tailLog, "schedule_len": len(x.Trace)})
		}
	}
}

// c08WedgeSig classifies a terminal state from which no batch is ever delivered again.
//
//	full-ring-with-free-token : every slot claimed and published, nobody holds the batch, nobody will drain
//	full-ring-drained-slots   : the counters say full but slots are empty (head not advanced after a drain)
//	ring-overfull             : more claims than slots
//	token-never-returned      : the batch was never handed back
func c08WedgeSig(head, tail uint64, free bool, slots []uint64) string {
	occupied := 0
	for _, id := range slots {
		if id != 0 {
			occupied++
		}
	}
	switch {
	case !free:
		return "token-never-returned"
	case tail-head > capacity:
		return "ring-overfull"
	case tail-head == capacity && occupied == len(slots):
		return "full-ring-with-free-token"
	case tail-head == capacity:
		return "full-ring-drained-slots"
	}
	return "other"
}

func c08Cfgs() []c08Cfg {
	return []c08Cfg{
		// B1: per-thread adds ≤ capacity+1
		{name: "2x2", per: []int{2, 2}},
		{name: "2x3", per: []int{3, 3}},
		{name: "3x2", per: []int{2, 2, 2}},
		{name: "3x3", per: []int{3, 3, 3}},
		{name: "2x4", per: []int{4, 4}},
		{name: "2x5", per: []int{5, 5}},
		{name: "3-322", per: []int{3, 2, 2}},
		{name: "3-221", per: []int{2, 2, 1}},
		{name: "3-311", per: []int{3, 1, 1}},
		{name: "3-332", per: []int{3, 3, 2}},
		// B2: prefilled ring, late Free
		{name: "late-free", per: []int{1, capacity + 1}, pre: capacity - 1},
	}
}

func TestVerif_C08Buffer(t *testing.T) {
	env := vh.Env()
	res := vh.NewResult("C08/buffer", "E1-SK", env)
	defer res.Write()
	res.Bounds["capacity"] = capacity
	for _, cfg := range c08Cfgs() {
		if d := env.Params["driver"]; d != cfg.name {
			continue
		}
		cfg := cfg
		o := e1Opts{P: -1, D: -1, SK: true, MaxSteps: 20000, KeyFn: func(run any) string { return c08Key(run.(*c08Run)) }}
		if p := env.Int("P", -1); p >= 0 {
			// E1-ICB: stateless, iterative preemption bound
			o = e1Opts{P: p, D: -1, Iterative: true, MaxSteps: 20000}
			res.Engine = "E1-ICB"
		}
		res.Bounds["threads"] = len(cfg.per)
		res.Bounds["adds_per_thread"] = fmt.Sprint(cfg.per)
		e1Run(res, env, o, func() (*c08Run, func()) { return c08Body(cfg) }, c08Check(res, cfg))
		if res.Error != "" {
			return
		}
	}
}
