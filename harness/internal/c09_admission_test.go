//go:build verif && vplain

package internal

import (
	"encoding/binary"
	"fmt"
	"hash/fnv"
	"math"
	"strconv"
	"strings"
	"sync"
	"sync/atomic"
	"testing"
	"time"
	"unsafe"

	"github.com/Yiling-J/theine-go/internal/hasher"
	"github.com/Yiling-J/theine-go/internal/vrt/vh"
)

// C09 part 1 — the deterministic core of "frequently read entries survive one-off insertions".
//
// Engine E2-BFS: explicit-state breadth-first search over operation sequences on the REAL Store
// (un-instrumented build, white-box, driven synchronously). A state is never cloned:
// successor = fresh NewStore + start program + warm-up + replay of the history + one more operation.
//
// How the store is driven
//   insert   s.Set(k,k,1,0) of a key that was never used before, then s.Wait(): the NEW event has gone
//            through the real maintenance goroutine (sinkWrite -> sketch.Add -> policy.Set -> EvictEntries).
//   read     mode "flush": the real s.Get(h) (one stripe: StripedBufferSize=1) puts the hit into the real
//            ring; the harness then delivers it the way persistence_test.go of the repository does:
//            s.drainRead(stripe.items()); stripe.Clear()  -> real drainRead -> real policy.Access.
//            mode "getpath": nothing is flushed by the harness; a "burst" is 32 real Gets (round robin over
//            the hot set) and events reach the policy only when the real Buffer.Add hands out a full ring.
//   warm-up  every hot key is Set (Wait) and then read Warm (>=3) times, round robin.
//
// Observation hook (no change to the code under test): the store is built with the public option
// StringKeyFunc; the function returns the 8 raw bytes of the int key — exactly the bytes the default
// hasher feeds to xxh3 (asserted against hasher.NewHasher[int](nil) for every key used) — and logs the call.
// TinyLfu.admit hashes (victim, candidate) and removeEntry hashes the evicted key right before the
// removal listener runs, so the log tells which comparison evictFromMain made and who lost it. From the
// estimates of the two keys the harness knows whether admit reached its random coin
// (candidate estimate >= 6 and <= victim estimate); a plain build cannot control xruntime.Fastrand.
//
// Oracle (after every operation, also inside start programs and the warm-up): every hot key is in its
// shard map and linked in the policy; every Get of a hot key is a hit with the stored value.
//
// Start programs (param start=, steps joined by '+', run after the warm-up with the oracle switched on):
//   age<k>      [white-box] sketch.Additions = SampleSize-k: the k-th successful Add from here ages the sketch
//   cl<h>:<m>   [white-box] hitsInSample=h, missesInSample=m (h+m=641 > SampleSize), then one delivered hot read:
//               the real Access runs climb()+resizeWindow() on that sample
//   ph<r>:<i>   real traffic only: r delivered hot reads (round robin; getpath mode: r bursts) evenly interleaved
//               with i one-off inserts
//   wedge=1     before the warm-up the single stripe is put into the state C08 reports after concurrent use
//               (head=16, tail=32, 16 published slots, drain token free); the slots hold reads of an entry that
//               was deleted afterwards, so a repaired Buffer.Add that drains the ring delivers nothing stale.
//
// Canonical state (param canon=):
//   exact  region lists with concrete keys, the whole sketch table, Additions, capacities, sample counters,
//          hr/step/amount, number of one-off keys used (hot keys 1..|H|, one-off keys 1000,1001,...: real
//          counter collisions included). No assumption.
//   role   region lists of (hot|one-off, estimate) — identities dropped — plus the scalars above. Exact under the
//          precondition, checked at every start state, that hot keys, resident keys and the next fresh keys have
//          pairwise disjoint sketch counters and fresh keys have estimate 0 (keys searched with the real
//          indexOf/rehash); then the policy's behaviour depends on role, position and estimate only.
//
// tail=<B>: every newly visited state is additionally extended by B consecutive inserts (oracle after each):
// the family "any history up to the depth bound, then an insert burst" beyond the BFS depth.

const (
	c09OpInsert = 255
	c09OpBurst  = 254
	c09BurstLen = 32
	c09OldKey   = 900001
)

type c09Cfg struct {
	Max       int    `json:"max"`
	H         int    `json:"h"`
	Warm      int    `json:"warm"`
	Depth     int    `json:"depth"`
	Mode      string `json:"mode"`  // flush | getpath
	Canon     string `json:"canon"` // exact | role
	Start     string `json:"start"` // start program after the warm-up: steps joined by '+': age<k> cl<h>:<m> ph<reads>:<inserts>
	Wedge     bool   `json:"wedge"` // before the warm-up: the single read stripe is put into the wedged state of C08
	Tail      int    `json:"tail"`  // every visited state is also extended by up to Tail consecutive inserts
	Split     int    `json:"split"`
	MaxStates int    `json:"maxstates"`
}

type c09Ev struct {
	kind byte // 'H' hash call, 'E' eviction notification
	key  int
}

type c09Cmp struct {
	cand, vict, evicted int
	ce, ve              uint
	direct              bool // evicted without a comparison
}

type c09Fail struct {
	clause, sig, detail string
}

type c09Sys struct {
	cfg      *c09Cfg
	s        *Store[int, int]
	hot      []int
	hotIdx   map[int]int
	oneNext  int
	logOn    bool
	mu       sync.Mutex
	log      []c09Ev
	infra    string
	fail     *c09Fail
	coinNote string
	// description of the last operation (for outcomes)
	lastOut string
	nset    int // hot keys Set so far (warm-up)
	w0      uint
	trace   []string // readable op list of the whole run (start program condensed)
}

var (
	c09Clean    []int
	c09RefHash  = hasher.NewHasher[int](nil)
	c09Progress atomic.Int64
)

func c09Raw(k int) string {
	var b [8]byte
	binary.LittleEndian.PutUint64(b[:], uint64(k))
	return string(b[:])
}

// c09FindClean selects keys whose four sketch counters (64-word table) are pairwise disjoint, with the real indexOf/rehash.
func c09FindClean(n int) error {
	if len(c09Clean) >= n {
		return nil
	}
	c09Clean = nil
	sk := NewCountMinSketch()
	used := map[[2]uint]bool{}
	for k := 1; len(c09Clean) < n && k < 2000000; k++ {
		h := c09RefHash.Hash(k)
		block := (h & uint64(sk.BlockMask)) << 3
		hc := rehash(h)
		var mine [4][2]uint
		ok := true
		for o := 0; o < 4; o++ {
			i, off := sk.indexOf(hc, block, uint8(o))
			mine[o] = [2]uint{i, off}
			if used[mine[o]] {
				ok = false
			}
		}
		if !ok {
			continue
		}
		for _, m := range mine {
			used[m] = true
		}
		c09Clean = append(c09Clean, k)
	}
	if len(c09Clean) < n {
		return fmt.Errorf("only %d keys with disjoint sketch counters found", len(c09Clean))
	}
	return nil
}

func (y *c09Sys) oneKey(i int) int {
	if y.cfg.Canon == "role" {
		return c09Clean[8+i]
	}
	return 1000 + i
}

func c09New(cfg *c09Cfg) (*c09Sys, error) {
	WriteChanSize, WriteBufferSize, StripedBufferSize = 64, 128, 1
	y := &c09Sys{cfg: cfg, hotIdx: map[int]int{}}
	for i := 0; i < cfg.H; i++ {
		k := i + 1
		if cfg.Canon == "role" {
			k = c09Clean[i]
		}
		y.hot = append(y.hot, k)
		y.hotIdx[k] = i
	}
	y.s = NewStore(&StoreOptions[int, int]{
		MaxSize: int64(cfg.Max),
		StringKeyFunc: func(k int) string {
			if y.logOn {
				y.mu.Lock()
				y.log = append(y.log, c09Ev{'H', k})
				y.mu.Unlock()
			}
			return c09Raw(k)
		},
		Listener: func(k, v int, r RemoveReason) {
			y.mu.Lock()
			y.log = append(y.log, c09Ev{'E', k})
			y.mu.Unlock()
			if r != EVICTED && k != c09OldKey {
				y.infra = fmt.Sprintf("listener reason %d for key %d", r, k)
			}
		},
	})
	y.w0 = y.s.policy.window.capacity
	if y.s.hasher.Hash(12345) != c09RefHash.Hash(12345) {
		return nil, fmt.Errorf("the logging StringKeyFunc does not reproduce the default hash")
	}
	return y, nil
}

func (y *c09Sys) close() { y.s.Close() }

func (y *c09Sys) role(k int) string {
	if i, ok := y.hotIdx[k]; ok {
		return "h" + strconv.Itoa(i+1)
	}
	return "x"
}

func (y *c09Sys) isHot(k int) bool { _, ok := y.hotIdx[k]; return ok }

func (y *c09Sys) est(k int) uint {
	return y.s.policy.sketch.Estimate(y.s.hasher.Hash(k))
}

// where returns the region of key k ("W","P","T") or "-" when the policy does not hold it. policyMu held by caller or quiescent.
func (y *c09Sys) where(k int) string {
	_, idx := y.s.index(k)
	sh := y.s.shards[idx]
	tk := sh.mu.RLock()
	e := sh.hashmap[k]
	sh.mu.RUnlock(tk)
	if e == nil || e.meta.prev == nil || e.flag.IsRemoved() {
		return "-"
	}
	switch {
	case e.flag.IsWindow():
		return "W"
	case e.flag.IsProbation():
		return "P"
	case e.flag.IsProtected():
		return "T"
	}
	return "?"
}

func (y *c09Sys) startClass() string {
	var c []string
	switch {
	case y.cfg.Wedge:
		c = append(c, "wedged-stripe")
	case y.cfg.Mode == "getpath":
		c = append(c, "healthy-stripe-getpath")
	}
	if strings.Contains(y.cfg.Start, "age") {
		c = append(c, "sketch-aged")
	}
	if strings.Contains(y.cfg.Start, "cl") {
		c = append(c, "climbed")
	}
	if strings.Contains(y.cfg.Start, "ph") {
		c = append(c, "traffic")
	}
	if len(c) == 0 {
		c = append(c, "fresh")
	}
	s := strings.Join(c, "+")
	p := y.s.policy
	if p.window.capacity > y.w0 {
		s += "/window-grown"
		if int(p.slru.protected.capacity) < y.cfg.H {
			s += "/protected<|H|"
		}
	}
	return s
}

// render: readable policy state. Quiescent store only.
func (y *c09Sys) render() string {
	y.s.policyMu.Lock()
	defer y.s.policyMu.Unlock()
	p := y.s.policy
	var b strings.Builder
	for _, l := range []*List[int, int]{p.window, p.slru.probation, p.slru.protected} {
		switch l.listType {
		case LIST_WINDOW:
			fmt.Fprintf(&b, "window(cap %d)[", l.capacity)
		case LIST_PROBATION:
			b.WriteString(" probation[")
		case LIST_PROTECTED:
			fmt.Fprintf(&b, " protected(cap %d)[", l.capacity)
		}
		first := true
		for e := l.Front(); e != nil; e = e.Next(l.listType) {
			if !first {
				b.WriteByte(' ')
			}
			first = false
			if y.isHot(e.key) {
				fmt.Fprintf(&b, "%s:%d", y.role(e.key), y.est(e.key))
			} else {
				fmt.Fprintf(&b, "x%d:%d", e.key, y.est(e.key))
			}
		}
		b.WriteString("]")
	}
	fmt.Fprintf(&b, " size=%d/%d additions=%d/%d sample=%d+%d step=%.3g", p.weightedSize, p.capacity, p.sketch.Additions, p.sketch.SampleSize, p.hitsInSample, p.missesInSample, p.step)
	return b.String()
}

// canon: canonical state for deduplication (128 bit).
func (y *c09Sys) canon() [16]byte {
	y.s.policyMu.Lock()
	defer y.s.policyMu.Unlock()
	p := y.s.policy
	h := fnv.New128a()
	var buf [16]byte
	w := func(vs ...uint64) {
		for _, v := range vs {
			binary.LittleEndian.PutUint64(buf[:8], v)
			h.Write(buf[:8])
		}
	}
	role := y.cfg.Canon == "role"
	for _, l := range []*List[int, int]{p.window, p.slru.probation, p.slru.protected} {
		for e := l.Front(); e != nil; e = e.Next(l.listType) {
			switch {
			case role && y.isHot(e.key):
				w(1, uint64(y.est(e.key)))
			case role:
				w(2, uint64(y.est(e.key)))
			default:
				w(3, uint64(e.key), uint64(e.policyWeight))
			}
		}
		w(0xffff, uint64(l.capacity), uint64(l.len))
	}
	w(uint64(p.weightedSize), p.hitsInSample, p.missesInSample, uint64(math.Float32bits(p.hr)), uint64(math.Float32bits(p.step)), uint64(int64(p.amount)),
		uint64(p.sketch.Additions), uint64(p.sketch.SampleSize), uint64(len(p.sketch.Table)))
	if !role {
		for _, t := range p.sketch.Table {
			w(t)
		}
		w(uint64(y.oneNext))
	}
	if y.cfg.Mode == "getpath" {
		b := y.s.stripedBuffer[0]
		n := 0
		for i := range b.buffer {
			if atomic.LoadPointer(&b.buffer[i]) != nil {
				n++
			}
		}
		free := uint64(0)
		if atomic.LoadPointer(&b.returned) != nil {
			free = 1
		}
		w(b.tail.Load()-b.head.Load(), b.head.Load()&mask, uint64(n), free)
	}
	copy(buf[:], h.Sum(nil))
	return buf
}

func (y *c09Sys) beginOp() {
	y.mu.Lock()
	y.log = y.log[:0]
	y.mu.Unlock()
	y.logOn = true
}

func (y *c09Sys) endOp() []c09Ev {
	y.logOn = false
	y.mu.Lock()
	defer y.mu.Unlock()
	return append([]c09Ev(nil), y.log...)
}

func (y *c09Sys) setFail(clause, sig, detail string) {
	if y.fail == nil {
		y.fail = &c09Fail{clause, sig, detail}
	}
}

// checkHot: residency clause of the oracle.
func (y *c09Sys) checkHot(after string, cmps []c09Cmp) {
	for _, h := range y.hot[:y.nset] {
		if y.where(h) != "-" {
			continue
		}
		sig := fmt.Sprintf("start=%s cmp=unknown", y.startClass())
		why := "no eviction of it was logged in this operation"
		for _, c := range cmps {
			if c.evicted != h {
				continue
			}
			if c.direct {
				sig = fmt.Sprintf("start=%s cmp=none(direct)", y.startClass())
				why = "evicted without a frequency comparison"
				break
			}
			rel := "cand>vict"
			if c.ce == c.ve {
				rel = "cand=vict"
			} else if c.ce < c.ve {
				rel = "cand<vict"
			}
			if c.ce <= c.ve && c.ce >= ADMIT_HASHDOS_THRESHOLD {
				rel += ",coin"
			}
			which := "victim"
			if c.evicted == c.cand {
				which = "candidate"
			}
			kind := func(k int) string {
				if y.isHot(k) {
					return "hot"
				}
				return "oneoff"
			}
			sig = fmt.Sprintf("start=%s cmp=%s-vs-%s est=%s evicted=%s", y.startClass(), kind(c.cand), kind(c.vict), rel, which)
			if y.isHot(c.cand) && y.isHot(c.vict) {
				// either result of the comparison (and of the coin) evicts a hot key
				sig = fmt.Sprintf("start=%s cmp=hot-vs-hot", y.startClass())
			}
			why = fmt.Sprintf("evictFromMain compared candidate %s (estimate %d) with victim %s (estimate %d) and evicted the %s", y.name(c.cand), c.ce, y.name(c.vict), c.ve, which)
		}
		y.setFail("hot-evicted", sig, fmt.Sprintf("hot key %s is no longer resident after %s: %s", y.role(h), after, why))
		return
	}
}

func (y *c09Sys) name(k int) string {
	if y.isHot(k) {
		return y.role(k)
	}
	return "one-off x" + strconv.Itoa(k)
}

// parse the hash/eviction log of one insert.
func (y *c09Sys) parse(newKey int, ev []c09Ev) []c09Cmp {
	var out []c09Cmp
	i := 0
	if len(ev) == 0 || ev[0].kind != 'H' || ev[0].key != newKey {
		y.infra = fmt.Sprintf("log of insert %d does not start with its index() call: %v", newKey, ev)
		return nil
	}
	i = 1
	for i < len(ev) {
		switch {
		case i+3 < len(ev) && ev[i].kind == 'H' && ev[i+1].kind == 'H' && ev[i+2].kind == 'H' && ev[i+3].kind == 'E' &&
			ev[i+2].key == ev[i+3].key && (ev[i+2].key == ev[i].key || ev[i+2].key == ev[i+1].key):
			out = append(out, c09Cmp{vict: ev[i].key, cand: ev[i+1].key, evicted: ev[i+2].key})
			i += 4
		case i+1 < len(ev) && ev[i].kind == 'H' && ev[i+1].kind == 'E' && ev[i].key == ev[i+1].key:
			out = append(out, c09Cmp{evicted: ev[i].key, direct: true})
			i += 2
		default:
			y.infra = fmt.Sprintf("unrecognised hash/eviction log of insert %d at %d: %v", newKey, i, ev)
			return out
		}
	}
	for j := range out {
		if !out[j].direct {
			out[j].ce, out[j].ve = y.est(out[j].cand), y.est(out[j].vict)
		}
	}
	return out
}

func (y *c09Sys) insert() {
	k := y.oneKey(y.oneNext)
	y.oneNext++
	p := y.s.policy
	addBefore, sampleBefore, wcapBefore := p.sketch.Additions, p.hitsInSample+p.missesInSample, p.window.capacity
	y.beginOp()
	ok := y.s.Set(k, k, 1, 0)
	y.s.Wait()
	ev := y.endOp()
	c09Progress.Add(1)
	if !ok {
		y.infra = fmt.Sprintf("Set(%d) returned false", k)
		return
	}
	if c09RefHash.Hash(k) != y.s.hasher.Hash(k) {
		y.infra = "hash hook differs from the default hasher"
	}
	cmps := y.parse(k, ev)
	out := "x"
	for _, c := range cmps {
		if c.direct {
			out += " direct:" + y.kind(c.evicted)
			continue
		}
		coin := c.ce <= c.ve && c.ce >= ADMIT_HASHDOS_THRESHOLD
		out += fmt.Sprintf(" %s-vs-%s:%s", y.kind(c.cand), y.kind(c.vict), map[bool]string{true: "cand-out", false: "vict-out"}[c.evicted == c.cand])
		if coin {
			out += "(coin)"
			if !(y.isHot(c.cand) && y.isHot(c.vict)) {
				y.coinNote = fmt.Sprintf("admit reached its random coin with candidate %s (estimate %d) against victim %s (estimate %d)", y.name(c.cand), c.ce, y.name(c.vict), c.ve)
			}
		}
	}
	if len(cmps) == 0 {
		out += " no-eviction"
	}
	if p.sketch.Additions < addBefore {
		out += " reset"
	}
	if p.hitsInSample+p.missesInSample < sampleBefore {
		out += fmt.Sprintf(" climb(w%+d)", int(p.window.capacity)-int(wcapBefore))
	}
	y.lastOut = out
	y.checkHot(fmt.Sprintf("the insertion of fresh key %d", k), cmps)
}

func (y *c09Sys) kind(k int) string {
	if y.isHot(k) {
		return "hot"
	}
	return "oneoff"
}

// get performs the real Get of a hot key and checks the hit clause.
func (y *c09Sys) get(i int) bool {
	k := y.hot[i]
	v, ok := y.s.Get(k)
	if !ok || v != k+7 {
		sig := fmt.Sprintf("start=%s resident=%v", y.startClass(), y.where(k) != "-")
		y.setFail("hot-miss", sig, fmt.Sprintf("Get(%s) = (%d,%v), expected a hit with value %d; region now %q", y.role(k), v, ok, k+7, y.where(k)))
		return false
	}
	return true
}

// read = Get + white-box delivery of the ring content through the real drainRead.
func (y *c09Sys) read(i int) {
	p := y.s.policy
	before := y.where(y.hot[i])
	addBefore, sampleBefore, wcapBefore := p.sketch.Additions, p.hitsInSample+p.missesInSample, p.window.capacity
	hit := y.get(i)
	b := y.s.stripedBuffer[0]
	items := b.items()
	if hit && len(items) != 1 {
		y.infra = fmt.Sprintf("ring holds %d items after one Get", len(items))
	}
	y.s.drainRead(items)
	b.Clear()
	c09Progress.Add(1)
	out := "r " + before + ">" + y.where(y.hot[i])
	if p.sketch.Additions < addBefore {
		out += " reset"
	}
	if p.hitsInSample+p.missesInSample < sampleBefore {
		out += fmt.Sprintf(" climb(w%+d)", int(p.window.capacity)-int(wcapBefore))
	}
	y.lastOut = out
	y.checkHot("a delivered read of "+y.role(y.hot[i]), nil)
}

// burst: 32 real Gets, round robin; nothing is flushed by the harness.
func (y *c09Sys) burst() {
	p := y.s.policy
	y.s.policyMu.Lock()
	hb := p.hitsInSample
	y.s.policyMu.Unlock()
	for j := 0; j < c09BurstLen; j++ {
		if !y.get(j % len(y.hot)) {
			break
		}
	}
	c09Progress.Add(1)
	y.s.policyMu.Lock()
	d := p.hitsInSample - hb
	y.s.policyMu.Unlock()
	y.lastOut = fmt.Sprintf("B delivered=%d", d)
	if p.hitsInSample < hb {
		y.lastOut = "B delivered+climb"
	}
	y.checkHot("a burst of 32 Gets", nil)
}

// wedge puts the single stripe into the state C08 reports after concurrent use: ring full (tail = head+16), every
// slot published, drain token free. The 16 stale items refer to an entry that has been deleted since (flagged
// removed), so a repaired Buffer.Add that drains the full ring hands drainRead 16 items it skips.
func (y *c09Sys) wedge() {
	const old = c09OldKey
	y.s.Set(old, 1, 1, 0)
	y.s.Wait()
	h, idx := y.s.index(old)
	e := y.s.shards[idx].hashmap[old]
	if e == nil {
		y.infra = "wedge: old key not stored"
		return
	}
	y.s.Delete(old)
	y.s.Wait()
	if !e.flag.IsRemoved() {
		y.infra = "wedge: deleted entry not flagged removed"
		return
	}
	b := y.s.stripedBuffer[0]
	for i := 0; i < capacity; i++ {
		atomic.StorePointer(&b.buffer[i], unsafe.Pointer(&ReadBufItem[int, int]{entry: e, hash: h}))
	}
	b.head.Store(capacity)
	b.tail.Store(2 * capacity)
	if atomic.LoadPointer(&b.returned) != b.policyBuffers {
		y.infra = "wedge: drain token not free"
	}
}

func c09IfEmpty(a, b string) string {
	if a == "" {
		return b
	}
	return a
}

func (y *c09Sys) bad() bool { return y.fail != nil || y.infra != "" }

// prepare: wedge (optional), warm-up, start program.
func (y *c09Sys) prepare() {
	if y.cfg.Wedge {
		y.wedge()
		y.trace = append(y.trace, "wedge the stripe (ring full, all slots published, token free)")
	}
	for i, h := range y.hot {
		y.beginOp()
		ok := y.s.Set(h, h+7, 1, 0)
		y.s.Wait()
		ev := y.endOp()
		if !ok {
			y.infra = "Set(hot) returned false"
			return
		}
		y.nset = i + 1
		cmps := y.parse(h, ev)
		y.checkHot(fmt.Sprintf("the warm-up Set of %s", y.role(h)), cmps)
		if y.bad() {
			return
		}
	}
	y.trace = append(y.trace, fmt.Sprintf("Set h1..h%d", len(y.hot)))
	if y.cfg.Mode == "getpath" {
		n := (y.cfg.Warm*len(y.hot) + c09BurstLen - 1) / c09BurstLen
		if n < 1 {
			n = 1
		}
		for j := 0; j < n && !y.bad(); j++ {
			y.burst()
		}
		y.trace = append(y.trace, fmt.Sprintf("%d warm-up bursts of 32 Gets", n))
	} else {
		for r := 0; r < y.cfg.Warm; r++ {
			for i := range y.hot {
				y.read(i)
				if y.bad() {
					return
				}
			}
		}
		y.trace = append(y.trace, fmt.Sprintf("%d delivered reads of every hot key", y.cfg.Warm))
	}
	if y.bad() || y.cfg.Start == "" {
		return
	}
	rr := 0
	for _, st := range strings.Split(y.cfg.Start, "+") {
		if y.bad() {
			return
		}
		switch {
		case strings.HasPrefix(st, "age"):
			k, _ := strconv.Atoi(st[3:])
			y.s.policyMu.Lock()
			sk := y.s.policy.sketch
			sk.Additions = sk.SampleSize - uint(k)
			y.s.policyMu.Unlock()
			y.trace = append(y.trace, fmt.Sprintf("[white-box] sketch.Additions = SampleSize-%d", k))
		case strings.HasPrefix(st, "cl"):
			var h, m uint64
			if _, err := fmt.Sscanf(st, "cl%d:%d", &h, &m); err != nil {
				y.infra = "bad start step " + st
				return
			}
			y.s.policyMu.Lock()
			y.s.policy.hitsInSample, y.s.policy.missesInSample = h, m
			y.s.policyMu.Unlock()
			if y.cfg.Mode == "getpath" {
				y.infra = "cl steps need flush mode"
				return
			}
			y.read(rr % len(y.hot))
			rr++
			y.trace = append(y.trace, fmt.Sprintf("[white-box] sample=%dh/%dm + delivered read -> window cap %d", h, m, y.s.policy.window.capacity))
		case strings.HasPrefix(st, "ph"):
			var r, ins int
			if _, err := fmt.Sscanf(st, "ph%d:%d", &r, &ins); err != nil {
				y.infra = "bad start step " + st
				return
			}
			n := r + ins
			for t := 0; t < n && !y.bad(); t++ {
				if (t+1)*ins/n > t*ins/n {
					y.insert()
				} else if y.cfg.Mode == "getpath" {
					y.burst()
				} else {
					y.read(rr % len(y.hot))
					rr++
				}
			}
			what := "delivered reads"
			if y.cfg.Mode == "getpath" {
				what = "bursts of 32 Gets"
			}
			y.trace = append(y.trace, fmt.Sprintf("traffic %d %s + %d one-off inserts (evenly interleaved)", r, what, ins))
		default:
			y.infra = "bad start step " + st
		}
	}
}

func (y *c09Sys) apply(op uint8) {
	switch op {
	case c09OpInsert:
		y.insert()
	case c09OpBurst:
		y.burst()
	default:
		y.read(int(op))
	}
}

func c09OpName(op uint8) string {
	switch op {
	case c09OpInsert:
		return "insert"
	case c09OpBurst:
		return "burst"
	}
	return "read h" + strconv.Itoa(int(op)+1)
}

func c09OpsString(ops []uint8) string {
	var s []string
	for i := 0; i < len(ops); {
		j := i
		for j < len(ops) && ops[j] == ops[i] {
			j++
		}
		if j-i > 1 {
			s = append(s, fmt.Sprintf("%s x%d", c09OpName(ops[i]), j-i))
		} else {
			s = append(s, c09OpName(ops[i]))
		}
		i = j
	}
	return strings.Join(s, "; ")
}

// c09Exec: fresh store, prepare, replay ops. The caller closes the system.
func c09Exec(cfg *c09Cfg, ops []uint8) (*c09Sys, int, error) {
	y, err := c09New(cfg)
	if err != nil {
		return nil, 0, err
	}
	y.prepare()
	if y.bad() {
		return y, -1, nil
	}
	for i, op := range ops {
		y.apply(op)
		if y.bad() {
			return y, i, nil
		}
	}
	return y, len(ops), nil
}

type c09Replay struct {
	Cfg c09Cfg   `json:"cfg"`
	Ops []string `json:"ops"`
}

func c09OpsEncode(ops []uint8) []string {
	var s []string
	for _, o := range ops {
		s = append(s, c09OpName(o))
	}
	return s
}

func c09OpsDecode(s []string) ([]uint8, error) {
	var ops []uint8
	for _, o := range s {
		switch {
		case o == "insert":
			ops = append(ops, c09OpInsert)
		case o == "burst":
			ops = append(ops, c09OpBurst)
		case strings.HasPrefix(o, "read h"):
			n, err := strconv.Atoi(o[6:])
			if err != nil {
				return nil, err
			}
			ops = append(ops, uint8(n-1))
		default:
			return nil, fmt.Errorf("bad op %q", o)
		}
	}
	return ops, nil
}

func c09Report(res *vh.Result, cfg *c09Cfg, y *c09Sys, ops []uint8, at int) {
	f := y.fail
	upto := ops
	if at >= 0 && at < len(ops) {
		upto = ops[:at+1]
	} else if at < 0 {
		upto = nil
	}
	detail := fmt.Sprintf("MaxSize=%d |H|=%d; %s; then: %s => %s\nstate: %s", cfg.Max, cfg.H, strings.Join(y.trace, "; "), c09OpsString(upto), f.detail, y.render())
	res.Violate(f.clause, f.sig, detail, len(upto), c09Replay{Cfg: *cfg, Ops: c09OpsEncode(upto)})
}

func c09ParseCfg(env vh.EnvT) *c09Cfg {
	cfg := &c09Cfg{
		Max: env.Int("max", 4), H: env.Int("h", 2), Warm: env.Int("warm", 3), Depth: env.Int("depth", 8),
		Mode: env.Params["mode"], Canon: env.Params["canon"], Start: env.Params["start"], Wedge: env.Int("wedge", 0) == 1,
		Tail: env.Int("tail", 0), Split: env.Int("split", 3), MaxStates: env.Int("maxstates", 3000000),
	}
	if cfg.Mode == "" {
		cfg.Mode = "flush"
	}
	if cfg.Canon == "" {
		cfg.Canon = "exact"
	}
	return cfg
}

type c09Node struct {
	ops []uint8
	key [16]byte
}

func TestVerif_C09(t *testing.T) {
	env := vh.Env()
	cfg := c09ParseCfg(env)
	name := env.Params["name"]
	res := vh.NewResult("C09/"+name, "E2-BFS", env)
	defer res.Write()
	if err := c09FindClean(48); err != nil {
		res.Error = err.Error()
		return
	}
	// failsafe: a call into the store that never returns would hang the worker
	stop := make(chan struct{})
	defer close(stop)
	go func() {
		last, idle := int64(-1), 0
		for {
			select {
			case <-stop:
				return
			case <-time.After(time.Second):
			}
			if p := c09Progress.Load(); p == last {
				idle++
			} else {
				last, idle = p, 0
			}
			if idle >= 60 {
				res.Error = "no progress for 60 s inside a store call"
				res.Write()
				panic("c09: stuck")
			}
		}
	}()

	if env.Replay != "" {
		var rp c09Replay
		if err := vh.LoadReplay(env.Replay, &rp); err != nil {
			res.Error = "replay: " + err.Error()
			return
		}
		ops, err := c09OpsDecode(rp.Ops)
		if err != nil {
			res.Error = "replay: " + err.Error()
			return
		}
		y, at, err := c09Exec(&rp.Cfg, ops)
		if err != nil {
			res.Error = err.Error()
			return
		}
		defer y.close()
		res.Executions = 1
		if y.infra != "" {
			res.Error = y.infra
			return
		}
		res.Note("replayed: %s; then %s\nfinal state: %s", strings.Join(y.trace, "; "), c09OpsString(ops), y.render())
		if y.fail != nil {
			c09Report(res, &rp.Cfg, y, ops, at)
		}
		return
	}
	c09BFS(res, env, cfg)
}

func c09Alphabet(cfg *c09Cfg) []uint8 {
	if cfg.Mode == "getpath" {
		return []uint8{c09OpBurst, c09OpInsert}
	}
	var a []uint8
	for i := 0; i < cfg.H; i++ {
		a = append(a, uint8(i))
	}
	return append(a, c09OpInsert)
}

func c09BFS(res *vh.Result, env vh.EnvT, cfg *c09Cfg) {
	res.Bounds["max_size"], res.Bounds["hot"], res.Bounds["warm_reads"], res.Bounds["depth"] = cfg.Max, cfg.H, cfg.Warm, cfg.Depth
	res.Bounds["insert_tail"] = cfg.Tail
	res.Bounds["canonical_state"], res.Bounds["delivery"], res.Bounds["start"] = cfg.Canon, cfg.Mode, c09IfEmpty(cfg.Start, "fresh")
	if cfg.Wedge {
		res.Bounds["start"] = "wedged-stripe+" + c09IfEmpty(cfg.Start, "")
	}
	res.MaxSamples = 3
	alpha := c09Alphabet(cfg)
	// root
	y, at, err := c09Exec(cfg, nil)
	if err != nil {
		res.Error = err.Error()
		return
	}
	res.Executions++
	if y.infra != "" {
		res.Error = y.infra
		y.close()
		return
	}
	if y.fail != nil {
		c09Report(res, cfg, y, nil, at)
		res.Outcome("violation in start program: " + y.fail.sig)
		res.Note("the start program itself violates the oracle; no search from it")
		y.close()
		return
	}
	if cfg.Canon == "role" {
		if msg := y.checkClean(cfg.Depth); msg != "" {
			res.Error = msg
			y.close()
			return
		}
	}
	coinNotes := 0
	said := map[string]bool{}
	capOnce := func(m string) {
		if !said[m] {
			said[m] = true
			res.Cap(m)
		}
	}
	if y.coinNote != "" {
		res.Note("start program: %s", y.coinNote)
		capOnce("admit's random coin was reached inside the start program (not hot-vs-hot): the start state is one of its possible results")
		coinNotes++
	}
	// diverged: a replay that does not reproduce an accepted history. The only source of non-determinism the harness
	// knows is an earlier toss of admit's coin; if none was seen this is an infrastructure error.
	diverged := func(y *c09Sys, ops []uint8, what string) bool {
		if y.coinNote != "" || coinNotes > 0 {
			if !said["div"] {
				said["div"] = true
				res.Note("replay of %q diverged (%s): %s", c09OpsString(ops), what, y.coinNote)
			}
			capOnce("a replay diverged after admit's random coin was reached outside a hot-vs-hot comparison: subtree skipped")
			return true
		}
		res.Error = fmt.Sprintf("replay of an accepted history is not deterministic (%s): %s infra=%q fail=%v", what, c09OpsString(ops), y.infra, y.fail)
		return false
	}
	rootKey := y.canon()
	res.Note("start state: %s; %s", strings.Join(y.trace, "; "), y.render())
	y.close()
	tail := func(ops []uint8) bool {
		if cfg.Tail <= 0 {
			return true
		}
		y, at, err := c09Exec(cfg, ops)
		if err != nil {
			res.Error = err.Error()
			return false
		}
		defer y.close()
		if y.bad() || at != len(ops) {
			return diverged(y, ops, "tail")
		}
		res.Executions++
		full := append(make([]uint8, 0, len(ops)+cfg.Tail), ops...)
		for k := 0; k < cfg.Tail; k++ {
			full = append(full, c09OpInsert)
			y.insert()
			res.Transitions++
			if y.infra != "" {
				res.Error = y.infra + " after " + c09OpsString(full)
				return false
			}
			if y.fail != nil {
				c09Report(res, cfg, y, full, len(full)-1)
				res.Outcome("VIOLATION " + y.fail.clause + " " + y.fail.sig)
				return true
			}
			res.Outcome("tail " + y.lastOut)
		}
		return true
	}
	if !tail(nil) {
		return
	}
	visited := map[[16]byte]struct{}{rootKey: {}}
	frontier := []c09Node{{nil, rootKey}}
	res.States = 1
	completed := 0
	for depth := 1; depth <= cfg.Depth && len(frontier) > 0; depth++ {
		var next []c09Node
		if depth-1 == cfg.Split && env.NShards > 1 {
			var mine []c09Node
			for i, n := range frontier {
				if i%env.NShards == env.Shard {
					mine = append(mine, n)
				}
			}
			frontier = mine
		}
		for _, n := range frontier {
			if !env.Deadline.IsZero() && time.Now().After(env.Deadline) {
				res.Cap(fmt.Sprintf("deadline while expanding depth %d (depth %d completed)", depth, completed))
				res.Bounds["depth_completed"] = completed
				return
			}
			if len(visited) > cfg.MaxStates {
				res.Cap(fmt.Sprintf("state cap %d while expanding depth %d (depth %d completed)", cfg.MaxStates, depth, completed))
				res.Bounds["depth_completed"] = completed
				return
			}
			for _, a := range alpha {
				ops := append(append(make([]uint8, 0, len(n.ops)+1), n.ops...), a)
				y, at, err := c09Exec(cfg, ops[:len(ops)-1])
				if err != nil {
					res.Error = err.Error()
					return
				}
				if y.infra != "" || y.fail != nil || at != len(ops)-1 || y.canon() != n.key {
					ok := diverged(y, n.ops, "history")
					y.close()
					if !ok {
						return
					}
					break
				}
				y.coinNote = ""
				y.apply(a)
				res.Executions++
				res.Transitions++
				if y.infra != "" {
					res.Error = y.infra + " after " + c09OpsString(ops)
					y.close()
					return
				}
				if y.coinNote != "" {
					if coinNotes == 0 {
						res.Note("after %s: %s", c09OpsString(ops), y.coinNote)
						capOnce("admit's random coin was reached with a party that is not hot-vs-hot: only the outcome that happened was followed")
					}
					coinNotes++
					y.coinNote = ""
				}
				if y.fail != nil {
					c09Report(res, cfg, y, ops, len(ops)-1)
					res.Outcome("VIOLATION " + y.fail.clause + " " + y.fail.sig)
					y.close()
					continue // a violating state is not expanded
				}
				res.Outcome(y.lastOut)
				k := y.canon()
				if _, seen := visited[k]; !seen {
					visited[k] = struct{}{}
					res.States++
					next = append(next, c09Node{ops, k})
					if !tail(ops) {
						y.close()
						return
					}
					if depth == cfg.Depth || res.States%50000 == 7 {
						res.Sample(map[string]any{"ops": c09OpsString(ops), "last": y.lastOut, "state": y.render()})
					}
				}
				y.close()
			}
		}
		completed = depth
		res.MaxDepth = depth
		frontier = next
	}
	res.Bounds["depth_completed"] = completed
	res.Bounds["frontier_at_end"] = len(frontier)
	if coinNotes > 0 {
		res.Note("admit's coin reached %d times outside hot-vs-hot comparisons", coinNotes)
	}
}

// checkClean: role mode — hot keys, resident keys and the next fresh keys have pairwise disjoint sketch counters,
// and the fresh keys have estimate 0 (so entries are interchangeable up to role, position and estimate).
func (y *c09Sys) checkClean(depth int) string {
	y.s.policyMu.Lock()
	defer y.s.policyMu.Unlock()
	sk := y.s.policy.sketch
	if len(sk.Table) != 64 {
		return fmt.Sprintf("role mode expects the 64-word sketch, table has %d words", len(sk.Table))
	}
	used := map[[2]uint]int{}
	add := func(k int) string {
		h := y.s.hasher.Hash(k)
		block := (h & uint64(sk.BlockMask)) << 3
		hc := rehash(h)
		for o := 0; o < 4; o++ {
			i, off := sk.indexOf(hc, block, uint8(o))
			if other, ok := used[[2]uint{i, off}]; ok && other != k {
				return fmt.Sprintf("keys %d and %d share a sketch counter", k, other)
			}
			used[[2]uint{i, off}] = k
		}
		return ""
	}
	p := y.s.policy
	for _, l := range []*List[int, int]{p.window, p.slru.probation, p.slru.protected} {
		for e := l.Front(); e != nil; e = e.Next(l.listType) {
			if m := add(e.key); m != "" {
				return m
			}
		}
	}
	for i := 0; i < depth; i++ {
		k := y.oneKey(y.oneNext + i)
		if m := add(k); m != "" {
			return m
		}
		if e := sk.Estimate(y.s.hasher.Hash(k)); e != 0 {
			return fmt.Sprintf("fresh key %d has estimate %d before its insertion", k, e)
		}
	}
	return ""
}
