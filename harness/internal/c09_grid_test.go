//go:build verif && vplain

package internal

import (
	"container/list"
	"context"
	"fmt"
	"math"
	"sort"
	"strings"
	"testing"
	"time"

	"github.com/Yiling-J/theine-go/internal/vrt/vh"
)

// C09 part 2 — SUPPORTING EVIDENCE ONLY (a fixed, fully listed grid; it decides nothing).
//
// The second half of the statement ("hit ratio converges to nearly 100 %", "at least the hit ratio of an LRU
// of the same size on Zipf traces") quantifies over distributions of long traces. Enumeration does not apply.
// This file evaluates a deterministic grid of generated traces on the real store and on a reference LRU written
// here, and alarms only when a cell falls below a threshold that was set well under the value measured on the
// unchanged tree (see c09GridFloor). Every cell is listed in the notes of the result.
//
// Trace generator: splitmix64 (hand written, seeded per cell), Zipf by inverse CDF over a universe of 20*size keys.
// Store protocol (deterministic except for admit's 1/128 coin): one read stripe, cache-aside
// (Get; on a miss Set + Wait), loading store: Get(ctx) and Wait after a load.

type c09Rng struct{ s uint64 }

func (r *c09Rng) next() uint64 {
	r.s += 0x9e3779b97f4a7c15
	z := r.s
	z = (z ^ (z >> 30)) * 0xbf58476d1ce4e5b9
	z = (z ^ (z >> 27)) * 0x94d049bb133111eb
	return z ^ (z >> 31)
}

func (r *c09Rng) float() float64 { return float64(r.next()>>11) / float64(1<<53) }

type c09Zipf struct{ cdf []float64 }

func c09NewZipf(n int, s float64) *c09Zipf {
	z := &c09Zipf{cdf: make([]float64, n)}
	sum := 0.0
	for i := 0; i < n; i++ {
		sum += 1 / math.Pow(float64(i+1), s)
		z.cdf[i] = sum
	}
	for i := range z.cdf {
		z.cdf[i] /= sum
	}
	return z
}

func (z *c09Zipf) draw(r *c09Rng) int {
	u := r.float()
	return sort.SearchFloat64s(z.cdf, u) + 1
}

// reference LRU with a capacity in cost units
type c09LRU struct {
	cap, size int64
	l         *list.List
	m         map[int]*list.Element
}
type c09LRUItem struct {
	k int
	c int64
}

func c09NewLRU(cap int64) *c09LRU {
	return &c09LRU{cap: cap, l: list.New(), m: map[int]*list.Element{}}
}

func (c *c09LRU) get(k int) bool {
	if e, ok := c.m[k]; ok {
		c.l.MoveToFront(e)
		return true
	}
	return false
}

func (c *c09LRU) set(k int, cost int64) {
	if e, ok := c.m[k]; ok {
		c.l.MoveToFront(e)
		return
	}
	if cost > c.cap {
		return
	}
	c.m[k] = c.l.PushFront(c09LRUItem{k, cost})
	c.size += cost
	for c.size > c.cap {
		b := c.l.Back()
		it := b.Value.(c09LRUItem)
		c.l.Remove(b)
		delete(c.m, it.k)
		c.size -= it.c
	}
}

func c09Cost(mixed bool, k int) int64 {
	if !mixed {
		return 1
	}
	return 1 + int64(k%4)
}

type c09Cache struct {
	s     *Store[int, int]
	ls    *LoadingStore[int, int]
	mixed bool
	loads int
}

func c09NewCache(size int, loading, mixed bool) *c09Cache {
	WriteChanSize, WriteBufferSize, StripedBufferSize = 64, 128, 1
	c := &c09Cache{mixed: mixed}
	c.s = NewStore(&StoreOptions[int, int]{MaxSize: int64(size)})
	if loading {
		c.ls = NewLoadingStore(c.s)
		c.ls.Loader(func(ctx context.Context, k int) (Loaded[int], error) {
			c.loads++
			return Loaded[int]{Value: k, Cost: c09Cost(mixed, k)}, nil
		})
	}
	return c
}

// access returns hit/miss for a read-through access of key k.
func (c *c09Cache) access(k int) bool {
	if c.ls != nil {
		before := c.loads
		v, err := c.ls.Get(context.Background(), k)
		if err != nil || v != k {
			panic(fmt.Sprintf("loading Get(%d) = %d, %v", k, v, err))
		}
		if c.loads != before {
			c.s.Wait()
			return false
		}
		return true
	}
	v, ok := c.s.Get(k)
	if ok {
		if v != k {
			panic("wrong value")
		}
		return true
	}
	c.s.Set(k, k, c09Cost(c.mixed, k), 0)
	c.s.Wait()
	return false
}

func (c *c09Cache) insert(k int) {
	if c.ls != nil {
		// a loading cache is filled through Get: the one-off key is requested exactly once
		c.access(k)
		return
	}
	c.s.Set(k, k, c09Cost(c.mixed, k), 0)
	c.s.Wait()
}

type c09Cell struct {
	Workload string  `json:"workload"`
	Size     int     `json:"size"`
	Seed     uint64  `json:"seed"`
	Skew     float64 `json:"skew,omitempty"`
	ReadPct  int     `json:"read_pct,omitempty"`
	Mixed    bool    `json:"mixed_cost"`
	Loading  bool    `json:"loading"`
}

func (c c09Cell) String() string {
	cost, kind := "uniform", "plain"
	if c.Mixed {
		cost = "mixed"
	}
	if c.Loading {
		kind = "loading"
	}
	if c.Workload == "zipf" {
		return fmt.Sprintf("zipf size=%d skew=%.2f cost=%s store=%s seed=%#x", c.Size, c.Skew, cost, kind, c.Seed)
	}
	return fmt.Sprintf("hotset size=%d reads=%d%% cost=%s store=%s seed=%#x", c.Size, c.ReadPct, cost, kind, c.Seed)
}

func (c c09Cell) class() string {
	cost, kind := "uniform", "plain"
	if c.Mixed {
		cost = "mixed"
	}
	if c.Loading {
		kind = "loading"
	}
	if c.Workload == "zipf" {
		return fmt.Sprintf("zipf size=%d skew=%.2f cost=%s store=%s", c.Size, c.Skew, cost, kind)
	}
	return fmt.Sprintf("hotset size=%d reads=%d%% cost=%s store=%s", c.Size, c.ReadPct, cost, kind)
}

var c09Seeds = []uint64{0x5eed0001, 0x5eed0002, 0x5eed0003}
var c09Skews = []float64{0.8, 1.05}

func c09Cells(size int) []c09Cell {
	var cs []c09Cell
	for _, loading := range []bool{false, true} {
		for _, mixed := range []bool{false, true} {
			for _, sk := range c09Skews {
				for _, seed := range c09Seeds {
					cs = append(cs, c09Cell{Workload: "zipf", Size: size, Seed: seed, Skew: sk, Mixed: mixed, Loading: loading})
				}
			}
			for _, rp := range []int{50, 90} {
				for _, seed := range c09Seeds {
					cs = append(cs, c09Cell{Workload: "hotset", Size: size, Seed: seed, ReadPct: rp, Mixed: mixed, Loading: loading})
				}
			}
		}
	}
	return cs
}

// c09RunZipf: 40*size requests; returns hit ratios of the store and the LRU over the whole trace.
func c09RunZipf(c c09Cell) (store, lru float64, n int) {
	rng := &c09Rng{s: c.Seed}
	z := c09NewZipf(20*c.Size, c.Skew)
	cache := c09NewCache(c.Size, c.Loading, c.Mixed)
	defer cache.s.Close()
	ref := c09NewLRU(int64(c.Size))
	n = 40 * c.Size
	hs, hl := 0, 0
	for i := 0; i < n; i++ {
		k := z.draw(rng)
		if cache.access(k) {
			hs++
		}
		if ref.get(k) {
			hl++
		} else {
			ref.set(k, c09Cost(c.Mixed, k))
		}
		c09Progress.Add(1)
	}
	return float64(hs) / float64(n), float64(hl) / float64(n), n
}

// c09RunHot: hot set = half the cache (by cost); requests: ReadPct % reads of a hot key (uniform), the rest
// inserts of keys never used again. Returns the hot hit ratio over the last quarter for store and LRU.
func c09RunHot(c c09Cell) (store, lru float64, n int) {
	rng := &c09Rng{s: c.Seed}
	cache := c09NewCache(c.Size, c.Loading, c.Mixed)
	defer cache.s.Close()
	ref := c09NewLRU(int64(c.Size))
	var hot []int
	var cost int64
	for k := 1; ; k++ {
		if cost+c09Cost(c.Mixed, k) > int64(c.Size)/2 {
			break
		}
		cost += c09Cost(c.Mixed, k)
		hot = append(hot, k)
	}
	n = 40 * c.Size
	next := 1 << 30
	var rs, hs, hl int
	for i := 0; i < n; i++ {
		if int(rng.next()%100) < c.ReadPct {
			k := hot[int(rng.next()%uint64(len(hot)))]
			a := cache.access(k)
			b := ref.get(k)
			if !b {
				ref.set(k, c09Cost(c.Mixed, k))
			}
			if i >= n-n/4 {
				rs++
				if a {
					hs++
				}
				if b {
					hl++
				}
			}
		} else {
			next++
			cache.insert(next)
			ref.set(next, c09Cost(c.Mixed, next))
		}
		c09Progress.Add(1)
	}
	return float64(hs) / float64(rs), float64(hl) / float64(rs), n
}

func TestVerif_C09Grid(t *testing.T) {
	env := vh.Env()
	size := env.Int("size", 50)
	res := vh.NewResult("C09/"+env.Params["name"], "grid", env)
	defer res.Write()
	res.MaxSamples = 2
	cells := c09Cells(size)
	if env.Replay != "" {
		var c c09Cell
		if err := vh.LoadReplay(env.Replay, &c); err != nil {
			res.Error = "replay: " + err.Error()
			return
		}
		cells = []c09Cell{c}
		env.NShards, env.Shard = 1, 0
	}
	res.Bounds["cells"] = len(cells)
	res.Bounds["requests_per_cell"] = 40 * size
	res.Bounds["evidence_only"] = true
	var lines []string
	worst := map[string]float64{}
	for i, c := range cells {
		if i%env.NShards != env.Shard {
			continue
		}
		if !env.Deadline.IsZero() && time.Now().After(env.Deadline) {
			res.Cap("deadline: grid not completed")
			break
		}
		var s, l float64
		var n int
		if c.Workload == "zipf" {
			s, l, n = c09RunZipf(c)
		} else {
			s, l, n = c09RunHot(c)
		}
		res.Executions++
		lines = append(lines, fmt.Sprintf("%s: store=%.4f lru=%.4f (%d requests)", c, s, l, n))
		res.Sample(map[string]any{"cell": c.String(), "store_hit_ratio": s, "lru_hit_ratio": l, "requests": n})
		floor, what := c09GridFloor(c, l)
		key := c.Workload + "/" + what
		if d := s - floor; d < worst[key] || worst[key] == 0 {
			worst[key] = d
		}
		res.Outcome(fmt.Sprintf("%s margin-bucket=%d", c.class(), int((s-floor)*20)))
		if s < floor {
			clause := "grid-below-lru"
			if c.Workload == "hotset" {
				clause = "grid-hot-hit-ratio"
			}
			res.Violate(clause, c.class(), fmt.Sprintf("[fixed grid, supporting evidence] %s: store hit ratio %.4f < floor %.4f (%s); reference LRU %.4f", c, s, floor, what, l), 1, c)
		}
	}
	res.Note("fixed grid (supporting evidence only, decides nothing): %d cells\n%s", len(lines), strings.Join(lines, "\n"))
}

// c09GridFloor: the alarm threshold of a cell. Measured on the unchanged tree (go1.23.5; the only run-to-run
// variation is admit's 1/128 coin, below 0.005):
//
//	zipf   store - lru was positive in all 72 zipf cells: size 50: +0.07 .. +0.13, size 500: +0.049 .. +0.10,
//	       size 5000: +0.035 .. +0.095 (smallest: skew 1.05, uniform cost). Floor = the LRU's hit ratio, i.e. the
//	       statement itself ("at least that of an LRU"); the measured margin is the slack.
//	hotset hot hit ratio over the last quarter was 1.0000 in every cell of sizes 50 and 500 and >= 0.9998 at
//	       size 5000 (reference LRU: 0.65 .. 0.74 at 50 % reads). Floor = 0.99.
func c09GridFloor(c c09Cell, lru float64) (float64, string) {
	if c.Workload == "zipf" {
		return lru, "hit ratio of the reference LRU of the same capacity"
	}
	return 0.99, "0.99 hot hit ratio over the last quarter"
}
