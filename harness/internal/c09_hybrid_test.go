//go:build verif && vplain

package internal

import (
	"context"
	"fmt"
	"runtime"
	"sync"
	"testing"
	"time"

	"github.com/Yiling-J/theine-go/internal/vrt/vh"
)

// C09 on the two-tier kinds (supporting evidence of the grid kind, fully listed cases, nothing sampled): a hot set that
// starts OUTSIDE memory - the cache is already full of keys seen once when the hot keys arrive, so each of them is
// demoted to the secondary tier at first - must become memory-resident by being read: every read that misses memory is
// answered by the secondary tier and re-inserts the key, and the policy has to learn from these reads (memory hits AND
// promotions) that the key is hot. Cases: MaxSize in {50, 100, 200} x hot fraction in {10 %, 25 %, 40 %} x kind in
// {hybrid, hybrid-loading}; 12 rounds of (read each hot key once, insert one never-read key after every read); the cache
// is brought to rest after every call. Oracle: in the last three rounds every hot read is a MEMORY hit (the secondary
// tier's Get is not called), i.e. the hot set is retained where the statement says the hit ratio converges to ~100 %.

type c09hSec struct {
	mu   sync.Mutex
	m    map[int][3]int64
	gets int
}

func (s *c09hSec) Get(k int) (int, int64, int64, bool, error) {
	s.mu.Lock()
	defer s.mu.Unlock()
	s.gets++
	e, ok := s.m[k]
	if !ok {
		return 0, 0, 0, false, nil
	}
	return int(e[0]), e[1], e[2], true, nil
}
func (s *c09hSec) Set(k int, v int, cost int64, expire int64) error {
	s.mu.Lock()
	defer s.mu.Unlock()
	s.m[k] = [3]int64{int64(v), cost, expire}
	return nil
}
func (s *c09hSec) Delete(k int) error {
	s.mu.Lock()
	defer s.mu.Unlock()
	delete(s.m, k)
	return nil
}
func (s *c09hSec) HandleAsyncError(err error) {}
func (s *c09hSec) nget() int {
	s.mu.Lock()
	defer s.mu.Unlock()
	return s.gets
}

func TestVerif_C09Hybrid(t *testing.T) {
	env := vh.Env()
	res := vh.NewResult("C09/hybrid-hot-set", "GRID", env)
	defer res.Write()
	n := 0
	for _, size := range []int{50, 100, 200} {
		for _, pct := range []int{10, 25, 40} {
			for _, kind := range []string{"hybrid", "hybrid-loading"} {
				n++
				if n%env.NShards != env.Shard {
					continue
				}
				sec := &c09hSec{m: map[int][3]int64{}}
				opts := &StoreOptions[int, int]{MaxSize: int64(size), SecondaryCache: sec, Workers: 1, Probability: 1}
				var s *Store[int, int]
				var ls *LoadingStore[int, int]
				if kind == "hybrid" {
					s = NewStore(opts)
				} else {
					ls = NewLoadingStore(NewStore(opts))
					ls.Loader(func(ctx context.Context, k int) (Loaded[int], error) { return Loaded[int]{Value: k, Cost: 1}, nil })
					s = ls.Store
				}
				stuck := false
				rest := func() {
					s.Wait()
					dl := time.Now().Add(120 * time.Second)
					for s.Len() != s.EstimatedSize() || len(s.secondaryCacheBuf) != 0 {
						if time.Now().After(dl) {
							stuck = true
							return
						}
						runtime.Gosched()
					}
				}
				get := func(k int) bool {
					if kind == "hybrid" {
						_, ok, _ := s.GetWithSecodary(k)
						return ok
					}
					_, err := ls.Get(context.Background(), k)
					return err == nil
				}
				next := 100000
				for i := 0; i < size; i++ { // the cache is full of keys seen once
					s.Set(next, next, 1, 0)
					next++
					rest()
				}
				nhot := size * pct / 100
				for h := 0; h < nhot; h++ {
					s.Set(h, h, 1, 0)
					rest()
				}
				const rounds = 12
				missesPerRound := make([]int, rounds)
				for r := 0; r < rounds && !stuck; r++ {
					for h := 0; h < nhot && !stuck; h++ {
						g0 := sec.nget()
						ok := get(h)
						rest()
						if !ok || sec.nget() != g0 {
							missesPerRound[r]++
						}
						s.Set(next, next, 1, 0)
						next++
						rest()
					}
				}
				s.Close()
				desc := fmt.Sprintf("%s cache, MaxSize %d, hot set of %d keys arriving in a cache full of keys seen once, %d rounds of (read every hot key, one never-read insert after each read): hot reads not answered from memory per round %v", kind, size, nhot, rounds, missesPerRound)
				if stuck {
					res.Cap("a case did not come to rest: " + desc)
					continue
				}
				late := missesPerRound[rounds-1] + missesPerRound[rounds-2] + missesPerRound[rounds-3]
				if late != 0 {
					res.Violate("hot-set-not-retained", fmt.Sprintf("two-tier:%s", kind), desc, size, map[string]any{"size": size, "pct": pct, "kind": kind})
				}
				res.Outcome(fmt.Sprintf("%s|%d|%d|%v", kind, size, pct, missesPerRound))
				res.Executions++
				res.Completed++
				if res.Executions <= 2 {
					res.Sample(map[string]any{"case": desc})
				}
			}
		}
	}
}
