//go:build verif && vsched

package internal

import (
	"fmt"
	"strings"
	"testing"

	"github.com/Yiling-J/theine-go/internal/vrt"
	"github.com/Yiling-J/theine-go/internal/vrt/vh"
)

// C10 — every call terminates, also when racing Close; Close is final and leak-free.
//
// Engine E1-ICB: Close lands at every scheduling point of concurrent writers (more in-flight writes
// than the queue holds), readers, Wait callers and loading Gets. Oracle: no schedule leaves a client
// call unfinished; after Close returned, an epilogue on the main thread checks Get misses, Set/Delete
// have no effect (Len 0), loading Get fails with the closed error, Wait returns; finally every thread
// the store spawned must have exited (the scheduler knows each thread's creator).

func c10Check(res *vh.Result, cfg *icCfg) func(r *icRun, x *vrt.Sched, cost int) {
	return func(r *icRun, x *vrt.Sched, cost int) {
		rp := map[string]any{"driver": cfg.Name, "choices": x.Choices()}
		viol := func(clause, sig, d string) {
			res.Violate(clause, sig, cfg.Name+": "+d+"\nhistory: "+r.history(), cost, rp)
		}
		closedRet := 0
		for _, c := range r.calls {
			if c.Op.Kind == "close" && c.Ret != 0 && (closedRet == 0 || c.Ret < closedRet) {
				closedRet = c.Ret
			}
		}
		if len(r.stuck) > 0 || x.ErrKind == "deadlock" {
			// who is parked where
			sig := strings.Join(r.stuck, ",")
			if sig == "" {
				sig = "epilogue:" + c10Where(x)
			}
			viol("call-never-returns", sig, fmt.Sprintf("calls parked forever: %v %s", r.stuck, x.Err))
			return
		}
		for _, c := range r.calls {
			if c.Ret == 0 && !c.Exited {
				viol("call-never-returns", c.Op.Kind, fmt.Sprintf("%s never returned", c.Op))
			}
			if closedRet == 0 || c.Inv < closedRet {
				continue
			}
			// invoked after Close had returned
			switch c.Op.Kind {
			case "get", "hget":
				if c.OK {
					viol("get-hit-after-close", c.Op.Kind, fmt.Sprintf("%s(%d) returned %d after Close", c.Op.Kind, c.Op.K, c.Got))
				}
			case "lget":
				if c.OK || c.Err != ErrCacheClosed.Error() {
					viol("loading-get-after-close", fmt.Sprintf("ok=%v", c.OK), fmt.Sprintf("loading Get(%d) after Close returned (%d,%v,%q), want ErrCacheClosed", c.Op.K, c.Got, c.OK, c.Err))
				}
			case "len":
				if c.N != 0 {
					viol("len-after-close", "len", fmt.Sprintf("Len() = %d after Close (Set/Delete must have no effect)", c.N))
				}
			case "range":
				if len(c.Visited) != 0 {
					viol("range-after-close", "range", fmt.Sprintf("Range visited %v after Close", c.Visited))
				}
			}
		}
		if len(r.leakedAtIdle) > 0 {
			viol("goroutine-leak", "after-close-returned:"+strings.Join(c10Names(r.leakedAtIdle), ","), fmt.Sprintf("store goroutines still alive after Close returned and every client call finished: %v", r.leakedAtIdle))
		}
		if len(r.leaked) > 0 {
			viol("goroutine-leak", strings.Join(c10Names(r.leaked), ","), fmt.Sprintf("store goroutines still alive after Close: %v", r.leaked))
		}
		var obs []string
		for _, c := range r.calls {
			if c.Client >= 0 {
				obs = append(obs, fmt.Sprintf("%d%s%v", c.Client, c.Op.Kind, c.OK))
			}
		}
		res.Outcome(cfg.Name + "|" + strings.Join(obs, ",") + "|" + fmt.Sprint(len(r.final)))
		if res.NOutcomes() <= 2 {
			res.Sample(map[string]any{"driver": cfg.Name, "history": r.history()})
		}
	}
}

func c10Names(l []string) []string {
	var r []string
	seen := map[string]bool{}
	for _, s := range l {
		if i := strings.IndexByte(s, '@'); i >= 0 {
			s = s[i:]
		}
		if !seen[s] {
			seen[s] = true
			r = append(r, s)
		}
	}
	return r
}

func c10Where(x *vrt.Sched) string {
	for _, b := range x.Blocked {
		if strings.HasPrefix(b, "t0(") {
			return b[strings.IndexByte(b, ':')+1:]
		}
	}
	return "?"
}

func c10Drivers() []*icCfg {
	S := func(k int) icOp { return icOp{Kind: "set", K: k, Cost: 1} }
	G := func(k int) icOp { return icOp{Kind: "get", K: k} }
	D := func(k int) icOp { return icOp{Kind: "del", K: k} }
	L := func(k int) icOp { return icOp{Kind: "lget", K: k} }
	C := icOp{Kind: "close"}
	W := icOp{Kind: "wait"}
	q1 := hOpts{MaxSize: 10, ChanSize: 1, BufSize: 1}
	q2 := hOpts{MaxSize: 10, ChanSize: 2, BufSize: 2}
	epi := []icOp{{Kind: "est"}, G(1), S(3), D(1), {Kind: "len"}, {Kind: "range"}, W}
	epiL := []icOp{{Kind: "est"}, G(1), S(3), L(1), {Kind: "len"}, W}
	return []*icCfg{
		{Name: "D1-writers-full-queue", O: q1, Scripts: [][]icOp{{S(1), S(2)}, {S(3)}, {C}}, Post: epi},
		{Name: "D1b-three-writers", O: q1, Scripts: [][]icOp{{S(1)}, {S(2)}, {S(3)}, {C}}, Post: epi},
		// the same for every other call that queues an event: Delete, the hybrid Delete, a load, a promotion from the secondary tier
		{Name: "D1d-deleters-full-queue", O: q1, Pre: []icOp{S(1), S(2), S(3), W}, Scripts: [][]icOp{{D(1), D(2)}, {D(3)}, {C}}, Post: epi},
		{Name: "D1h-hybrid-deleters-full-queue", O: q1, Hy: &hyIcCfg{Workers: 1, Prob: 1}, Pre: []icOp{S(1), S(2), S(3), W},
			Scripts: [][]icOp{{{Kind: "hdel", K: 1}, {Kind: "hdel", K: 2}}, {C}}, Post: []icOp{{Kind: "est"}, G(1), S(3), {Kind: "len"}, W}},
		{Name: "D1L-loaders-full-queue", O: q1, Loading: true, LoadCost: 1, Scripts: [][]icOp{{L(1), L(2)}, {C}}, Post: epiL},
		{Name: "D1p-hybrid-promotions-full-queue", O: hOpts{MaxSize: 1, ChanSize: 1, BufSize: 1}, Hy: &hyIcCfg{Workers: 1, Prob: 1}, Pre: []icOp{S(1), W, S(2), W, S(3), W},
			Scripts: [][]icOp{{{Kind: "hget", K: 1}, {Kind: "hget", K: 2}}, {C}}, Post: []icOp{{Kind: "est"}, G(1), S(3), {Kind: "len"}, W}},
		// the loading flavour of the promotion, with a writer keeping the queue full and no Close to rescue anybody: a promotion
		// that waits for room in the queue must not hold anything the policy goroutine needs to make room
		{Name: "D1pL-hybrid-loading-promotions-full-queue", O: hOpts{MaxSize: 1, ChanSize: 1, BufSize: 1}, Hy: &hyIcCfg{Workers: 1, Prob: 1}, Loading: true, LoadCost: 1, Pre: []icOp{L(1), W, L(2), W, L(3), W},
			Scripts: [][]icOp{{L(1), L(2)}, {S(4), S(5)}}, Post: []icOp{{Kind: "est"}, G(1), {Kind: "len"}, W}},
		{Name: "D2-wait-vs-close", O: q2, Scripts: [][]icOp{{S(1), W}, {C}}, Post: epi},
		{Name: "D2b-close-then-wait", O: q2, Pre: []icOp{S(1)}, Scripts: [][]icOp{{C, W}, {W}}, Post: epi},
		{Name: "D3-readers", O: q2, Pre: []icOp{S(1), S(2)}, Scripts: [][]icOp{{G(1), {Kind: "range"}}, {{Kind: "len"}, D(2)}, {C}}, Post: epi},
		{Name: "D4-loading", O: q2, Loading: true, LoadCost: 1, Scripts: [][]icOp{{L(1)}, {L(1)}, {C}}, Post: epiL},
		// hybrid cache: the demotion workers are store goroutines too
		{Name: "D5-hybrid", O: hOpts{MaxSize: 1, ChanSize: 2, BufSize: 2}, Hy: &hyIcCfg{Workers: 1, Prob: 1}, Scripts: [][]icOp{{S(1), S(2)}, {C}},
			Post: []icOp{{Kind: "est"}, G(1), S(3), {Kind: "len"}, W}},
		{Name: "D5b-hybrid-2workers", O: hOpts{MaxSize: 1, ChanSize: 2, BufSize: 2}, Hy: &hyIcCfg{Workers: 2, Prob: 1}, Scripts: [][]icOp{{S(1), S(2)}, {G(1)}, {C}},
			Post: []icOp{{Kind: "est"}, G(1), S(3), {Kind: "len"}, W}},
		// Close while the policy goroutine still has an eviction / an expiry to perform (it needs the shard lock then)
		{Name: "D7-close-vs-eviction", O: hOpts{MaxSize: 1, ChanSize: 2, BufSize: 2}, Pre: []icOp{S(1)}, Scripts: [][]icOp{{S(2), S(4)}, {C}}, Post: epi},
		{Name: "D8-close-vs-expiry", O: q2, Pre: []icOp{{Kind: "set", K: 1, Cost: 1, TTL: sec}}, Scripts: [][]icOp{{{Kind: "tick", Arg: 2 * sec}, G(1)}, {C}}, Post: epi},
		// Close against the remaining users of the policy lock and of all shard locks: SaveCache, the size views, and the
		// hybrid-only calls (lookup with promotion, delete in both tiers) while a demotion is queued
		{Name: "D9-close-vs-save", O: q2, Pre: []icOp{S(1), S(2)}, Scripts: [][]icOp{{{Kind: "persist"}, S(3)}, {C}}, Post: epi},
		{Name: "D9b-close-vs-views", O: q2, Pre: []icOp{S(1)}, Scripts: [][]icOp{{{Kind: "est"}, {Kind: "stats"}, {Kind: "len"}}, {S(2)}, {C}}, Post: epi},
		{Name: "D10-hybrid-lookup-delete", O: hOpts{MaxSize: 1, ChanSize: 2, BufSize: 2}, Hy: &hyIcCfg{Workers: 1, Prob: 1}, Pre: []icOp{S(1), S(2), W},
			Scripts: [][]icOp{{{Kind: "hget", K: 1}, {Kind: "hdel", K: 1}}, {C}}, Post: []icOp{{Kind: "est"}, G(1), S(3), {Kind: "len"}, W}},
		// a key that lives in the secondary tier only, looked up through the plain hybrid Get after Close has returned
		{Name: "D10d-hybrid-get-after-close", O: hOpts{MaxSize: 1, ChanSize: 2, BufSize: 2}, Hy: &hyIcCfg{Workers: 1, Prob: 1}, Pre: []icOp{S(1), S(2), W},
			Scripts: [][]icOp{{{Kind: "hget", K: 2}}, {C}}, Post: []icOp{{Kind: "hget", K: 1}, {Kind: "est"}, G(1), {Kind: "len"}, W}},
		{Name: "D10b-hybrid-loading", O: hOpts{MaxSize: 1, ChanSize: 2, BufSize: 2}, Hy: &hyIcCfg{Workers: 1, Prob: 1}, Loading: true, LoadCost: 1, Pre: []icOp{L(1), L(2), W},
			Scripts: [][]icOp{{L(1)}, {C}}, Post: []icOp{{Kind: "est"}, G(1), S(3), {Kind: "len"}, W}},
		// "every call terminates" without any Close to rescue a parked caller: concurrent Wait callers with writers and a size poller
		{Name: "D11-no-close-two-waiters", O: q2, Scripts: [][]icOp{{S(1), W}, {S(2), W}, {{Kind: "est"}, G(1)}}, Post: epi},
		// a failing secondary call on the way (scripted: the first Secondary.Delete / the first Secondary.Get fails): the call
		// returns its error, and Close and the calls after it must still return
		{Name: "D10c-hybrid-failed-delete", O: hOpts{MaxSize: 1, ChanSize: 2, BufSize: 2}, Hy: &hyIcCfg{Workers: 1, Prob: 1, Faults: "D1,G1"}, Pre: []icOp{S(1), S(2), W},
			Scripts: [][]icOp{{{Kind: "hdel", K: 1}, {Kind: "hget", K: 2}}, {C}}, Post: []icOp{{Kind: "est"}, G(1), S(3), {Kind: "len"}, W}},
		{Name: "D6-close-close", O: q2, Pre: []icOp{S(1)}, Scripts: [][]icOp{{C}, {C}, {S(2)}}, Post: epi},
	}
}

func TestVerif_C10(t *testing.T) {
	env := vh.Env()
	res := vh.NewResult("C10", "E1-ICB", env)
	defer res.Write()
	for _, cfg := range c10Drivers() {
		if d := env.Params["driver"]; d != "" && d != cfg.Name {
			continue
		}
		cfg.P, cfg.D = env.Int("P", 2), env.Int("D", 1)
		cfg.EndClose = true
		icExplore(res, env, cfg, c10Check(res, cfg))
		if res.Error != "" {
			return
		}
	}
}
