//go:build verif && vplain

package internal

import (
	"bytes"
	"encoding/gob"
	"fmt"
	"runtime"
	"sort"
	"strconv"
	"strings"
	"testing"
	"time"

	"github.com/Yiling-J/theine-go/internal/vrt/vh"
)

// C11 — SaveCache / LoadCache round trip restores the cache faithfully.
//
// Source states: explicit-state BFS over operation sequences on the REAL Store (successor =
// fresh store + replay of the operation list + one more operation, driven synchronously:
// every write is followed by Wait(), every read hit is handed to drainRead, a forced climb
// runs the real climb()+resizeWindow() through policy.Access). States are deduplicated on a
// canonical key (regions in order with key/value/cost/TTL class, region capacities, sketch,
// climber state).
//
// For every source state and every elapsed time E in {0, 5 s before / 5 s after every
// deadline present}: the saved store's clock origin is moved back by E (Recover adopts the
// saved origin, so the loader then sees NowNano = age + E), the real Persist writes a
// bytes.Buffer and the real Recover reads it into a fresh store of every target size.
//
// Oracle: see c11Run.checkOne. No sleeps, no wall-clock oracle: "expired at load time" is
// decided by bracketing Recover between two readings of the loader's own clock; an entry
// whose deadline falls inside the bracket is accepted either way.

var c11TTLs = []time.Duration{0, time.Second, 90 * time.Second, 2 * time.Hour, 48 * time.Hour, 192 * time.Hour}

const c11Margin = int64(5 * time.Second)

type c11Op struct {
	Kind string `json:"op"` // set, get, del, climb-flip, climb-keep
	Key  int    `json:"k"`
	Cost int64  `json:"cost,omitempty"`
	TTL  int    `json:"ttl,omitempty"` // index into c11TTLs
}

func (o c11Op) String() string {
	switch o.Kind {
	case "set":
		if o.TTL != 0 {
			return fmt.Sprintf("SetWithTTL(k%d,cost=%d,ttl=%v)", o.Key, o.Cost, c11TTLs[o.TTL])
		}
		return fmt.Sprintf("Set(k%d,cost=%d)", o.Key, o.Cost)
	case "setmap":
		return fmt.Sprintf("Set(k%d,cost=%d)[map phase only: its event is still queued at save time]", o.Key, o.Cost)
	case "get":
		return fmt.Sprintf("Get(k%d)+drain", o.Key)
	case "del":
		return fmt.Sprintf("Delete(k%d)", o.Key)
	}
	return o.Kind
}

func c11Ops(ops []c11Op) string {
	var s []string
	for _, o := range ops {
		s = append(s, o.String())
	}
	return strings.Join(s, "; ")
}

type c11Cfg struct {
	Name    string  `json:"name"`
	VT      string  `json:"vt"` // int, string, struct, bytes, big
	MaxSize int     `json:"maxsize"`
	NKeys   int     `json:"nkeys"`
	Costs   []int64 `json:"costs"`
	TTLs    []int   `json:"ttls"`
	Alpha   string  `json:"alpha"` // subset of set/get/del/climb
	Depth   int     `json:"depth"`
	Prefix  int     `json:"prefix"` // root state = Set(k_i) for i<Prefix
	AgeS    int64   `json:"age_s"`  // age of the saved cache (its clock origin lies this far in the past)
	Targets []int   `json:"targets"`
}

func c11Ints(s string) []int {
	var r []int
	for _, p := range strings.Split(s, "/") {
		if p == "" {
			continue
		}
		n, err := strconv.Atoi(p)
		if err != nil {
			panic("c11: bad int list " + s)
		}
		r = append(r, n)
	}
	return r
}

func c11ParseCfg(env vh.EnvT) c11Cfg {
	p := env.Params
	get := func(k, d string) string {
		if v, ok := p[k]; ok {
			return v
		}
		return d
	}
	c := c11Cfg{Name: get("name", "adhoc"), VT: get("vt", "int"), Alpha: get("alpha", "set/get/del")}
	c.MaxSize = env.Int("size", 4)
	c.NKeys = env.Int("keys", 3)
	c.Depth = env.Int("depth", 3)
	c.Prefix = env.Int("prefix", 0)
	c.AgeS = int64(env.Int("age", 0))
	for _, x := range c11Ints(get("costs", "1")) {
		c.Costs = append(c.Costs, int64(x))
	}
	c.TTLs = c11Ints(get("ttls", "0"))
	c.Targets = c11Ints(get("targets", ""))
	if len(c.Targets) == 0 {
		for t := c.MaxSize; t >= 1; t-- {
			c.Targets = append(c.Targets, t)
		}
	}
	return c
}

func (c c11Cfg) alphabet() []c11Op {
	var a []c11Op
	has := func(k string) bool { return strings.Contains("/"+c.Alpha+"/", "/"+k+"/") }
	if has("set") {
		for k := 0; k < c.NKeys; k++ {
			for _, co := range c.Costs {
				for _, t := range c.TTLs {
					a = append(a, c11Op{Kind: "set", Key: k, Cost: co, TTL: t})
				}
			}
		}
	}
	if has("get") {
		for k := 0; k < c.NKeys; k++ {
			a = append(a, c11Op{Kind: "get", Key: k})
		}
	}
	if has("del") {
		for k := 0; k < c.NKeys; k++ {
			a = append(a, c11Op{Kind: "del", Key: k})
		}
	}
	if has("climb") {
		a = append(a, c11Op{Kind: "climb-flip"}, c11Op{Kind: "climb-keep"})
	}
	if has("setmap") {
		// a non-quiescent save: the map phase of a cost-changing Set has happened, its UPDATE event has not reached the
		// policy (always the last operation before the save: the event is never delivered in this harness)
		for k := 0; k < c.NKeys; k++ {
			for _, co := range c.Costs {
				a = append(a, c11Op{Kind: "setmap", Key: k, Cost: co})
			}
		}
	}
	return a
}

// ---- value / key types ----

type c11Types[K comparable, V any] struct {
	kf  func(int) K
	vf  func(c11Op) V
	veq func(a, b V) bool
	vid func(V) string
}

// value number of a Set: 0 for (key 0, first cost, no TTL) so that the zero value occurs.
func c11ValNo(o c11Op) int { return o.Key*100 + int(o.Cost-1)*10 + o.TTL }

type c11Empty struct{}

const c11BigLen = 3 << 19 // 1.5 MiB

func c11BytesEq(a, b []byte) bool { return bytes.Equal(a, b) } // gob cannot tell nil from empty

// ---- driving the real store ----

func c11New[K comparable, V any](maxsize int) *Store[K, V] {
	StripedBufferSize, WriteChanSize, WriteBufferSize = 1, 8, 8
	s := NewStore(&StoreOptions[K, V]{MaxSize: int64(maxsize)})
	// the 1 s maintenance ticker must not fire behind the oracle's back: stop it (time is driven by hand)
	for {
		s.policyMu.Lock()
		t := s.maintenanceTicker
		if t != nil {
			t.Stop()
		}
		s.policyMu.Unlock()
		if t != nil {
			break
		}
		runtime.Gosched()
	}
	return s
}

// c11Shift moves the store's virtual time forward by d (its clock origin back by d).
func c11Shift[K comparable, V any](s *Store[K, V], d int64) {
	s.timerwheel.clock.Start = s.timerwheel.clock.Start.Add(-time.Duration(d))
}

// c11Tick is what the maintenance ticker does.
func c11Tick[K comparable, V any](s *Store[K, V]) {
	s.policyMu.Lock()
	s.timerwheel.clock.RefreshNowCache()
	s.timerwheel.advance(0, s.removeEntry)
	s.policyMu.Unlock()
}

func (r *c11Run[K, V]) apply(s *Store[K, V], o c11Op) {
	switch o.Kind {
	case "set":
		s.Set(r.ty.kf(o.Key), r.ty.vf(o), o.Cost, c11TTLs[o.TTL])
		s.Wait()
	case "get":
		k := r.ty.kf(o.Key)
		h, idx := s.index(k)
		se, ok := s.getFromShard(k, h, s.shards[idx])
		if ok {
			s.drainRead([]ReadBufItem[K, V]{{entry: se.entry, hash: h}})
		}
	case "setmap":
		k := r.ty.kf(o.Key)
		h, idx := s.index(k)
		if _, ok := s.shards[idx].get(k); ok {
			s.setShard(s.shards[idx], h, k, r.ty.vf(o), o.Cost, 0, false)
		}
	case "del":
		s.Delete(r.ty.kf(o.Key))
		s.Wait()
	case "climb-flip", "climb-keep":
		p := s.policy
		s.policyMu.Lock()
		n := uint64(p.sketch.SampleSize) + 1
		if o.Kind == "climb-flip" { // hit rate fell: reverse the direction
			p.hitsInSample, p.missesInSample, p.hr = 0, n, 1
		} else { // hit rate rose: keep the direction
			p.hitsInSample, p.missesInSample, p.hr = n, 0, 0
		}
		p.Access(ReadBufItem[K, V]{}) // the real trigger: climb() + resizeWindow()
		s.policyMu.Unlock()
	default:
		panic("c11: op " + o.Kind)
	}
}

func (r *c11Run[K, V]) build(ops []c11Op) *Store[K, V] {
	s := c11New[K, V](r.cfg.MaxSize)
	if r.cfg.AgeS > 0 {
		c11Shift(s, r.cfg.AgeS*int64(time.Second))
		c11Tick(s)
	}
	for _, o := range ops {
		r.apply(s, o)
	}
	return s
}

// ---- snapshots ----

type c11E[K comparable, V any] struct {
	k          K
	v          V
	w, pw, exp int64
	freq       uint
	region     int // 0 window, 1 protected, 2 probation
	flags      int8
	ptr        *Entry[K, V]
	lvl, slot  int
	nwheel     int
}

var c11RegName = [3]string{"window", "protected", "probation"}

type c11Snap[K comparable, V any] struct {
	reg       [3][]*c11E[K, V]
	byKey     map[K]*c11E[K, V]
	caps      [3]uint // window capacity, protected capacity, main size
	lens      [3]int64
	counts    [3]int
	weighted  uint
	start     int64
	bad       []string // structural problems found while walking
	mapN      int
	mapCost   int64
	estimated int
}

func (r *c11Run[K, V]) snap(s *Store[K, V]) *c11Snap[K, V] {
	sn := &c11Snap[K, V]{byKey: map[K]*c11E[K, V]{}}
	sn.estimated = s.EstimatedSize()
	s.policyMu.Lock()
	defer s.policyMu.Unlock()
	p := s.policy
	lists := [3]*List[K, V]{p.window, p.slru.protected, p.slru.probation}
	sn.caps = [3]uint{p.window.capacity, p.slru.protected.capacity, p.slru.maxsize}
	sn.weighted = p.weightedSize
	sn.start = s.timerwheel.clock.Start.UnixNano()
	seen := map[*Entry[K, V]]*c11E[K, V]{}
	for ri, l := range lists {
		sn.lens[ri], sn.counts[ri] = l.len, l.count
		n := 0
		for e := l.Front(); e != nil; e = e.Next(l.listType) {
			if n++; n > 100000 {
				sn.bad = append(sn.bad, "cycle in "+c11RegName[ri])
				break
			}
			if _, dup := seen[e]; dup {
				sn.bad = append(sn.bad, fmt.Sprintf("entry %v linked twice", e.key))
				continue
			}
			ce := &c11E[K, V]{k: e.key, v: e.value, w: e.weight.Load(), pw: e.policyWeight, exp: e.expire.Load(),
				freq: p.sketch.Estimate(s.hasher.Hash(e.key)), region: ri, flags: e.flag.Flags, ptr: e, lvl: -1, slot: -1}
			seen[e] = ce
			sn.reg[ri] = append(sn.reg[ri], ce)
			if _, dup := sn.byKey[e.key]; dup {
				sn.bad = append(sn.bad, fmt.Sprintf("key %v tracked twice", e.key))
			}
			sn.byKey[e.key] = ce
		}
	}
	for _, sh := range s.shards {
		for k, e := range sh.hashmap {
			sn.mapN++
			sn.mapCost += e.weight.Load()
			ce := seen[e]
			if ce == nil {
				sn.bad = append(sn.bad, fmt.Sprintf("resident key %v not tracked by the policy", k))
			} else if ce.k != k {
				sn.bad = append(sn.bad, fmt.Sprintf("resident key %v maps to entry of key %v", k, ce.k))
			}
		}
	}
	if sn.mapN != len(seen) {
		sn.bad = append(sn.bad, fmt.Sprintf("%d resident entries but %d tracked by the policy", sn.mapN, len(seen)))
	}
	for li, lv := range s.timerwheel.wheel {
		for si, l := range lv {
			n := 0
			for e := l.Front(); e != nil; e = e.Next(WHEEL_LIST) {
				if n++; n > 100000 {
					sn.bad = append(sn.bad, "cycle in wheel")
					break
				}
				if ce := seen[e]; ce != nil {
					ce.lvl, ce.slot = li, si
					ce.nwheel++
				} else {
					sn.bad = append(sn.bad, fmt.Sprintf("wheel holds untracked entry %v", e.key))
				}
			}
		}
	}
	return sn
}

func c11TTLClass(rem int64) int {
	switch {
	case rem < int64(30*time.Second):
		return 1
	case rem < int64(time.Hour):
		return 2
	case rem < int64(24*time.Hour):
		return 3
	case rem < int64(120*time.Hour):
		return 4
	}
	return 5
}

func (r *c11Run[K, V]) canon(s *Store[K, V], sn *c11Snap[K, V]) string {
	var b strings.Builder
	now := s.timerwheel.clock.NowNano()
	for ri := range sn.reg {
		fmt.Fprintf(&b, "%c[", "WTP"[ri])
		for _, e := range sn.reg[ri] {
			tc := 0
			if e.exp != 0 {
				tc = c11TTLClass(e.exp - now)
			}
			fmt.Fprintf(&b, "%v=%s/%d/%d ", e.k, r.ty.vid(e.v), e.pw, tc)
		}
		b.WriteString("]")
	}
	p := s.policy
	fmt.Fprintf(&b, "cap=%d/%d step=%v hr=%v amt=%d ws=%d sk=%x/%d", sn.caps[0], sn.caps[1], p.step, p.hr, p.amount, sn.weighted,
		vh.Hash(p.sketch.Table), p.sketch.Additions)
	return b.String()
}

func (r *c11Run[K, V]) show(sn *c11Snap[K, V], base int64) string {
	var b strings.Builder
	for ri := range sn.reg {
		if ri == 2 {
			fmt.Fprintf(&b, "probation(main size %d)[", sn.caps[ri])
		} else {
			fmt.Fprintf(&b, "%s(cap %d)[", c11RegName[ri], sn.caps[ri])
		}
		for i, e := range sn.reg[ri] {
			if i > 0 {
				b.WriteString(" ")
			}
			fmt.Fprintf(&b, "%v:c%d", e.k, e.pw)
			if e.exp != 0 {
				fmt.Fprintf(&b, ":in%v", time.Duration(e.exp-base).Round(time.Second))
			}
		}
		b.WriteString("] ")
	}
	return strings.TrimSpace(b.String())
}

// ---- the run ----

type c11Run[K comparable, V any] struct {
	res *vh.Result
	env vh.EnvT
	cfg c11Cfg
	ty  c11Types[K, V]
	// faultNote is appended to violation details while the writer-fault part of checkState is running
	faultNote string
}

type c11Replay struct {
	Cfg      c11Cfg  `json:"cfg"`
	Ops      []c11Op `json:"ops"`
	Target   int     `json:"target"`
	ElapsedS float64 `json:"elapsed_s"`
	Elapsed  int64   `json:"elapsed_ns"`
}

func (r *c11Run[K, V]) violate(clause, sig, what string, ops []c11Op, sn *c11Snap[K, V], target int, elapsed int64, extra int) {
	detail := fmt.Sprintf("%s\n  MaxSize=%d values=%s age=%ds ops: %s\n  saved: %s\n  save -> %v elapsed -> load into MaxSize=%d",
		what+r.faultNote, r.cfg.MaxSize, r.cfg.VT, r.cfg.AgeS, c11Ops(ops), r.show(sn, 0), time.Duration(elapsed), target)
	cost := len(ops)*100 + extra
	r.res.Violate(clause, sig, detail, cost, c11Replay{Cfg: r.cfg, Ops: ops, Target: target, Elapsed: elapsed, ElapsedS: float64(elapsed) / 1e9})
}

// elapsedSet: 0, and for every deadline present 5 s before and 5 s after it.
func (r *c11Run[K, V]) elapsedSet(s *Store[K, V], sn *c11Snap[K, V]) []int64 {
	now := s.timerwheel.clock.NowNano()
	set := map[int64]bool{0: true}
	for ri := range sn.reg {
		for _, e := range sn.reg[ri] {
			if e.exp == 0 {
				continue
			}
			rem := e.exp - now
			// quantise so that entries set a few microseconds apart share their elapsed times
			q := (rem + int64(500*time.Millisecond)) / int64(time.Second) * int64(time.Second)
			if q-c11Margin > 0 {
				set[q-c11Margin] = true
			}
			set[q+c11Margin] = true
		}
	}
	var l []int64
	for e := range set {
		l = append(l, e)
	}
	sort.Slice(l, func(i, j int) bool { return l[i] < l[j] })
	return l
}

func (r *c11Run[K, V]) checkState(ops []c11Op, s *Store[K, V], sn *c11Snap[K, V]) {
	if len(sn.bad) > 0 { // the source state itself must be sane, otherwise the comparison means nothing
		r.res.Outcome("source-state-inconsistent: " + sn.bad[0])
		return
	}
	for _, el := range r.elapsedSet(s, sn) {
		// one stream per elapsed time, loaded into every target size
		stream, savedStart, err := r.persist(s, el)
		if err != nil {
			r.res.Executions++
			r.violate("persist-error", "err="+c11ErrClass(err), "Persist returned "+err.Error(), ops, sn, r.cfg.MaxSize, el, 0)
			continue
		}
		if len(stream) > 1<<20 {
			if nb, _ := r.res.Bounds["max_blocks_in_stream"].(int); c11Blocks(stream) > nb {
				r.res.Bounds["max_blocks_in_stream"] = c11Blocks(stream)
				r.res.Bounds["max_stream_bytes"] = len(stream)
			}
		}
		for _, t := range r.cfg.Targets {
			if t > r.cfg.MaxSize {
				continue
			}
			r.checkOne(ops, sn, t, el, stream, savedStart)
		}
		// writer faults (E3-FAULT on the save side): a SaveCache that fails at its i-th write - for EVERY i - from another,
		// older cache, followed by a save of this one: the second stream must be as faithful as if nothing had happened
		if r.env.Int("wfaults", 0) == 1 && el == 0 {
			cw := &c11FailWriter{failAt: -1}
			_ = s.Persist(0, cw)
			for i := 0; i < cw.n; i++ {
				other := c11New[K, V](r.cfg.MaxSize)
				c11Shift(other, int64(40*24*time.Hour)) // a different clock origin than s
				other.Set(r.ty.kf(0), r.ty.vf(c11Op{Kind: "set", Key: 0, Cost: 1, TTL: 0}), 1, 0)
				other.Set(r.ty.kf(1), r.ty.vf(c11Op{Kind: "set", Key: 1, Cost: 1, TTL: 0}), 1, 0)
				other.Wait()
				for _, victim := range []*Store[K, V]{other, s} {
					fw := &c11FailWriter{failAt: i}
					if err := victim.Persist(0, fw); err == nil && fw.failed {
						r.res.Executions++
						r.violate("write-error-swallowed", fmt.Sprintf("write#%d", i), fmt.Sprintf("the writer failed at its write #%d and Persist returned nil", i), ops, sn, r.cfg.MaxSize, el, 0)
					}
				}
				other.Close()
				stream2, savedStart2, err := r.persist(s, el)
				if err != nil {
					r.res.Executions++
					r.violate("persist-error", "after-failed-save:err="+c11ErrClass(err), "Persist after a failed Persist returned "+err.Error(), ops, sn, r.cfg.MaxSize, el, 0)
					continue
				}
				r.faultNote = fmt.Sprintf(" [after two SaveCache calls (another cache's, this cache's) whose writer failed at write #%d]", i)
				r.checkOne(ops, sn, r.cfg.MaxSize, el, stream2, savedStart2)
				r.faultNote = ""
			}
			r.res.Bounds["writer_fault_positions"] = cw.n
		}
	}
}

// c11FailWriter counts Write calls and fails the failAt-th one (after accepting half of its bytes).
type c11FailWriter struct {
	n, failAt int
	failed    bool
}

func (w *c11FailWriter) Write(p []byte) (int, error) {
	i := w.n
	w.n++
	if i == w.failAt {
		w.failed = true
		return len(p) / 2, fmt.Errorf("c11: injected write failure")
	}
	return len(p), nil
}

// persist saves s as if `elapsed` more time had passed before the load: the clock origin written to the
// stream is moved back by elapsed (Persist consults the clock for nothing else).
func (r *c11Run[K, V]) persist(s *Store[K, V], elapsed int64) ([]byte, int64, error) {
	orig := s.timerwheel.clock.Start
	c11Shift(s, elapsed)
	savedStart := s.timerwheel.clock.Start.UnixNano()
	var buf bytes.Buffer
	err := s.Persist(0, &buf)
	s.timerwheel.clock.Start = orig
	return buf.Bytes(), savedStart, err
}

var c11Dry bool // dry=1: count states only (sizing the bounds)

// c11Blocks counts the outer blocks of a stream (to show that the multi-block case really is one).
func c11Blocks(stream []byte) int {
	dec := gob.NewDecoder(bytes.NewReader(stream))
	n := 0
	for {
		b := &DataBlock[any]{}
		if err := dec.Decode(b); err != nil {
			return n
		}
		n++
	}
}

// checkOne: one save -> elapsed -> load round trip and the oracle.
func (r *c11Run[K, V]) checkOne(ops []c11Op, sn *c11Snap[K, V], target int, elapsed int64, stream []byte, savedStart int64) {
	r.res.Executions++
	bad := func(clause, sig, what string, extra int) {
		r.violate(clause, sig, what, ops, sn, target, elapsed, extra)
	}
	same := target == r.cfg.MaxSize
	tname := "smaller"
	if same {
		tname = "same"
	}

	// ---- load ----
	n := c11New[K, V](target)
	defer n.Close()
	if lage := int64(r.env.Int("lage", 0)); lage > 0 {
		// the loading cache was created lage seconds ago (and has ticked since): its wheel time is ahead of the clock
		// it is about to adopt from a younger saver
		c11Shift(n, lage*int64(time.Second))
		c11Tick(n)
	}
	l0 := time.Since(time.Unix(0, savedStart)).Nanoseconds() // what the loader's clock shows once it adopted the saved origin
	err := n.Recover(0, bytes.NewReader(stream))
	l1 := n.timerwheel.clock.NowNano()
	if err != nil {
		bad("recover-error", "err="+c11ErrClass(err), "Recover returned "+err.Error(), 0)
		return
	}
	if got := n.timerwheel.clock.Start.UnixNano(); got != savedStart {
		bad("clock-origin", "not-adopted", fmt.Sprintf("loader's clock origin %d != saved origin %d", got, savedStart), 0)
		return
	}
	ln := r.snap(n)

	// ---- which saved entries are unexpired at load time ----
	// live: deadline >= l1 (or none); dead: deadline < l0; in between either is right.
	var exp [3][]*c11E[K, V]
	nDead, nAmb := 0, 0
	for ri := range sn.reg {
		for _, e := range sn.reg[ri] {
			switch {
			case e.exp == 0 || e.exp >= l1:
				exp[ri] = append(exp[ri], e)
			case e.exp < l0:
				nDead++
				if le := ln.byKey[e.k]; le != nil {
					bad("expired-loaded", "region="+c11RegName[ri], fmt.Sprintf("key %v expired %v before the load but was restored", e.k, time.Duration(l0-e.exp)), 0)
				}
			default:
				nAmb++
				if ln.byKey[e.k] != nil {
					exp[ri] = append(exp[ri], e)
				}
			}
		}
	}

	// ---- admission model of a fresh store (only used to CLASSIFY losses, never to excuse them) ----
	refused := map[K]bool{}
	{
		var wl, tl, pl int64
		for _, e := range exp[0] {
			if wl < int64(ln.caps[0]) {
				wl += e.pw
			} else {
				refused[e.k] = true
			}
		}
		for _, e := range exp[1] {
			if tl < int64(ln.caps[1]) {
				tl += e.pw
			} else {
				refused[e.k] = true
			}
		}
		for _, e := range exp[2] {
			if tl+pl < int64(ln.caps[2]) {
				pl += e.pw
			} else {
				refused[e.k] = true
			}
		}
	}

	// ---- contents, regions, order ----
	nLost := 0
	for ri := range exp {
		got := ln.reg[ri]
		want := exp[ri]
		if same {
			// every unexpired entry, same region, same order
			gi := 0
			for _, e := range want {
				le := ln.byKey[e.k]
				if le == nil {
					nLost++
					cause := "unexplained"
					if refused[e.k] {
						switch {
						case ri == 2:
							cause = "main-exceeds-fresh-main-size"
						case sn.caps[ri] > ln.caps[ri]:
							cause = "region-capacity-grown-before-save"
						default:
							cause = "region-over-its-capacity-at-save"
						}
					}
					bad("entry-lost", fmt.Sprintf("region=%s cause=%s", c11RegName[ri], cause),
						fmt.Sprintf("unexpired key %v (cost %d) of the saved %s region is absent after loading into the SAME MaxSize; loaded: %s",
							e.k, e.pw, c11RegName[ri], r.show(ln, 0)), 0)
					continue
				}
				if le.region != ri {
					bad("region-moved", fmt.Sprintf("%s->%s", c11RegName[ri], c11RegName[le.region]),
						fmt.Sprintf("key %v saved in %s, loaded in %s", e.k, c11RegName[ri], c11RegName[le.region]), 0)
					continue
				}
				// order: the loaded region, restricted to wanted keys, must list them in the saved order
				for gi < len(got) && got[gi].k != e.k {
					gi++
				}
				if gi == len(got) {
					bad("order", "region="+c11RegName[ri], fmt.Sprintf("recency order of %s changed; loaded: %s", c11RegName[ri], r.show(ln, 0)), 0)
					break
				}
			}
		} else {
			// a prefix (most recently used end) of the saved order
			for i, le := range got {
				if i >= len(want) || want[i].k != le.k {
					bad("prefix", "region="+c11RegName[ri], fmt.Sprintf("loaded %s is not a most-recent-first prefix of the saved region; loaded: %s", c11RegName[ri], r.show(ln, 0)), 0)
					break
				}
			}
		}
	}
	// nothing that was not saved (or not saved as unexpired)
	for ri := range ln.reg {
		for _, le := range ln.reg[ri] {
			se := sn.byKey[le.k]
			if se == nil {
				bad("entry-extra", "region="+c11RegName[ri], fmt.Sprintf("loaded key %v was not in the saved cache", le.k), 0)
				continue
			}
			// field by field
			if !r.ty.veq(se.v, le.v) {
				bad("entry-differs", "field=value", fmt.Sprintf("key %v: value %s saved, %s loaded", le.k, r.ty.vid(se.v), r.ty.vid(le.v)), 0)
			}
			if se.w != le.w || se.pw != le.pw {
				bad("entry-differs", "field=cost", fmt.Sprintf("key %v: cost %d/%d saved, %d/%d loaded", le.k, se.w, se.pw, le.w, le.pw), 0)
			}
			if (se.exp == 0) != (le.exp == 0) || (se.exp != 0 && savedStart+se.exp != ln.start+le.exp) {
				bad("entry-differs", "field=deadline", fmt.Sprintf("key %v: wall-clock deadline %d saved, %d loaded (expire %d/%d)", le.k, savedStart+se.exp, ln.start+le.exp, se.exp, le.exp), 0)
			}
			if same && le.freq < se.freq {
				bad("frequency", "loaded<saved", fmt.Sprintf("key %v: sketch estimate %d saved, %d loaded", le.k, se.freq, le.freq), 0)
			}
		}
	}

	// a save with a cost change still queued: the map-side cost differs from the policy's; the capacity clause and the
	// comparison "resident cost == policy total" speak about drained states only
	pending := false
	for _, e := range sn.byKey {
		if e.w != e.pw {
			pending = true
		}
	}
	// ---- capacity and consistency of the loaded store ----
	if ln.mapCost > int64(target) && !pending {
		// classify: was some entry admitted although its cost exceeded the room left in its region?
		cause := "unexplained"
		var wl, tl, pl int64
		for _, e := range ln.reg[0] {
			if e.pw > int64(ln.caps[0])-wl {
				cause = "entry-admitted-with-cost>room"
			}
			wl += e.pw
		}
		for _, e := range ln.reg[1] {
			if e.pw > int64(ln.caps[1])-tl {
				cause = "entry-admitted-with-cost>room"
			}
			tl += e.pw
		}
		for _, e := range ln.reg[2] {
			if e.pw > int64(ln.caps[2])-tl-pl {
				cause = "entry-admitted-with-cost>room"
			}
			pl += e.pw
		}
		costs := "unit"
		for ri := range ln.reg {
			for _, e := range ln.reg[ri] {
				if e.pw != 1 {
					costs = "mixed"
				}
			}
		}
		// admitting "while the region is below its capacity" can overshoot a capacity by less than one entry's cost;
		// anything beyond that is a different defect than the recorded one (e.g. counting entries against a cost budget)
		{
			var maxc [3]int64
			var sums [3]int64
			for ri := range ln.reg {
				for _, e := range ln.reg[ri] {
					sums[ri] += e.pw
					if e.pw > maxc[ri] {
						maxc[ri] = e.pw
					}
				}
			}
			mainMax := maxc[1]
			if maxc[2] > mainMax {
				mainMax = maxc[2]
			}
			over := func(sum, capacity, maxCost int64) bool { return sum > 0 && sum > capacity+maxCost-1 } // an empty region exceeds nothing
			if over(sums[0], int64(ln.caps[0]), maxc[0]) || over(sums[1], int64(ln.caps[1]), maxc[1]) || over(sums[1]+sums[2], int64(ln.caps[2]), mainMax) {
				cause = "region-beyond-a-one-entry-overshoot"
			}
		}
		bad("capacity", fmt.Sprintf("target=%s cause=%s costs=%s", tname, cause, costs),
			fmt.Sprintf("total cost of resident entries %d > MaxSize %d after load; loaded: %s", ln.mapCost, target, r.show(ln, 0)), int(ln.mapCost))
	}
	for _, b := range ln.bad {
		bad("policy-membership", "target="+tname, b+"; loaded: "+r.show(ln, 0), 0)
	}
	var sum int64
	for ri := range ln.reg {
		var rs int64
		for _, e := range ln.reg[ri] {
			rs += e.pw
			f := Flag{Flags: e.flags}
			in := [3]bool{f.IsWindow(), f.IsProtected(), f.IsProbation()}
			okFlag := in[ri] && !in[(ri+1)%3] && !in[(ri+2)%3]
			if !okFlag || f.IsRemoved() || f.IsDeleted() || f.IsRoot() {
				bad("region-flag", "region="+c11RegName[ri], fmt.Sprintf("key %v in %s carries flags %08b", e.k, c11RegName[ri], uint8(e.flags)), 0)
			}
		}
		if rs != ln.lens[ri] || len(ln.reg[ri]) != ln.counts[ri] {
			bad("size-accounting", "region="+c11RegName[ri], fmt.Sprintf("%s: recorded len/count %d/%d, actual %d/%d", c11RegName[ri], ln.lens[ri], ln.counts[ri], rs, len(ln.reg[ri])), 0)
		}
		sum += rs
	}
	if int64(ln.weighted) != sum || int64(ln.estimated) != sum || (ln.mapCost != sum && !pending) {
		bad("size-accounting", "total", fmt.Sprintf("weightedSize=%d EstimatedSize=%d resident cost=%d sum of policy weights=%d", ln.weighted, ln.estimated, ln.mapCost, sum), 0)
	}
	// every TTL entry is scheduled exactly once, no other entry is
	var soon []*c11E[K, V]
	for ri := range ln.reg {
		for _, e := range ln.reg[ri] {
			want := 0
			if e.exp != 0 {
				want = 1
			}
			if e.nwheel != want {
				bad("wheel-unscheduled", fmt.Sprintf("ttl=%v linked=%d", e.exp != 0, e.nwheel), fmt.Sprintf("key %v (expire %d) is linked %d times in the timer wheel", e.k, e.exp, e.nwheel), 0)
			}
			if e.exp != 0 && e.exp-l1 < int64(55*time.Second) && e.exp >= l1 {
				soon = append(soon, e)
			}
		}
	}

	r.res.Outcome(fmt.Sprintf("%s|W%d/T%d/P%d->W%d/T%d/P%d|dead=%d|lost=%d|ttl=%d|over=%v", tname, len(sn.reg[0]), len(sn.reg[1]), len(sn.reg[2]),
		len(ln.reg[0]), len(ln.reg[1]), len(ln.reg[2]), nDead, nLost, len(soon), ln.mapCost > int64(target)))
	if r.res.Executions%97 == 1 {
		r.res.Sample(map[string]any{"ops": c11Ops(ops), "saved": r.show(sn, 0), "elapsed": time.Duration(elapsed).String(), "target": target, "loaded": r.show(ln, 0)})
	}

	// ---- keyed access: every restored, unexpired entry is found under its key (the snapshot above walks the policy
	// lists and the shard maps; a Get goes through the key's hash and shard, as a user's would) ----
	{
		now := n.timerwheel.clock.NowNano()
		for ri := range ln.reg {
			for _, le := range ln.reg[ri] {
				if le.exp != 0 && le.exp <= now+int64(time.Second) {
					continue
				}
				v, ok := n.Get(le.k)
				if !ok || !r.ty.veq(v, le.v) {
					bad("restored-entry-not-found-by-key", "region="+c11RegName[ri],
						fmt.Sprintf("key %v is resident after the load (region %s, value %s) but Get returns found=%v value %s", le.k, c11RegName[ri], r.ty.vid(le.v), ok, r.ty.vid(v)), 0)
				}
			}
		}
	}

	// ---- later maintenance reclaims what is due ----
	// Entries with < 55 s left belong on the finest wheel level, where the reclaim bound (deadline + one 2^30 ns
	// tick) holds even in the presence of the C04 coarse-level lateness. Drive: the first 1 s tick after the
	// load, then one tick at (latest of those deadlines) + 2^30 ns + 50 ms.
	if len(soon) > 0 {
		var last int64
		for _, e := range soon {
			if e.exp > last {
				last = e.exp
			}
		}
		c11Shift(n, int64(time.Second))
		c11Tick(n)
		now := n.timerwheel.clock.NowNano()
		goal := last + (1 << 30) + int64(50*time.Millisecond)
		if goal > now {
			c11Shift(n, goal-now)
		}
		c11Tick(n)
		now = n.timerwheel.clock.NowNano()
		after := r.snap(n)
		for _, e := range soon {
			if after.byKey[e.k] != nil {
				bad("ttl-reclaim-late", fmt.Sprintf("placed-level=%d proper-level=0", e.lvl),
					fmt.Sprintf("key %v had %v left at load time, was scheduled on wheel level %d slot %d (wheel time %v behind the adopted clock) and is still resident %v after its deadline although maintenance ticked",
						e.k, time.Duration(e.exp-l1).Round(time.Millisecond), e.lvl, e.slot, time.Duration(l0).Round(time.Second), time.Duration(now-e.exp).Round(time.Millisecond)), 0)
			}
		}
		for ri := range ln.reg {
			for _, e := range ln.reg[ri] {
				if (e.exp == 0 || e.exp > now) && after.byKey[e.k] == nil {
					bad("ttl-reclaim-early", "region="+c11RegName[ri], fmt.Sprintf("key %v (expire %d) removed by maintenance at %d", e.k, e.exp, now), 0)
				}
			}
		}
	}
}

func c11ErrClass(err error) string {
	s := err.Error()
	if i := strings.IndexByte(s, ':'); i > 0 {
		s = s[:i]
	}
	if len(s) > 40 {
		s = s[:40]
	}
	return s
}

// explore: BFS over operation lists with canonical-state deduplication.
func (r *c11Run[K, V]) explore() {
	res, env, cfg := r.res, r.env, r.cfg
	alpha := cfg.alphabet()
	res.Bounds["maxsize"] = cfg.MaxSize
	res.Bounds["alphabet"] = len(alpha)
	res.Bounds["targets"] = cfg.Targets
	res.Bounds["age_s"] = cfg.AgeS
	res.Bounds["values"] = cfg.VT

	if env.Replay != "" {
		var rp c11Replay
		if err := vh.LoadReplay(env.Replay, &rp); err != nil {
			res.Error = "replay: " + err.Error()
			return
		}
		r.cfg = rp.Cfg
		s := r.build(rp.Ops)
		sn := r.snap(s)
		if stream, savedStart, err := r.persist(s, rp.Elapsed); err != nil {
			r.violate("persist-error", "err="+c11ErrClass(err), "Persist returned "+err.Error(), rp.Ops, sn, rp.Target, rp.Elapsed, 0)
		} else {
			r.checkOne(rp.Ops, sn, rp.Target, rp.Elapsed, stream, savedStart)
		}
		s.Close()
		res.Note("replayed %d ops, target %d, elapsed %v: saved %s", len(rp.Ops), rp.Target, time.Duration(rp.Elapsed), r.show(sn, 0))
		return
	}

	var root []c11Op
	for i := 0; i < cfg.Prefix; i++ {
		root = append(root, c11Op{Kind: "set", Key: i, Cost: cfg.Costs[0], TTL: cfg.TTLs[0]})
	}
	// shrink/heat: a cache that was much fuller once (its sketch keeps the peak size) and whose few
	// survivors are hot - the loading cache sizes its sketch by the live count only
	if n := env.Int("shrink", 0); n > 0 {
		for i := n; i < cfg.Prefix; i++ {
			root = append(root, c11Op{Kind: "del", Key: i})
		}
		for h := 0; h < env.Int("heat", 0); h++ {
			for i := 0; i < n; i++ {
				root = append(root, c11Op{Kind: "get", Key: i})
			}
		}
	}
	// hot/grow: the first `hot` keys are read (promoted to the protected region), then the cache grows by `grow` more
	// keys - past the next sketch table size, which re-allocates the table: protected entries whose frequency
	// history is gone (sketch estimate 0) at save time
	if h := env.Int("hot", 0); h > 0 {
		for rep := 0; rep < 2; rep++ {
			for i := 0; i < h; i++ {
				root = append(root, c11Op{Kind: "get", Key: i})
			}
		}
		for i := 0; i < env.Int("grow", 0); i++ {
			root = append(root, c11Op{Kind: "set", Key: cfg.Prefix + i, Cost: cfg.Costs[0], TTL: cfg.TTLs[0]})
		}
	}
	// Sharding: every shard runs the whole (cheap) search so that deduplication is exact; the expensive part,
	// the save/load oracle, is evaluated by the shard that owns the state (canonical hash mod NShards).
	// States and transitions are counted by the owner only, so the merged totals are exact.
	visited := map[uint64]struct{}{}
	type node struct {
		ops   []c11Op
		owned bool
	}
	visit := func(ops []c11Op) (fresh, owned bool) {
		s := r.build(ops)
		defer s.Close()
		sn := r.snap(s)
		h := vh.Hash(r.canon(s, sn))
		owned = env.NShards <= 1 || int(h%uint64(env.NShards)) == env.Shard
		if _, ok := visited[h]; ok {
			return false, owned
		}
		visited[h] = struct{}{}
		if owned {
			res.States++
			if len(ops) > res.MaxDepth {
				res.MaxDepth = len(ops)
			}
			if !c11Dry {
				r.checkState(ops, s, sn)
			}
		}
		return true, owned
	}
	_, own0 := visit(root)
	frontier := []node{{root, own0}}
	depth := 0
	capped := false
	for depth < cfg.Depth && len(frontier) > 0 && !capped {
		var next []node
	level:
		for _, nd := range frontier {
			if n := len(nd.ops); n > 0 && nd.ops[n-1].Kind == "setmap" {
				continue // its event is never delivered here: a save point only, not a state to continue from
			}
			for _, o := range alpha {
				if !env.Deadline.IsZero() && time.Now().After(env.Deadline) {
					res.Cap(fmt.Sprintf("deadline during depth %d", depth+1+cfg.Prefix))
					capped = true
					break level
				}
				ops := append(append([]c11Op{}, nd.ops...), o)
				if nd.owned {
					res.Transitions++
				}
				if fresh, owned := visit(ops); fresh {
					next = append(next, node{ops, owned})
				}
			}
		}
		frontier = next
		if !capped {
			depth++
		}
	}
	res.Bounds["depth"] = depth + cfg.Prefix
	res.Completed = res.Executions
}

func TestVerif_C11(t *testing.T) {
	env := vh.Env()
	cfg := c11ParseCfg(env)
	res := vh.NewResult("C11/"+cfg.Name, "E2-BFS", env)
	res.MaxSamples = 3
	defer res.Write()
	c11Dry = env.Int("dry", 0) == 1
	defer func() {
		if p := recover(); p != nil {
			buf := make([]byte, 4096)
			buf = buf[:runtime.Stack(buf, false)]
			res.Error = fmt.Sprintf("panic: %v\n%s", p, buf)
		}
	}()
	vt := cfg.VT
	if env.Replay != "" {
		var rp c11Replay
		if err := vh.LoadReplay(env.Replay, &rp); err == nil && rp.Cfg.VT != "" {
			vt = rp.Cfg.VT
		}
	}
	ident := func(i int) int { return i }
	switch vt {
	case "int":
		(&c11Run[int, int]{res: res, env: env, cfg: cfg, ty: c11Types[int, int]{kf: ident, vf: c11ValNo,
			veq: func(a, b int) bool { return a == b }, vid: func(v int) string { return strconv.Itoa(v) }}}).explore()
	case "string":
		(&c11Run[string, string]{res: res, env: env, cfg: cfg, ty: c11Types[string, string]{
			kf: func(i int) string {
				if i == 0 {
					return ""
				}
				return "k" + strconv.Itoa(i)
			},
			vf: func(o c11Op) string {
				if n := c11ValNo(o); n != 0 {
					return "v" + strconv.Itoa(n)
				}
				return ""
			},
			veq: func(a, b string) bool { return a == b }, vid: func(v string) string { return strconv.Quote(v) }}}).explore()
	case "struct":
		(&c11Run[int, c11Empty]{res: res, env: env, cfg: cfg, ty: c11Types[int, c11Empty]{kf: ident, vf: func(c11Op) c11Empty { return c11Empty{} },
			veq: func(a, b c11Empty) bool { return true }, vid: func(c11Empty) string { return "{}" }}}).explore()
	case "bytes":
		(&c11Run[int, []byte]{res: res, env: env, cfg: cfg, ty: c11Types[int, []byte]{kf: ident,
			vf: func(o c11Op) []byte {
				n := c11ValNo(o)
				b := make([]byte, n%7) // empty for the zero case; contains 0x00 bytes otherwise
				for i := range b {
					b[i] = byte(n * i)
				}
				return b
			},
			veq: c11BytesEq, vid: func(v []byte) string { return fmt.Sprintf("%x", v) }}}).explore()
	case "big":
		(&c11Run[int, []byte]{res: res, env: env, cfg: cfg, ty: c11Types[int, []byte]{kf: ident,
			vf: func(o c11Op) []byte {
				b := make([]byte, c11BigLen)
				for i := range b {
					b[i] = byte(i*7 + o.Key)
				}
				return b
			},
			veq: c11BytesEq, vid: func(v []byte) string { return fmt.Sprintf("%dB#%x", len(v), vh.Hash(len(v), v[:8], v[len(v)-8:])) }}}).explore()
	default:
		res.Error = "unknown vt " + vt
	}
}
