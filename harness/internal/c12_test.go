//go:build verif && vplain

package internal

import (
	"bytes"
	"errors"
	"fmt"
	"io"
	"regexp"
	"runtime"
	"runtime/debug"
	"runtime/metrics"
	"sort"
	"strconv"
	"strings"
	"testing"
	"time"

	"github.com/Yiling-J/theine-go/internal/vrt/vh"
	"github.com/zeebo/xxh3"
)

// C12 — a damaged or truncated stream is never loaded as wrong data (E3-FAULT).
//
// Streams are produced by the real Store.Persist from real stores that were driven through
// Set / Wait / Get + the real drainRead, so that entries sit in the window, probation and
// protected regions. Time is normalised white-box (HARNESS.md): the saved store's clock
// origin and the entries' relative deadlines are overwritten with constants right before
// Persist, and the fresh store that receives the damaged stream gets a constant clock
// origin too. That makes every stream bit-for-bit reproducible, every replay exact and
// every verdict independent of the wall clock.
//
// Only gob's message framing (length prefix, type id) is parsed to find block boundaries;
// the DataBlock field layout is additionally decoded to *label* byte offsets for violation
// signatures - the oracle never depends on the labels (one clause, mismatch-wrong-error, uses
// the end offset of the metadata message).
//
// Fault families (each enumerated completely over the stream): truncation at every length;
// every single-bit flip; every byte set to 0x00 / 0xFF / +1; every adjacent pair zeroed;
// every message (type descriptor or block) dropped; every message duplicated at every
// position; every permutation of the messages. Thorough adds: every pair of bit flips in
// non-payload bytes, every value of every non-payload byte, every byte deleted, every
// adjacent pair swapped, and the multi-block stream.
//
// Oracle (statement of C12, nothing else):
//   same version:  no panic; a proper prefix => error; whatever is resident after Recover
//                  (error or not) has a saved key with its saved value and cost and a deadline
//                  that is not later than the saved one ("never invents keys, values or longer
//                  lifetimes"); on success deadlines are exactly the saved ones and no key is
//                  held twice by the policy.
//   other version: never a nil error, never an entry resident afterwards; VersionMismatch
//                  exactly when the damage lies entirely behind the metadata block (a reader
//                  that checks the version first cannot have seen the damage yet); any error
//                  is accepted when the damage touches the metadata block or what precedes it.

const (
	c12LoadStart = int64(1600000000) * int64(time.Second) // clock origin of every fresh store
	c12Century   = int64(100*365*24) * int64(time.Hour)
	c12Version   = uint64(7)
	c12Newer     = uint64(8)
	c12Older     = uint64(6)
	c12BigValue  = 1536 * 1024
)

type c12Tuple struct {
	K        string `json:"k"`
	V        string `json:"v"`
	Cost     int64  `json:"cost"`
	Deadline int64  `json:"deadline_unix_ns"` // 0 = never expires
}

func c12Abbrev(v string) string {
	if len(v) <= 40 {
		return v
	}
	return fmt.Sprintf("%s...(len=%d,xxh3=%x)", v[:12], len(v), xxh3.HashString(v))
}

func (t c12Tuple) String() string {
	return fmt.Sprintf("{%s=%s cost=%d deadline=%d}", t.K, c12Abbrev(t.V), t.Cost, t.Deadline)
}

type c12Msg struct {
	Start, Body, End int
	TypeID           int64
	Kind             string // typedef, meta, window, probation, protected, end, type<N>
}

type c12Stream struct {
	Name      string
	MaxSize   int
	Uptime    int64 // load origin - saved origin
	Bytes     []byte
	Sum       string
	Saved     map[string]c12Tuple
	Regions   string
	Msgs      []c12Msg
	Labels    []string // per byte offset
	MetaEnd   int      // end of the metadata message (first value message)
	Positions []int    // offsets at which positional faults are applied
	Header    []int    // offsets outside block payloads
}

// ---------- building streams with the real store ----------

type c12Set struct {
	k, v string
	cost int64
	ttl  bool
}

type c12Spec struct {
	name    string
	maxsize int
	uptime  int64
	sets    []c12Set
	touch   []string // keys read (Get + real drainRead) after the writes were applied
	stride  int      // 0 = every offset is a fault position
}

func c12Specs() []c12Spec {
	sec := int64(time.Second)
	kv := func(i int, ttl bool) c12Set {
		return c12Set{k: fmt.Sprintf("key-%d", i), v: fmt.Sprintf("value-%d-%s", i, strings.Repeat(string(rune('a'+i)), i)), cost: int64(1 + i%3), ttl: ttl}
	}
	var six, sixTTL, sixMixed []c12Set
	for i := 1; i <= 6; i++ {
		six = append(six, kv(i, false))
		sixTTL = append(sixTTL, kv(i, true))
		sixMixed = append(sixMixed, kv(i, i%2 == 0))
	}
	var big []c12Set
	for i := 1; i <= 5; i++ {
		big = append(big, c12Set{k: fmt.Sprintf("big-%d", i), v: strings.Repeat(string(rune('A'+i)), c12BigValue), cost: 1, ttl: i%2 == 1})
	}
	return []c12Spec{
		{name: "empty", maxsize: 100, uptime: sec},
		{name: "window3", maxsize: 1000, uptime: sec, sets: []c12Set{kv(1, false), kv(2, true), kv(3, false)}},
		{name: "regions", maxsize: 100, uptime: sec, sets: six, touch: []string{"key-1", "key-2"}},
		{name: "regions-ttl", maxsize: 100, uptime: sec, sets: sixTTL, touch: []string{"key-1", "key-2"}},
		{name: "old-origin", maxsize: 100, uptime: 1000 * int64(time.Hour), sets: sixMixed, touch: []string{"key-2", "key-3"}},
		// a FULL cache (six entries of total cost 12 in a cache of capacity 12): loading its stream fills the loader's
		// main space while the last region is being read
		{name: "full", maxsize: 12, uptime: sec, sets: six, touch: []string{"key-1", "key-2"}},
		{name: "multiblock", maxsize: 1000, uptime: sec, sets: big, stride: 65521},
	}
}

func c12NewStore(maxsize int) *Store[string, string] {
	return NewStore(&StoreOptions[string, string]{MaxSize: int64(maxsize)})
}

func c12Build(sp c12Spec) (*c12Stream, error) {
	s := c12NewStore(sp.maxsize)
	defer s.Close()
	for _, w := range sp.sets {
		ttl := time.Duration(0)
		if w.ttl {
			ttl = 1000 * time.Hour
		}
		if !s.Set(w.k, w.v, w.cost, ttl) {
			return nil, fmt.Errorf("Set(%s) refused", w.k)
		}
		s.Wait()
	}
	for _, k := range sp.touch {
		if _, ok := s.Get(k); !ok {
			return nil, fmt.Errorf("Get(%s) missed while building the stream", k)
		}
		h, idx := s.index(k)
		sh := s.shards[idx]
		tk := sh.mu.RLock()
		e := sh.hashmap[k]
		sh.mu.RUnlock(tk)
		s.drainRead([]ReadBufItem[string, string]{{entry: e, hash: h}})
	}
	st := &c12Stream{Name: sp.name, MaxSize: sp.maxsize, Uptime: sp.uptime, Saved: map[string]c12Tuple{}}
	// normalise time (white-box): constant clock origin, constant relative deadlines
	savedStart := c12LoadStart - sp.uptime
	s.policyMu.Lock()
	s.timerwheel.clock.Start = time.Unix(0, savedStart)
	var keys []string
	for _, sh := range s.shards {
		for k := range sh.hashmap {
			keys = append(keys, k)
		}
	}
	sort.Strings(keys)
	for i, k := range keys {
		_, idx := s.index(k)
		e := s.shards[idx].hashmap[k]
		t := c12Tuple{K: k, V: e.value, Cost: e.weight.Load()}
		if e.expire.Load() != 0 {
			rel := sp.uptime + c12Century + int64(i)*int64(time.Hour)
			e.expire.Store(rel)
			t.Deadline = savedStart + rel
		}
		st.Saved[k] = t
	}
	p := s.policy
	st.Regions = fmt.Sprintf("entries: window=%d probation=%d protected=%d", p.window.count, p.slru.probation.count, p.slru.protected.count)
	s.policyMu.Unlock()
	var buf bytes.Buffer
	if err := s.Persist(c12Version, &buf); err != nil {
		return nil, fmt.Errorf("Persist: %v", err)
	}
	st.Bytes = buf.Bytes()
	st.Sum = fmt.Sprintf("%016x", xxh3.Hash(st.Bytes))
	if err := c12Frame(st); err != nil {
		return nil, err
	}
	n := len(st.Bytes)
	for off := 0; off < n; off++ {
		payload := strings.HasSuffix(st.Labels[off], ".Data")
		if !payload {
			st.Header = append(st.Header, off)
		}
		if sp.stride == 0 || !payload || off%sp.stride == 0 {
			st.Positions = append(st.Positions, off)
			continue
		}
		// first and last 24 bytes of every payload as well
		if !strings.HasSuffix(st.Labels[off-24], ".Data") || off+24 >= n || !strings.HasSuffix(st.Labels[off+24], ".Data") {
			st.Positions = append(st.Positions, off)
		}
	}
	return st, nil
}

// ---------- gob message framing ----------

func c12Uint(b []byte, off int) (v uint64, n int, ok bool) {
	if off >= len(b) {
		return
	}
	c := b[off]
	if c <= 0x7f {
		return uint64(c), 1, true
	}
	k := int(-int8(c))
	if k < 1 || k > 8 || off+1+k > len(b) {
		return 0, 0, false
	}
	for i := 0; i < k; i++ {
		v = v<<8 | uint64(b[off+1+i])
	}
	return v, 1 + k, true
}

func c12Int(b []byte, off int) (int64, int, bool) {
	u, n, ok := c12Uint(b, off)
	if !ok {
		return 0, 0, false
	}
	if u&1 != 0 {
		return ^int64(u >> 1), n, true
	}
	return int64(u >> 1), n, true
}

var c12Fields = []string{"Type", "SecondaryType", "CheckSum", "Index", "Data"}

// c12Frame splits the stream into gob messages and labels every byte offset.
func c12Frame(st *c12Stream) error {
	b := st.Bytes
	st.Labels = make([]string, len(b))
	off := 0
	counts := map[string]int{}
	for off < len(b) {
		l, n, ok := c12Uint(b, off)
		if !ok || off+n+int(l) > len(b) {
			return fmt.Errorf("cannot frame the pristine stream at offset %d", off)
		}
		m := c12Msg{Start: off, Body: off + n, End: off + n + int(l)}
		id, idn, ok := c12Int(b, m.Body)
		if !ok {
			return fmt.Errorf("no type id at offset %d", m.Body)
		}
		m.TypeID = id
		if id < 0 {
			m.Kind = "typedef"
		} else {
			// DataBlock value: (delta, value)* 0
			type span struct {
				name     string
				from, to int
			}
			var spans []span
			spans = append(spans, span{"len", m.Start, m.Body}, span{"typeid", m.Body, m.Body + idn})
			p := m.Body + idn
			field := -1
			btype := -1
			for p < m.End {
				d, dn, ok := c12Uint(b, p)
				if !ok {
					break
				}
				if d == 0 {
					spans = append(spans, span{"terminator", p, p + dn})
					p += dn
					break
				}
				field += int(d)
				if field >= len(c12Fields) {
					break
				}
				name := c12Fields[field]
				spans = append(spans, span{name + ".delta", p, p + dn})
				p += dn
				v, vn, ok := c12Uint(b, p)
				if !ok {
					break
				}
				if name == "Data" {
					spans = append(spans, span{"Data.len", p, p + vn}, span{"Data", p + vn, p + vn + int(v)})
					p += vn + int(v)
				} else {
					spans = append(spans, span{name, p, p + vn})
					p += vn
					if name == "Type" {
						btype = int(v)
					}
				}
			}
			switch btype {
			case 1:
				m.Kind = "meta"
			case 2:
				m.Kind = "window"
			case 3:
				m.Kind = "probation"
			case 4:
				m.Kind = "protected"
			case 255:
				m.Kind = "end"
			default:
				m.Kind = fmt.Sprintf("type%d", btype)
			}
			counts[m.Kind]++
			if counts[m.Kind] > 1 {
				m.Kind = fmt.Sprintf("%s#%d", m.Kind, counts[m.Kind])
			}
			for i := m.Start; i < m.End; i++ {
				st.Labels[i] = m.Kind + ".?"
			}
			for _, sp := range spans {
				for i := sp.from; i < sp.to && i < m.End; i++ {
					st.Labels[i] = m.Kind + "." + sp.name
				}
			}
			if st.MetaEnd == 0 && m.Kind == "meta" {
				st.MetaEnd = m.End
			}
			// type descriptors are named after the block they introduce
			base := m.Kind
			switch base {
			case "window", "probation", "protected":
				base = "entries"
			}
			for j := len(st.Msgs) - 1; j >= 0 && st.Msgs[j].Kind == "typedef"; j-- {
				t := &st.Msgs[j]
				t.Kind = "typedef-" + base
				_, tn, _ := c12Int(b, t.Body)
				for i := t.Start; i < t.End; i++ {
					switch {
					case i < t.Body:
						st.Labels[i] = t.Kind + ".len"
					case i < t.Body+tn:
						st.Labels[i] = t.Kind + ".id"
					default:
						st.Labels[i] = t.Kind
					}
				}
			}
		}
		st.Msgs = append(st.Msgs, m)
		off = m.End
	}
	if st.MetaEnd == 0 {
		return errors.New("no metadata message found in the pristine stream")
	}
	return nil
}

func (st *c12Stream) label(off int) string {
	if off >= len(st.Labels) {
		return "eof"
	}
	return st.Labels[off]
}

func (st *c12Stream) layout() string {
	var p []string
	for _, m := range st.Msgs {
		p = append(p, fmt.Sprintf("%s[%d,%d)", m.Kind, m.Start, m.End))
	}
	return strings.Join(p, " ")
}

// ---------- fault cases ----------

type c12Case struct {
	Stream string `json:"stream"`
	Mode   string `json:"mode"` // same | mismatch
	Fam    string `json:"fam"`
	A      int    `json:"a"`
	B      int    `json:"b"`
	Perm   []int  `json:"perm,omitempty"`
	Sum    string `json:"pristine_xxh3"`
	Desc   string `json:"desc,omitempty"`
}

type c12Damage struct {
	data  []byte
	trunc bool
	first int    // first offset (pristine coordinates) that differs / is missing
	where string // label for the signature
	desc  string
	noop  bool
}

func (st *c12Stream) join(order []int, scratch []byte) []byte {
	out := scratch[:0]
	for _, i := range order {
		m := st.Msgs[i]
		out = append(out, st.Bytes[m.Start:m.End]...)
	}
	return out
}

func (st *c12Stream) kinds(order []int) string {
	var p []string
	for _, i := range order {
		p = append(p, st.Msgs[i].Kind)
	}
	return strings.Join(p, ",")
}

// orderClass names what matters about a sequence of messages: is the metadata block read
// before the first entry block and before the end block.
func (st *c12Stream) orderClass(order []int) string {
	meta, entry, end := -1, -1, -1
	for pos, i := range order {
		k := st.Msgs[i].Kind
		switch {
		case strings.HasPrefix(k, "typedef"):
		case k == "meta":
			if meta < 0 {
				meta = pos
			}
		case k == "end":
			if end < 0 {
				end = pos
			}
		default:
			if entry < 0 {
				entry = pos
			}
		}
	}
	if end < 0 {
		end = len(order) + 1
	}
	switch {
	case meta < 0 || meta > end:
		if entry >= 0 && entry < end {
			return "meta-never-read+entries-read"
		}
		return "meta-never-read"
	case entry >= 0 && entry < meta && entry < end:
		return "entries-before-meta"
	default:
		return "meta-first"
	}
}

func (st *c12Stream) apply(c c12Case, scratch *[]byte) (d c12Damage, err error) {
	b := st.Bytes
	n := len(b)
	inplace := func() []byte {
		if cap(*scratch) < n {
			*scratch = make([]byte, n, n+n/2)
		}
		out := (*scratch)[:n]
		copy(out, b)
		return out
	}
	chk := func(off int) error {
		if off < 0 || off >= n {
			return fmt.Errorf("offset %d outside the stream (%d bytes)", off, n)
		}
		return nil
	}
	msgOK := func(i int) error {
		if i < 0 || i >= len(st.Msgs) {
			return fmt.Errorf("message %d outside the stream (%d messages)", i, len(st.Msgs))
		}
		return nil
	}
	switch c.Fam {
	case "none":
		d.data, d.first, d.where, d.desc = b, n, "eof", "undamaged stream"
	case "trunc":
		if c.A < 0 || c.A >= n {
			return d, fmt.Errorf("bad truncation length %d", c.A)
		}
		d.data, d.trunc, d.first, d.where = b[:c.A], true, c.A, st.label(c.A)
		d.desc = fmt.Sprintf("stream cut to its first %d of %d bytes (first missing byte: %s)", c.A, n, d.where)
	case "flip":
		if err = chk(c.A); err != nil {
			return
		}
		out := inplace()
		out[c.A] ^= 1 << uint(c.B)
		d.data, d.first, d.where = out, c.A, st.label(c.A)
		d.desc = fmt.Sprintf("bit %d of byte %d flipped (%s: 0x%02x -> 0x%02x)", c.B, c.A, d.where, b[c.A], out[c.A])
	case "stamp00", "stampFF", "inc", "stampv":
		if err = chk(c.A); err != nil {
			return
		}
		out := inplace()
		switch c.Fam {
		case "stamp00":
			out[c.A] = 0
		case "stampFF":
			out[c.A] = 0xFF
		case "inc":
			out[c.A]++
		case "stampv":
			out[c.A] = byte(c.B)
		}
		d.data, d.first, d.where, d.noop = out, c.A, st.label(c.A), out[c.A] == b[c.A]
		d.desc = fmt.Sprintf("byte %d overwritten (%s: 0x%02x -> 0x%02x)", c.A, d.where, b[c.A], out[c.A])
	case "zero2":
		if err = chk(c.A + 1); err != nil {
			return
		}
		out := inplace()
		out[c.A], out[c.A+1] = 0, 0
		d.first = c.A
		if b[c.A] == 0 {
			d.first = c.A + 1
		}
		d.data, d.where, d.noop = out, st.label(d.first), b[c.A] == 0 && b[c.A+1] == 0
		d.desc = fmt.Sprintf("bytes %d,%d zeroed (%s,%s: 0x%02x%02x -> 0x0000)", c.A, c.A+1, st.label(c.A), st.label(c.A+1), b[c.A], b[c.A+1])
	case "swap":
		if err = chk(c.A + 1); err != nil {
			return
		}
		out := inplace()
		out[c.A], out[c.A+1] = b[c.A+1], b[c.A]
		d.data, d.first, d.where, d.noop = out, c.A, st.label(c.A), b[c.A] == b[c.A+1]
		d.desc = fmt.Sprintf("bytes %d,%d swapped (%s,%s)", c.A, c.A+1, st.label(c.A), st.label(c.A+1))
	case "del1":
		if err = chk(c.A); err != nil {
			return
		}
		out := append((*scratch)[:0], b[:c.A]...)
		out = append(out, b[c.A+1:]...)
		*scratch = out
		d.data, d.first, d.where = out, c.A, st.label(c.A)
		d.desc = fmt.Sprintf("byte %d deleted (%s: 0x%02x)", c.A, d.where, b[c.A])
	case "hpinc", "hp00":
		o2 := c.B / 8
		if err = chk(c.A); err != nil {
			return
		}
		if err = chk(o2); err != nil {
			return
		}
		out := inplace()
		if c.Fam == "hpinc" {
			out[c.A]++
		} else {
			out[c.A] = 0
		}
		out[o2] ^= 1 << uint(c.B%8)
		d.noop = out[c.A] == b[c.A]
		d.data, d.first = out, c.A
		if o2 < c.A {
			d.first = o2
		}
		d.where = st.label(c.A) + "+" + st.label(o2)
		d.desc = fmt.Sprintf("byte %d (%s: 0x%02x -> 0x%02x) changed and bit %d of payload byte %d (%s) flipped", c.A, st.label(c.A), b[c.A], out[c.A], c.B%8, o2, st.label(o2))
	case "flip2":
		o1, o2 := c.A/8, c.B/8
		if err = chk(o1); err != nil {
			return
		}
		if err = chk(o2); err != nil {
			return
		}
		out := inplace()
		out[o1] ^= 1 << uint(c.A%8)
		out[o2] ^= 1 << uint(c.B%8)
		d.data, d.first = out, o1
		d.where = st.label(o1) + "+" + st.label(o2)
		d.desc = fmt.Sprintf("bit %d of byte %d (%s) and bit %d of byte %d (%s) flipped", c.A%8, o1, st.label(o1), c.B%8, o2, st.label(o2))
	case "drop":
		if err = msgOK(c.A); err != nil {
			return
		}
		var order []int
		for i := range st.Msgs {
			if i != c.A {
				order = append(order, i)
			}
		}
		out := st.join(order, *scratch)
		*scratch = out
		d.data, d.first, d.where = out, st.Msgs[c.A].Start, st.Msgs[c.A].Kind
		d.desc = fmt.Sprintf("message %d (%s, bytes [%d,%d)) removed; order now %s", c.A, d.where, st.Msgs[c.A].Start, st.Msgs[c.A].End, st.kinds(order))
	case "dup":
		if err = msgOK(c.A); err != nil {
			return
		}
		if c.B < 0 || c.B > len(st.Msgs) {
			return d, fmt.Errorf("bad insertion position %d", c.B)
		}
		var order []int
		for i := 0; i <= len(st.Msgs); i++ {
			if i == c.B {
				order = append(order, c.A)
			}
			if i < len(st.Msgs) {
				order = append(order, i)
			}
		}
		out := st.join(order, *scratch)
		*scratch = out
		d.first = n
		if c.B < len(st.Msgs) {
			d.first = st.Msgs[c.B].Start
		}
		d.data = out
		d.where = st.Msgs[c.A].Kind + ":" + st.orderClass(order)
		d.desc = fmt.Sprintf("copy of message %d (%s) inserted at position %d; order now %s", c.A, st.Msgs[c.A].Kind, c.B, st.kinds(order))
	case "perm":
		if len(c.Perm) != len(st.Msgs) {
			return d, fmt.Errorf("permutation of %d messages for a stream of %d", len(c.Perm), len(st.Msgs))
		}
		seen := map[int]bool{}
		d.first, d.noop = n, true
		for pos, i := range c.Perm {
			if err = msgOK(i); err != nil {
				return
			}
			if seen[i] {
				return d, fmt.Errorf("not a permutation: %v", c.Perm)
			}
			seen[i] = true
			if i != pos && d.noop {
				d.noop, d.first = false, st.Msgs[pos].Start
			}
		}
		out := st.join(c.Perm, *scratch)
		*scratch = out
		d.data, d.where = out, st.orderClass(c.Perm)
		d.desc = fmt.Sprintf("messages reordered: %s", st.kinds(c.Perm))
	default:
		return d, fmt.Errorf("unknown fault family %q", c.Fam)
	}
	return d, nil
}

// enumerate calls f for every case of the tier, in a fixed order.
func (st *c12Stream) enumerate(mode string, thorough bool, pairs string, blockPermsOnly, swapsOnly bool, hp string, f func(c c12Case) bool) {
	if hp != "" {
		// two-site damage only: one byte outside the payloads (block header fields, type descriptors: the
		// places that decide whether / how a payload is verified) incremented or zeroed, combined with a
		// bit flip inside a block payload. hp=bit0: one bit per payload byte, hp=all: every bit.
		isHdr := map[int]bool{}
		for _, o := range st.Header {
			isHdr[o] = true
		}
		bits := 1
		if hp == "all" {
			bits = 8
		}
		for _, h := range st.Header {
			for _, fam := range []string{"hpinc", "hp00"} {
				for _, o := range st.Positions {
					if isHdr[o] {
						continue
					}
					for b := 0; b < bits; b++ {
						c := c12Case{Stream: st.Name, Mode: mode, Fam: fam, A: h, B: o*8 + b, Sum: st.Sum}
						if !f(c) {
							return
						}
					}
				}
			}
		}
		return
	}
	mk := func(fam string, a, b int) c12Case {
		return c12Case{Stream: st.Name, Mode: mode, Fam: fam, A: a, B: b, Sum: st.Sum}
	}
	if !f(mk("none", 0, 0)) {
		return
	}
	n := len(st.Bytes)
	for _, off := range st.Positions { // every proper prefix
		if !f(mk("trunc", off, 0)) {
			return
		}
	}
	for _, off := range st.Positions {
		for bit := 0; bit < 8; bit++ {
			if !f(mk("flip", off, bit)) {
				return
			}
		}
		for _, fam := range []string{"stamp00", "stampFF", "inc"} {
			if !f(mk(fam, off, 0)) {
				return
			}
		}
		if off+1 < n {
			if !f(mk("zero2", off, 0)) {
				return
			}
		}
	}
	m := len(st.Msgs)
	for i := 0; i < m; i++ {
		if !f(mk("drop", i, 0)) {
			return
		}
	}
	for i := 0; i < m; i++ {
		for pos := 0; pos <= m; pos++ {
			if !f(mk("dup", i, pos)) {
				return
			}
		}
	}
	if swapsOnly {
		// every transposition of two messages (streams of many blocks: m! orders are out of reach, m(m-1)/2 swaps are not)
		for i := 0; i < m; i++ {
			for j := i + 1; j < m; j++ {
				c := mk("perm", 0, 0)
				c.Perm = make([]int, m)
				for k := range c.Perm {
					c.Perm[k] = k
				}
				c.Perm[i], c.Perm[j] = j, i
				if !f(c) {
					return
				}
			}
		}
	} else if blockPermsOnly {
		// type descriptors hoisted to the front (still a well-formed gob stream), then every
		// order of the blocks - including the original one
		var tds, blocks []int
		for i, mm := range st.Msgs {
			if strings.HasPrefix(mm.Kind, "typedef") {
				tds = append(tds, i)
			} else {
				blocks = append(blocks, i)
			}
		}
		pb := make([]int, len(blocks))
		for i := range pb {
			pb[i] = i
		}
		for ok := true; ok; ok = c12NextPerm(pb) {
			c := mk("perm", 0, 0)
			c.Perm = append([]int(nil), tds...)
			for _, j := range pb {
				c.Perm = append(c.Perm, blocks[j])
			}
			if !f(c) {
				return
			}
		}
	} else {
		perm := make([]int, m)
		for i := range perm {
			perm[i] = i
		}
		for c12NextPerm(perm) { // lexicographic order, identity skipped
			c := mk("perm", 0, 0)
			c.Perm = append([]int(nil), perm...)
			if !f(c) {
				return
			}
		}
	}
	if !thorough {
		return
	}
	for _, off := range st.Positions {
		if !f(mk("del1", off, 0)) {
			return
		}
		if off+1 < n {
			if !f(mk("swap", off, 0)) {
				return
			}
		}
	}
	for _, off := range st.Header {
		for v := 0; v < 256; v++ {
			if !f(mk("stampv", off, v)) {
				return
			}
		}
	}
	var hdr []int
	switch pairs {
	case "all": // every non-payload byte
		hdr = st.Header
	case "blocks": // the un-checksummed header fields of the blocks (no type descriptors)
		for _, off := range st.Header {
			if !strings.HasPrefix(st.Labels[off], "typedef") {
				hdr = append(hdr, off)
			}
		}
	}
	for i, o1 := range hdr {
		for _, o2 := range hdr[i:] {
			for b1 := 0; b1 < 8; b1++ {
				for b2 := 0; b2 < 8; b2++ {
					if o1 == o2 && b2 <= b1 {
						continue
					}
					if !f(mk("flip2", o1*8+b1, o2*8+b2)) {
						return
					}
				}
			}
		}
	}
}

func c12NextPerm(p []int) bool {
	i := len(p) - 2
	for i >= 0 && p[i] >= p[i+1] {
		i--
	}
	if i < 0 {
		return false
	}
	j := len(p) - 1
	for p[j] <= p[i] {
		j--
	}
	p[i], p[j] = p[j], p[i]
	for l, r := i+1, len(p)-1; l < r; l, r = l+1, r-1 {
		p[l], p[r] = p[r], p[l]
	}
	return true
}

// ---------- running one case ----------

type c12Obs struct {
	panicked string
	err      error
	resident []c12Tuple     // what Range would show (shard maps), sorted by key
	held     map[string]int // key -> number of entries the policy lists hold for it
	length   int
	alloc    uint64
	adopted  bool // the fresh store's clock origin became the saved one (the metadata block was applied)
}

var c12AllocSample = []metrics.Sample{{Name: "/gc/heap/allocs:bytes"}}

func c12Allocs() uint64 {
	metrics.Read(c12AllocSample)
	return c12AllocSample[0].Value.Uint64()
}

func c12Load(st *c12Stream, data []byte, version uint64) (o c12Obs) {
	s := c12NewStore(st.MaxSize)
	s.policyMu.Lock()
	s.timerwheel.clock.Start = time.Unix(0, c12LoadStart)
	s.policyMu.Unlock()
	a0 := c12Allocs()
	func() {
		defer func() {
			if r := recover(); r != nil {
				o.panicked = fmt.Sprint(r)
			}
		}()
		o.err = s.Recover(version, bytes.NewReader(data))
	}()
	o.alloc = c12Allocs() - a0
	o.length = s.Len()
	origin := s.timerwheel.clock.Start.UnixNano()
	o.adopted = origin == c12LoadStart-st.Uptime
	for _, sh := range s.shards {
		for k, e := range sh.hashmap {
			t := c12Tuple{K: k, V: e.value, Cost: e.weight.Load()}
			if x := e.expire.Load(); x != 0 {
				t.Deadline = origin + x
			}
			o.resident = append(o.resident, t)
		}
	}
	sort.Slice(o.resident, func(i, j int) bool { return o.resident[i].K < o.resident[j].K })
	o.held = map[string]int{}
	p := s.policy
	for _, l := range []*List[string, string]{p.window, p.slru.probation, p.slru.protected} {
		for e := l.Front(); e != nil; e = e.Next(l.listType) {
			o.held[e.key]++
		}
	}
	s.Close()
	runtime.Gosched() // let the closed store's goroutines exit
	return o
}

var c12Digits = regexp.MustCompile(`[0-9]+`)

func c12ErrClass(err error) string {
	switch {
	case err == nil:
		return "nil"
	case errors.Is(err, VersionMismatch):
		return "VersionMismatch"
	case errors.Is(err, io.EOF):
		return "EOF"
	case errors.Is(err, io.ErrUnexpectedEOF):
		return "UnexpectedEOF"
	}
	s := c12Digits.ReplaceAllString(err.Error(), "N")
	if len(s) > 80 {
		s = s[:80]
	}
	return s
}

func c12Keys(ts []c12Tuple) string {
	var k []string
	for _, t := range ts {
		k = append(k, t.K)
	}
	return "[" + strings.Join(k, " ") + "]"
}

type c12Verdict struct{ clause, what string }

// c12Judge is the oracle.
func c12VersionOf(mode string) uint64 {
	switch mode {
	case "mismatch":
		return c12Newer
	case "older":
		return c12Older
	}
	return c12Version
}

func c12Judge(st *c12Stream, c c12Case, d c12Damage, o c12Obs) (vs []c12Verdict) {
	c12Other := c12VersionOf(c.Mode)
	add := func(clause, format string, a ...any) {
		vs = append(vs, c12Verdict{clause, fmt.Sprintf(format, a...)})
	}
	if o.panicked != "" {
		add("panic", "Recover panicked: %s", o.panicked)
	}
	if limit := uint64(64<<20) + 16*uint64(len(d.data)); o.alloc > limit {
		add("memory", "Recover allocated %d bytes for a %d-byte stream", o.alloc, len(d.data))
	}
	if c.Mode != "same" {
		switch {
		case o.panicked != "":
		case o.err == nil:
			add("mismatch-loaded", "a stream saved as version %d was accepted by Recover(version %d): err=nil, %d entries resident %s",
				c12Version, c12Other, o.length, c12Keys(o.resident))
		case d.first >= st.MetaEnd && !errors.Is(o.err, VersionMismatch):
			add("mismatch-wrong-error", "the damage starts at byte %d, behind the intact metadata block (ends at %d), yet Recover(version %d) returned %q instead of VersionMismatch",
				d.first, st.MetaEnd, c12Other, o.err)
		}
		if errors.Is(o.err, VersionMismatch) && o.adopted && st.Uptime != 0 {
			// "rejected ... before any entry is loaded" and "never invents ... longer lifetimes": a receiver that adopted the
			// saver's clock origin although it rejected the stream has shifted the deadline of everything it holds
			add("mismatch-clock-adopted", "Recover(version %d) rejected a version-%d stream with VersionMismatch, yet the receiver's clock origin moved to the saver's (%d ns earlier): the deadlines of whatever the receiver holds shifted by that much",
				c12Other, c12Version, st.Uptime)
		}
		if o.err != nil && (o.length != 0 || len(o.resident) != 0 || len(o.held) != 0) {
			add("mismatch-entries-inserted", "Recover(version %d) of a version-%d stream returned err=%v but left %d entries resident %s (policy holds %d keys)",
				c12Other, c12Version, o.err, o.length, c12Keys(o.resident), len(o.held))
		}
		return
	}
	if d.trunc && o.err == nil && o.panicked == "" {
		add("truncation-accepted", "a proper prefix (%d of %d bytes) was loaded without error; resident %s", len(d.data), len(st.Bytes), c12Keys(o.resident))
	}
	// whatever is resident must come from the saved cache - error or not
	for _, t := range o.resident {
		sv, ok := st.Saved[t.K]
		switch {
		case !ok:
			add("invented-key", "resident %v: the saved cache had no such key (err=%v)", t, o.err)
			continue
		case t.V != sv.V:
			add("wrong-value", "resident %v, saved %v (err=%v)", t, sv, o.err)
		case t.Cost != sv.Cost:
			add("wrong-cost", "resident %v, saved %v (err=%v)", t, sv, o.err)
		}
		switch {
		case t.Deadline == sv.Deadline:
		case sv.Deadline != 0 && (t.Deadline == 0 || t.Deadline > sv.Deadline):
			add("longer-lifetime", "resident %v outlives its saved deadline %d by %s (err=%v)", t, sv.Deadline, c12Later(t.Deadline, sv.Deadline), o.err)
		case o.err == nil:
			add("deadline-changed", "loaded without error but resident %v has not its saved deadline %d", t, sv.Deadline)
		}
	}
	for k, cnt := range o.held {
		if _, ok := st.Saved[k]; !ok {
			add("invented-key", "the policy holds key %q which the saved cache did not have (err=%v)", k, o.err)
		}
		// A duplicated entry block makes the policy hold two entries for one key (only one is in the
		// map, values and deadlines are the saved ones). The property statement does not forbid that -
		// no key, value or lifetime is invented - so it is an observation (it is part of the outcome
		// string), not a violation. It was a clause of this oracle once; see DESIGN.md "false alarms".
		_ = cnt
	}
	return
}

func c12Later(got, saved int64) string {
	if got == 0 {
		return "ever (no deadline at all)"
	}
	return time.Duration(got - saved).String()
}

// c12Sig: what was damaged (structural position, not the offset) plus "/no-meta-effect" when
// the metadata block left no trace (neither VersionMismatch nor the saved clock origin
// adopted). Byte-level families share one signature per position.
func c12Sig(c c12Case, d c12Damage, o c12Obs) string {
	var s string
	switch c.Fam {
	case "none":
		s = "undamaged"
	case "trunc":
		s = "cut@" + d.where
	case "drop":
		s = "drop:" + d.where
	case "dup":
		s = "dup:" + d.where
	case "perm":
		s = "reorder:" + d.where
	case "del1":
		s = "delete@" + d.where
	case "flip2":
		s = "bytes2@" + d.where
	default:
		s = "bytes@" + d.where
	}
	if !o.adopted && !errors.Is(o.err, VersionMismatch) {
		s += "/no-meta-effect"
	}
	return s
}

func c12BitOf(c c12Case) int {
	if c.Fam == "flip" {
		return c.B
	}
	return 0
}

var c12FamRank = map[string]int{"none": 0, "flip": 1, "stamp00": 2, "stampFF": 2, "inc": 2, "stampv": 3, "zero2": 4, "swap": 5, "del1": 6, "flip2": 7, "trunc": 1, "drop": 1, "dup": 2, "perm": 3}

// ---------- the test ----------

func TestVerif_C12(t *testing.T) {
	env := vh.Env()
	name := env.Params["stream"]
	mode := env.Params["mode"]
	if mode == "" {
		mode = "same"
	}
	res := vh.NewResult("C12/"+name+"/"+mode, "E3-FAULT", env)
	res.MaxSamples = 12
	defer res.Write()
	debug.SetMemoryLimit(3 << 30)

	var rc c12Case
	if env.Replay != "" {
		if err := vh.LoadReplay(env.Replay, &rc); err != nil {
			res.Error = "replay: " + err.Error()
			return
		}
		name, mode = rc.Stream, rc.Mode
	}
	var st *c12Stream
	for _, sp := range c12Specs() {
		if sp.name == name {
			var err error
			if st, err = c12Build(sp); err != nil {
				res.Error = "building stream " + name + ": " + err.Error()
				return
			}
		}
	}
	if st == nil {
		res.Error = "unknown stream " + name
		return
	}
	version := c12VersionOf(mode)
	res.Bounds["stream_bytes"] = len(st.Bytes)
	res.Bounds["messages"] = len(st.Msgs)
	res.Bounds["fault_positions"] = len(st.Positions)
	res.Bounds["non_payload_bytes"] = len(st.Header)
	res.Bounds["saved_entries"] = len(st.Saved)
	if env.Shard == 0 {
		res.Note("stream %s (xxh3 %s): %d bytes, %s; layout %s; saved with version %d, loaded with version %d",
			st.Name, st.Sum, len(st.Bytes), st.Regions, st.layout(), c12Version, version)
	}

	var scratch []byte
	sampled := map[string]bool{}
	run := func(c c12Case) {
		d, err := st.apply(c, &scratch)
		if err != nil {
			res.Error = fmt.Sprintf("case %+v: %v", c, err)
			return
		}
		if d.noop {
			res.Pruned++ // the "damage" leaves the stream unchanged
			return
		}
		o := c12Load(st, d.data, version)
		res.Executions++
		res.Completed++
		vs := c12Judge(st, c, d, o)
		verdict := "ok"
		if len(vs) > 0 {
			verdict = vs[0].clause
		}
		full := "none"
		if len(o.resident) == len(st.Saved) && len(st.Saved) > 0 {
			full = "all"
		} else if len(o.resident) > 0 {
			full = "some"
		}
		res.Outcome(fmt.Sprintf("%s|%s|%s|%s|%s", c.Fam, c12ErrClass(o.err), c12Keys(o.resident), o.panicked, verdict))
		if c.Fam == "none" && mode == "same" && (o.err != nil || full != "all") && len(st.Saved) > 0 {
			res.Cap(fmt.Sprintf("control: the undamaged stream did not load completely (err=%v, resident %s) - subset checks are weak", o.err, c12Keys(o.resident)))
		}
		sk := c.Fam + "/" + full + "/" + fmt.Sprint(o.err == nil)
		if !sampled[sk] && len(sampled) < 12 {
			sampled[sk] = true
			res.Sample(map[string]any{"stream": st.Name, "mode": mode, "fault": d.desc, "err": fmt.Sprint(o.err), "resident_after": c12Keys(o.resident), "verdict": verdict})
		}
		sigOf := func(clause string) string { return c12Sig(c, d, o) }
		if c.Fam == "flip2" && len(vs) > 0 {
			// is one of the two flips alone enough? then the witness belongs to that single flip's class
			alone := map[string]string{}
			var sc2 []byte
			for _, bit := range []int{c.B, c.A} {
				c1 := c12Case{Stream: c.Stream, Mode: c.Mode, Fam: "flip", A: bit / 8, B: bit % 8, Sum: c.Sum}
				d1, err := st.apply(c1, &sc2)
				if err != nil {
					continue
				}
				o1 := c12Load(st, d1.data, version)
				for _, v1 := range c12Judge(st, c1, d1, o1) {
					alone[v1.clause] = c12Sig(c1, d1, o1)
					alone["*"] = c12Sig(c1, d1, o1) // the lower flip wins (it is tried last)
				}
			}
			sigOf = func(clause string) string {
				if s, ok := alone[clause]; ok {
					return s
				}
				if s, ok := alone["*"]; ok { // same root cause, the second flip only changes how it ends
					return s
				}
				return c12Sig(c, d, o)
			}
		}
		for _, v := range vs {
			c.Desc = d.desc
			detail := fmt.Sprintf("stream %q (%d bytes, %s, saved as version %d by a cache with clock origin %d; layout %s)\nfault: %s\nRecover(version %d) into a fresh store (MaxSize %d, clock origin %d): err=%v panic=%q resident=%v\n%s",
				st.Name, len(st.Bytes), st.Regions, c12Version, c12LoadStart-st.Uptime, st.layout(), d.desc, version, st.MaxSize, c12LoadStart, o.err, o.panicked, o.resident, v.what)
			res.Violate(v.clause, sigOf(v.clause), detail, c12FamRank[c.Fam]*100000000+d.first*8+c12BitOf(c), c)
		}
	}

	if env.Replay != "" {
		if rc.Sum != st.Sum {
			res.Note("replay: pristine stream differs from the recorded one (%s vs %s)", st.Sum, rc.Sum)
		}
		run(rc)
		res.Note("replayed %s", strconv.Quote(fmt.Sprintf("%+v", rc)))
		return
	}

	idx, mine := 0, 0
	capped := false
	st.enumerate(mode, env.Thorough() && env.Params["extra"] != "0", env.Params["pairs"], env.Params["perms"] == "blocks", env.Params["perms"] == "swaps", env.Params["hp"], func(c c12Case) bool {
		i := idx
		idx++
		if i%env.NShards != env.Shard {
			return true
		}
		mine++
		if mine&127 == 0 && !env.Deadline.IsZero() && time.Now().After(env.Deadline) {
			capped = true
			return false
		}
		run(c)
		return res.Error == ""
	})
	if capped {
		res.Cap(fmt.Sprintf("deadline reached after %d of the enumerated cases", idx))
	}
	res.Bounds["cases_enumerated"] = idx
}
