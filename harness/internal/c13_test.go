//go:build verif && vsched

package internal

import (
	"errors"
	"fmt"
	"runtime"
	"sort"
	"strings"
	"testing"

	"github.com/Yiling-J/theine-go/internal/vrt"
	"github.com/Yiling-J/theine-go/internal/vrt/vh"
)

// C13 — loading cache: one load in flight per key, result shared, failures not cached.
//
// (a) Component, E1-SK: the real singleflight Group with every mutex / atomic / WaitGroup step a
//     scheduling point, fn outcomes {ok, err, panic, Goexit}, a second key sharing the pooled call
//     records, late arrivals.
// (b) Store level, E1-ICB: concurrent loading Gets with Set/Delete on the same key and scripted loader
//     outcomes, followed by a sequential epilogue (Set on the same shard, loading Get of the key).

// ---------- (a) Group ----------

type sfCall struct {
	key      int
	beg, end int
	out      string
	val      int
	rec      *call[int] // the record the invocation was registered under when it started
	forgot   bool       // the invocation has called Group.Forget for its key (as LoadingStore.Get does)
}

type sfRes struct {
	t, key   int
	inv, ret int
	val      int
	err      string
	panicked bool
	exited   bool
	ran      int // index of the fn invocation this caller ran itself (-1: none)
}

type sfRun struct {
	bad      []string
	g        *Group[int, int]
	calls    []*sfCall
	results  []*sfRes
	clock    int
	finished int
}

func sfKey(r *sfRun) string {
	g := r.g
	ids := map[*call[int]]int{}
	id := func(c *call[int]) int {
		if i, ok := ids[c]; ok {
			return i
		}
		ids[c] = len(ids) + 1
		return ids[c]
	}
	var ks []int
	for k := range g.m {
		ks = append(ks, k)
	}
	sort.Ints(ks)
	var b strings.Builder
	rec := func(c *call[int]) {
		fmt.Fprintf(&b, "#%d:d%d,w%d,v%d,e%v;", id(c), c.dups.Load(), c.wg.N(), c.val, c.err != nil)
	}
	for _, k := range ks {
		fmt.Fprintf(&b, "k%d>", k)
		rec(g.m[k])
	}
	b.WriteString("|pool:")
	for _, it := range g.callPool.Items() {
		rec(it.(*call[int]))
	}
	// invariant: an invocation that is running and has not forgotten its key is the registered call of that key
	for n, c := range r.calls {
		if c.end == 0 && !c.forgot && c.rec != nil && g.m[c.key] != c.rec {
			msg := fmt.Sprintf("invocation #%d for key %d is running but is no longer the registered call of its key", n, c.key)
			dup := false
			for _, x := range r.bad {
				dup = dup || x == msg
			}
			if !dup {
				r.bad = append(r.bad, msg)
			}
		}
	}
	fmt.Fprintf(&b, "|bad%d|n%d,f%d|", len(r.bad), len(r.calls), r.finished)
	for _, c := range r.calls {
		fmt.Fprintf(&b, "%d:%s:%v,", c.key, c.out, c.end != 0)
	}
	b.WriteString("|")
	var rs []string
	for _, x := range r.results {
		rs = append(rs, fmt.Sprintf("%d:%d:%d:%s:%v:%v:%d:%v", x.t, x.key, x.val, x.err, x.panicked, x.exited, x.ran, x.ret != 0))
	}
	sort.Strings(rs)
	b.WriteString(strings.Join(rs, ","))
	return b.String()
}

type sfCfg struct {
	forget  bool // fn calls Group.Forget(key) just before it returns / panics (the store's usage)
	name    string
	plan    []string // outcome of the i-th fn invocation
	scripts [][]int  // keys each thread calls Do on, in order
}

func sfBody(cfg sfCfg) (*sfRun, func()) {
	r := &sfRun{}
	return r, func() {
		vrt.NoBranch(func() {
			r.g = NewGroup[int, int]()
			g := r.g
			g.mu.Snap = func() uint64 {
				var ks []int
				for k := range g.m {
					ks = append(ks, k)
				}
				sort.Ints(ks)
				h := uint64(len(ks))
				for _, k := range ks {
					c := g.m[k]
					h = h*1099511628211 ^ uint64(k)<<8 ^ uint64(c.dups.Load())
				}
				return h
			}
			g.callPool.Fingerprint = func(x any) uint64 { return uint64(x.(*call[int]).dups.Load()) + 7 }
			g.callPool.Sched = true
		})
		for ti, sc := range cfg.scripts {
			ti, sc := ti, sc
			vrt.GoNamed(fmt.Sprintf("t%d", ti), func() {
				defer func() { r.finished++ }()
				for oi, k := range sc {
					vrt.BeginOp(oi)
					x := &sfRes{t: ti, key: k, ran: -1}
					r.results = append(r.results, x)
					r.clock++
					x.inv = r.clock
					func() {
						normal := false
						defer func() {
							r.clock++
							x.ret = r.clock
							if normal {
								return
							}
							if rec := recover(); rec != nil {
								if vrt.IsAbort(rec) {
									panic(rec)
								}
								x.panicked = true
								x.err = firstLine(fmt.Sprint(rec))
								if !strings.Contains(x.err, "fn panic") && !strings.Contains(x.err, "nil") {
									panic(rec)
								}
							} else {
								x.exited = true
							}
						}()
						v, err, _ := r.g.Do(k, func() (int, error) {
							n := len(r.calls)
							c := &sfCall{key: k, val: 100 + n, out: "ok"}
							if n < len(cfg.plan) {
								c.out = cfg.plan[n]
							}
							r.clock++
							c.beg = r.clock
							r.calls = append(r.calls, c)
							x.ran = n
							c.rec = r.g.m[k]
							vrt.Yield("fn", "")
							r.clock++
							c.end = r.clock
							if cfg.forget {
								// the store forgets the call after the loader has returned, while it still
								// holds the shard lock; here nothing serialises invocations, so the
								// invocation counts as over before the key is forgotten
								r.g.Forget(k)
								c.forgot = true
							}
							switch c.out {
							case "err":
								return 0, errors.New("fn failed")
							case "panic":
								panic("fn panic")
							case "panicnil":
								// panic(nil): with the semantics before Go 1.21 (in force for a main module that declares
								// go < 1.21, as this repository's go.mod does) recover() returns nil for it
								panic(nil)
							case "exit":
								runtime.Goexit()
							}
							return c.val, nil
						})
						x.val = v
						if err != nil {
							x.err = err.Error()
						}
						normal = true
					}()
					if x.exited {
						return // Goexit continues: the thread is gone
					}
				}
			})
		}
		vrt.WaitIdle()
	}
}

func sfCheck(res *vh.Result, cfg sfCfg) func(r *sfRun, x *vrt.Sched, cost int) {
	return func(r *sfRun, x *vrt.Sched, cost int) {
		rp := map[string]any{"driver": cfg.name, "choices": x.Choices()}
		desc := func() string {
			var s []string
			for _, c := range r.calls {
				s = append(s, fmt.Sprintf("fn(k%d)=%s/%d@[%d,%d]", c.key, c.out, c.val, c.beg, c.end))
			}
			for _, y := range r.results {
				s = append(s, fmt.Sprintf("t%d:Do(k%d)->%d,%q,p%v,x%v,ran%d@[%d,%d]", y.t, y.key, y.val, y.err, y.panicked, y.exited, y.ran, y.inv, y.ret))
			}
			return strings.Join(s, " ")
		}
		viol := func(clause, sig, d string) { res.Violate(clause, sig, cfg.name+": "+d+"\n"+desc(), cost, rp) }
		if x.ErrKind != "" {
			viol(x.ErrKind, firstLine(x.Err), x.Err)
			return
		}
		for _, b := range r.bad {
			viol("running-call-unregistered", "registration-removed-by-another-call", b)
		}
		if r.finished != len(cfg.scripts) {
			viol("deadlock", "caller-never-returned", fmt.Sprintf("%d of %d threads finished: %v", r.finished, len(cfg.scripts), stuckNow("t")))
			return
		}
		// 1. invocations for one key never overlap
		for i, a := range r.calls {
			for _, b := range r.calls[i+1:] {
				if a.key == b.key && a.beg < b.end && b.beg < a.end {
					viol("overlapping-loads", "same-key", fmt.Sprintf("two fn invocations for key %d overlap", a.key))
				}
			}
		}
		// 2. every caller's result is the outcome of its own invocation or of one that was in flight during its call
		for _, y := range r.results {
			ok := false
			for n, c := range r.calls {
				if c.key != y.key {
					continue
				}
				own := y.ran == n
				// the invocation stays registered (joinable) until its leader's Do returns
				regEnd := 1 << 30
				for _, l := range r.results {
					if l.ran == n && l.ret != 0 {
						regEnd = l.ret
					}
				}
				if !own && !(c.beg < y.ret && y.inv < regEnd) {
					continue
				}
				switch c.out {
				case "ok":
					ok = ok || (y.err == "" && !y.panicked && !y.exited && y.val == c.val)
				case "err":
					ok = ok || (y.err == "fn failed" && !y.panicked && !y.exited)
				case "panic", "panicnil":
					ok = ok || y.panicked
				case "exit":
					ok = ok || y.exited
				}
			}
			if !ok {
				viol("result-not-shared", fmt.Sprintf("ran=%v", y.ran >= 0), fmt.Sprintf("t%d: Do(k%d) result (%d,%q,panic %v,exit %v) is not the outcome of its own or an overlapping invocation", y.t, y.key, y.val, y.err, y.panicked, y.exited))
			}
		}
		// 3. nothing left registered, every record back in the pool exactly once with no waiters
		vrt.Quiet(func() {
			if len(r.g.m) != 0 {
				viol("call-left-registered", "after-all-returned", fmt.Sprintf("%d keys still in the in-flight table", len(r.g.m)))
			}
			seen := map[*call[int]]bool{}
			for _, it := range r.g.callPool.Items() {
				c := it.(*call[int])
				if seen[c] {
					viol("record-pooled-twice", "callPool", "a call record is in the pool twice")
				}
				seen[c] = true
				if c.dups.Load() != 0 || c.wg.N() != 0 {
					viol("pooled-record-in-use", "callPool", fmt.Sprintf("pooled record has dups=%d wg=%d", c.dups.Load(), c.wg.N()))
				}
			}
		})
		var o []string
		for _, y := range r.results {
			o = append(o, fmt.Sprintf("%d:%d:%d:%s:%v:%v:%v", y.t, y.key, y.val, y.err, y.panicked, y.exited, y.ran >= 0))
		}
		sort.Strings(o)
		res.Outcome(cfg.name + "|" + strings.Join(o, ",") + fmt.Sprint(len(r.calls)))
		if res.NOutcomes() <= 2 {
			res.Sample(map[string]any{"driver": cfg.name, "observation": desc()})
		}
	}
}

func sfCfgs() []sfCfg {
	return []sfCfg{
		{name: "ok-3", plan: []string{"ok"}, scripts: [][]int{{1}, {1}, {1}}},
		{name: "err-late", plan: []string{"err", "ok"}, scripts: [][]int{{1, 1}, {1}}},
		{name: "panic-2", plan: []string{"panic", "ok"}, scripts: [][]int{{1}, {1, 1}}},
		{name: "exit-2", plan: []string{"exit", "ok"}, scripts: [][]int{{1}, {1, 1}}},
		{name: "panicnil-2", plan: []string{"panicnil", "ok"}, scripts: [][]int{{1}, {1, 1}}},
		{name: "err-then-panicnil", plan: []string{"err", "panicnil", "ok"}, scripts: [][]int{{1, 1}, {1}}},
		{name: "forget-err-3", forget: true, plan: []string{"err", "ok", "ok"}, scripts: [][]int{{1}, {1}, {1}}},
		{name: "forget-panic-3", forget: true, plan: []string{"panic", "ok", "ok"}, scripts: [][]int{{1}, {1}, {1}}},
		{name: "reuse-2keys", plan: []string{"ok", "ok", "ok"}, scripts: [][]int{{1, 2}, {1, 2}}},
		{name: "panic-reuse", plan: []string{"panic", "ok", "ok"}, scripts: [][]int{{1, 2}, {1, 2}}},
		// a record that went back to the pool after a FAILED call is re-used by a call that ends another way: the
		// second call's outcome must not be mixed with what the record still holds from the first
		{name: "err-then-exit", plan: []string{"err", "exit", "ok"}, scripts: [][]int{{1, 1}, {1}}},
		{name: "panic-then-exit", plan: []string{"panic", "exit", "ok"}, scripts: [][]int{{1, 1}, {1}}},
		{name: "err-then-panic", plan: []string{"err", "panic", "ok"}, scripts: [][]int{{1, 1}, {1}}},
		{name: "exit-then-err", plan: []string{"exit", "err", "ok"}, scripts: [][]int{{1}, {1, 1}}},
		{name: "reuse-3t", plan: []string{"ok", "ok", "ok"}, scripts: [][]int{{1, 2}, {1}, {2}}},
		{name: "panic-reuse-3t", plan: []string{"panic", "ok", "ok"}, scripts: [][]int{{1, 2}, {1}, {2}}},
	}
}

func TestVerif_C13Group(t *testing.T) {
	env := vh.Env()
	res := vh.NewResult("C13/group", "E1-SK", env)
	defer res.Write()
	for _, cfg := range sfCfgs() {
		if d := env.Params["driver"]; d != "" && d != cfg.name {
			continue
		}
		cfg := cfg
		e1Run(res, env, e1Opts{P: -1, D: -1, SK: true, MaxSteps: 5000,
			KeyFn: func(run any) string { return sfKey(run.(*sfRun)) }},
			func() (*sfRun, func()) { return sfBody(cfg) }, sfCheck(res, cfg))
		if res.Error != "" {
			return
		}
	}
}

// ---------- (b) LoadingStore ----------

func c13Check(res *vh.Result, cfg *icCfg) func(r *icRun, x *vrt.Sched, cost int) {
	return func(r *icRun, x *vrt.Sched, cost int) {
		rp := map[string]any{"driver": cfg.Name, "choices": x.Choices()}
		loads := func() string {
			var s []string
			for _, l := range r.loads {
				s = append(s, fmt.Sprintf("load(k%d)=%s/%d@[%d,%d]", l.K, l.Outcome, l.V, l.Beg, l.End))
			}
			return strings.Join(s, " ")
		}
		viol := func(clause, sig, d string) {
			res.Violate(clause, sig, cfg.Name+": "+d+"\nhistory: "+r.history()+"\nloads: "+loads()+"\nlistener: "+fmtNotes(r.h.notes), cost, rp)
		}
		if len(r.stuck) > 0 || x.ErrKind == "deadlock" {
			viol("deadlock", strings.Join(r.stuck, ",")+firstLine(x.Err), "a call never returned: "+x.Err)
			return
		}
		// 1. at most one loader invocation in flight per key
		for i, a := range r.loads {
			for _, b := range r.loads[i+1:] {
				ae, be := a.End, b.End
				if ae == 0 {
					ae = 1 << 30
				}
				if be == 0 {
					be = 1 << 30
				}
				if a.K == b.K && a.Beg < be && b.Beg < ae {
					viol("overlapping-loads", "same-key", fmt.Sprintf("loader invocations for key %d overlap", a.K))
				}
			}
		}
		// 2. every loading Get's result is explained: a hit on a written value, its own load, or a load in flight during the call
		written := map[int]bool{}
		for _, c := range r.calls {
			if c.Op.Kind == "set" {
				written[c.V] = true
			}
		}
		for _, c := range r.calls {
			if c.Op.Kind != "lget" || c.Ret == 0 {
				continue
			}
			ok := false
			if c.OK && written[c.Got] {
				ok = true // plain hit on a Set value (freshness is C01's business)
			}
			for _, l := range r.loads {
				if l.K != c.Op.K {
					continue
				}
				own := c.Loaded && c.V == l.V
				end := l.End
				if end == 0 {
					end = 1 << 30
				}
				// sharing is allowed only to a caller that was invoked while the loader was still running: a
				// Get invoked after the load is over either hits the stored value or must load again
				inflight := l.Beg < c.Ret && c.Inv < end
				if !own && !inflight {
					if c.OK && c.Got == l.V && l.Outcome == "ok" && l.End < c.Inv {
						ok = true // hit on the stored result of an earlier load
					}
					continue
				}
				switch l.Outcome {
				case "ok":
					ok = ok || (c.OK && c.Got == l.V)
				case "err":
					ok = ok || (!c.OK && c.Err == errLoad.Error())
				case "panic", "panicnil":
					ok = ok || c.Panicked
				case "exit":
					ok = ok || c.Exited
				}
			}
			if !ok {
				viol("result-not-explained", fmt.Sprintf("loaded=%v", c.Loaded), fmt.Sprintf("client%d: loading Get(%d) -> (%d,%v,%q,panic %v,exit %v) is neither a hit, its own load nor a load in flight", c.Client, c.Op.K, c.Got, c.OK, c.Err, c.Panicked, c.Exited))
			}
			if c.Loaded {
				// its own invocation's outcome must be what it got
				for _, l := range r.loads {
					if l.V == c.V && l.Outcome == "ok" && (!c.OK || c.Got != l.V) {
						viol("own-load-not-returned", "leader", fmt.Sprintf("client%d ran the loader (value %d) but got (%d,%v)", c.Client, l.V, c.Got, c.OK))
					}
				}
			}
		}
		// 3. failures are not cached: a failed load's key is resident only if somebody else wrote it
		vrt.Quiet(func() {
			for k, v := range r.final {
				explained := written[v]
				for _, l := range r.loads {
					if l.V == v && l.Outcome == "ok" && l.K == k {
						explained = true
					}
				}
				if !explained {
					viol("unexplained-resident-value", "after-failed-load", fmt.Sprintf("key %d holds %d which no Set and no successful load produced", k, v))
				}
			}
			// 4. a successful load is admitted like a Set with the loader's cost and TTL
			for _, sh := range r.h.s.shards {
				for _, e := range sh.hashmap {
					for _, l := range r.loads {
						if l.V != e.value || l.Outcome != "ok" {
							continue
						}
						wantCost := cfg.LoadCost
						if wantCost == 0 {
							wantCost = 1
						}
						if e.weight.Load() != wantCost {
							viol("loaded-cost", "entry", fmt.Sprintf("loaded value %d stored with cost %d, loader said %d", l.V, e.weight.Load(), wantCost))
						}
						if (cfg.LoadTTL == 0) != (e.expire.Load() == 0) {
							viol("loaded-ttl", "entry", fmt.Sprintf("loaded value %d stored with deadline %d, loader TTL %d", l.V, e.expire.Load(), cfg.LoadTTL))
						}
						if e.meta.prev == nil && cfg.EndWait {
							viol("loaded-not-tracked", "entry", fmt.Sprintf("loaded value %d is resident but not in any policy region after Wait", l.V))
						}
					}
				}
			}
		})
		// 5. the epilogue's loading Get on a key that is absent must run the loader again
		for _, c := range r.calls {
			if c.Client == -2 && c.Op.Kind == "lget" && !c.Loaded && c.OK && !written[c.Got] {
				// a hit on a loaded value: fine only if that load succeeded
				good := false
				for _, l := range r.loads {
					if l.V == c.Got && l.Outcome == "ok" {
						good = true
					}
				}
				if !good {
					viol("failure-cached", "epilogue-get", fmt.Sprintf("epilogue loading Get(%d) returned %d without running the loader", c.Op.K, c.Got))
				}
			}
		}
		var obs []string
		for _, c := range r.calls {
			if c.Op.Kind == "lget" {
				obs = append(obs, fmt.Sprintf("%d:%d,%v,%v,%v,%v", c.Client, c.Got, c.OK, c.Panicked, c.Exited, c.Loaded))
			}
		}
		res.Outcome(cfg.Name + "|" + strings.Join(obs, ";") + "|" + fmtMap(r.final) + fmt.Sprint(len(r.loads)))
		if res.NOutcomes() <= 2 {
			res.Sample(map[string]any{"driver": cfg.Name, "history": r.history(), "loads": loads()})
		}
	}
}

func c13Drivers() []*icCfg {
	S := func(k int) icOp { return icOp{Kind: "set", K: k, Cost: 1} }
	D := func(k int) icOp { return icOp{Kind: "del", K: k} }
	L := func(k int) icOp { return icOp{Kind: "lget", K: k} }
	big := hOpts{MaxSize: 10, ChanSize: 4, BufSize: 2}
	epi := []icOp{S(2), L(1), {Kind: "wait"}}
	return []*icCfg{
		{Name: "F1-three-callers", O: big, Loading: true, LoadCost: 2, LoadTTL: 60 * sec, Scripts: [][]icOp{{L(1)}, {L(1)}, {L(1)}}, Post: epi},
		// a cost function that cannot rate the zero value a FAILED load returns (a nil pointer, say): the callers must get the
		// loader's error, not the cost function's panic
		{Name: "F2c-error-with-cost-function", O: hOpts{MaxSize: 10, ChanSize: 4, BufSize: 2, Cost: func(v int) int64 {
			if v == 0 {
				panic("loader panic: cost function called on the zero value of a failed load")
			}
			return 1
		}}, Loading: true, LoadPlan: []string{"err"}, Scripts: [][]icOp{{L(1), L(1)}, {L(1)}}, Post: epi},
		{Name: "F2-error", O: big, Loading: true, LoadCost: 1, LoadPlan: []string{"err"}, Scripts: [][]icOp{{L(1), L(1)}, {L(1)}}, Post: epi},
		{Name: "F3n-panic-nil", O: big, Loading: true, LoadCost: 1, LoadPlan: []string{"panicnil"}, Scripts: [][]icOp{{L(1)}, {L(1)}, {S(2)}}, Post: epi},
		{Name: "F3-panic", O: big, Loading: true, LoadCost: 1, LoadPlan: []string{"panic"}, Scripts: [][]icOp{{L(1)}, {L(1)}, {S(2)}}, Post: epi},
		{Name: "F4-goexit", O: big, Loading: true, LoadCost: 1, LoadPlan: []string{"exit"}, Scripts: [][]icOp{{L(1)}, {L(1)}, {S(2)}}, Post: epi},
		{Name: "F5-with-writers", O: big, Loading: true, LoadCost: 1, Scripts: [][]icOp{{L(1)}, {L(1)}, {S(1), D(1)}}, Post: epi},
		{Name: "F7-err-then-exit", O: big, Loading: true, LoadCost: 1, LoadPlan: []string{"err", "exit"}, Scripts: [][]icOp{{L(1), L(1)}, {L(1)}}, Post: epi},
		{Name: "F6-two-keys", O: big, Loading: true, LoadCost: 1, Scripts: [][]icOp{{L(1), L(4)}, {L(1)}, {L(4)}}, Post: epi},
	}
}

func TestVerif_C13(t *testing.T) {
	env := vh.Env()
	res := vh.NewResult("C13", "E1-ICB", env)
	defer res.Write()
	for _, cfg := range c13Drivers() {
		if d := env.Params["driver"]; d != "" && d != cfg.Name {
			continue
		}
		cfg.P, cfg.D = env.Int("P", 2), env.Int("D", 1)
		cfg.EndWait = true
		icExplore(res, env, cfg, c13Check(res, cfg))
		if res.Error != "" {
			return
		}
	}
}
