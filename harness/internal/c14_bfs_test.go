//go:build verif && vsched

package internal

import (
	"fmt"
	"strings"
	"testing"

	"github.com/Yiling-J/theine-go/internal/vrt/vh"
)

// C14 — a hybrid cache never serves a stale, deleted or expired value from either tier.
//
// Part 1, engine E2-BFS (big steps, scheduler manual mode) with the scripted secondary store:
//   sync-*   call sequences (every call followed by maintenance batches and worker iterations until nothing is
//            queued), virtual clock advances, admission coin enumerated per call (probability 0.5), fault scripts;
//   async-*  the same calls with the maintenance batch (M, M<coin mask>) and the worker iteration (W<i>) as
//            separate actions, so a demotion may be pending (entry still in the shard map, queued for the worker)
//            while Set / Delete / Get on the same key run; hand-off queue of capacity 1 (full queue);
//   bf-*     additionally the window between a call's map phase and its event send (B/F), two clients.
//
// Oracle: reference = per key the writes in linearization order (map phases are atomic big steps). A Get
// (GetWithSecodary / LoadingStore.Get) that began after write W had returned must answer with the value of W
// or of a later write, or miss; never with a value that a returned Delete or Set superseded, never with a
// value whose deadline (virtual clock) has passed. A miss is always allowed.
//
// Root causes get one signature each (where the served copy came from, when it was written relative to the
// superseding write, and why the newer value was not there); the first report for a (key,value) taints it.

func c14Check(res *vh.Result) bsVisit {
	return func(w *bsWorld, hist []string) {
		hy := w.hy
		rp := map[string]any{"cfg": w.cfg.Name, "hist": hist, "faults": hy.cfg.Faults}
		viol := func(clause, sig, detail string) {
			res.Violate(clause, sig, fmt.Sprintf("cfg %s (MaxSize %d, probability %v, hand-off capacity %d, faults %q), history %v (then drained): %s\ncalls: %s\nsecondary calls: %s\nsecondary now: {%s}; memory: {%s}; demotions skipped: {%s}",
				w.cfg.Name, w.cfg.MaxSize, hy.cfg.Prob, cap(w.h.s.secondaryCacheBuf), hy.cfg.Faults, hist, detail, hyFmtHist(w), hy.sec.logString(0), hy.sec.String(), fmtMap(w.h.resident()), hyFmtDrops(hy.drops)), len(hist), rp)
		}
		writes := hyWrites(w)
		tainted := map[[2]int]bool{}
		var outcome []string
		for _, r := range w.recs {
			if r.Op.Kind != "hget" && r.Op.Kind != "lget" {
				continue
			}
			if r.End == 0 || r.Err != "" || (r.Op.Kind == "hget" && !r.OK) {
				outcome = append(outcome, "-")
				continue
			}
			k, got := r.Op.K, r.Got
			if r.Op.Kind == "lget" && r.Loads > 0 && got == r.V {
				outcome = append(outcome, "L")
				continue // the call's own fresh load
			}
			ws := writes[k]
			idx := hyRefAt(ws, r)
			j := -1
			for i, x := range ws {
				if x.Kind != "del" && x.V == got && x.Rec.Begin <= r.Begin {
					j = i
				}
			}
			served, si, fromSec := w.hyServed(r)
			fromSec = fromSec && served.V == got
			tier := "memory"
			if fromSec {
				tier = "secondary"
			}
			if tainted[[2]int{k, got}] {
				outcome = append(outcome, "t")
				continue
			}
			switch {
			case j < 0:
				tainted[[2]int{k, got}] = true
				viol("unknown-value", tier, fmt.Sprintf("%s(%d) returned %d, which nobody wrote to that key", r.Op.Kind, k, got))
				outcome = append(outcome, "?")
			case j >= idx:
				wv := ws[j]
				if wv.Deadline != 0 && wv.Deadline <= r.Now {
					tainted[[2]int{k, got}] = true
					sig := "served-from-memory:" + r.Op.Kind
					if fromSec {
						sig = "secondary-copy-promoted-without-deadline-check:" + r.Op.Kind
					}
					viol("past-deadline", sig, fmt.Sprintf("%s(%d) at t=%d returned %d from the %s tier; that value (written by %s at t=%d) has deadline %d; secondary answer: expire=%d",
						r.Op.Kind, k, r.Now, got, tier, wv.Rec.Op, wv.Rec.Now, wv.Deadline, served.Expire))
					outcome = append(outcome, "X")
				} else {
					outcome = append(outcome, "v")
				}
			default:
				// stale: write idx (returned before this Get began) superseded the value
				tainted[[2]int{k, got}] = true
				ref := ws[idx]
				clause := "stale-value-served"
				if ref.Kind == "del" {
					clause = "deleted-value-served"
				}
				sig := ""
				if !fromSec {
					sig = "served-from-memory"
				} else {
					// the secondary copy: when was it written, relative to the first write that superseded it?
					first := ws[j+1]
					wrote := -1
					for i := si; i >= 0; i-- {
						c := hy.sec.log[i]
						if c.Op == "set" && c.K == k && c.V == got && !c.Fail {
							wrote = i
							break
						}
					}
					switch {
					case wrote >= 0 && !hy.sec.log[wrote].Cur && hy.sec.log[wrote].Step > first.Rec.Begin:
						// the worker copied a value that the shard map no longer held for the key
						sig = "worker-wrote-superseded-value"
					case ref.Kind == "del":
						reached := false
						sp := hy.span[ref.Rec]
						for _, c := range hy.sec.log[sp[0]:sp[1]] {
							if c.Op == "del" && c.K == k {
								reached = true
							}
						}
						if reached {
							sig = "copy-reappeared-after-delete"
						} else {
							sig = "delete-skips-secondary-when-key-not-in-memory"
						}
					default:
						// superseded by a Set / load whose value is no longer there
						fate := "gone-without-trace"
						for _, d := range hy.drops {
							if d.K == k && d.V == ref.V {
								fate = "demotion-skipped:" + d.Cause
							}
						}
						if fate == "gone-without-trace" {
							switch {
							case ref.Deadline != 0 && ref.Deadline <= r.Now:
								fate = "expired"
							case c14FailedSet(hy, k, ref.V):
								fate = "write-back-failed"
							case c14FailedDelete(w, k, ref.Rec, r):
								fate = "removed-by-failed-delete"
							}
						}
						sig = "set-leaves-older-secondary-copy;newer-value-" + fate
					}
				}
				viol(clause, sig, fmt.Sprintf("%s(%d) at t=%d returned %d from the %s tier, but %s (call #%d) had returned before this Get began and superseded it (value %d was written by %s)",
					r.Op.Kind, k, r.Now, got, tier, c14Desc(ref), idx, got, ws[j].Rec.Op))
				outcome = append(outcome, "S")
			}
		}
		if vh.Env().Replay != "" {
			res.Note("calls: %s\nsecondary calls: %s\nsecondary now: {%s}; memory: {%s}; demotions skipped: {%s}; get verdicts: %s; coin calls %d", hyFmtHist(w), hy.sec.logString(0), hy.sec.String(), fmtMap(w.h.resident()), hyFmtDrops(hy.drops), strings.Join(outcome, ""), hy.coin.calls)
		}
		res.Outcome(fmt.Sprintf("%s|%s|%s|mem %s|sec %s", w.cfg.Name, hy.cfg.Faults, strings.Join(outcome, ""), fmtMap(w.h.resident()), hy.sec.String()))
	}
}

func c14Desc(x *hyWrite) string {
	switch x.Kind {
	case "del":
		return fmt.Sprintf("Delete(%d)", x.Rec.Op.K)
	case "load":
		return fmt.Sprintf("the load of %d by %s", x.V, x.Rec.Op)
	}
	return fmt.Sprintf("Set(%d=%d) [%s]", x.Rec.Op.K, x.V, x.Rec.Op)
}

func c14FailedSet(hy *hyWorld, k, v int) bool {
	for _, c := range hy.sec.log {
		if c.Op == "set" && c.K == k && c.V == v && c.Fail {
			return true
		}
	}
	return false
}

// c14FailedDelete: a Delete of k that returned an error ran between the write and the reader.
func c14FailedDelete(w *bsWorld, k int, write, reader *bsRec) bool {
	for _, r := range w.recs {
		if r.Op.Kind == "hdel" && r.Op.K == k && r.Begin > write.Begin && r.Begin < reader.Begin && r.End != 0 && !r.OK {
			return true
		}
	}
	return false
}

func c14Cfgs() []*bsCfg {
	const long = 3600 * sec
	S := func(k int) bsOp { return bsOp{"set", k, 1, 0} }
	T := func(k int) bsOp { return bsOp{"set", k, 1, long} }
	Q := func(k int) bsOp { return bsOp{"set", k, 1, sec} } // short TTL
	H := func(k int) bsOp { return bsOp{"hget", k, 0, 0} }
	L := func(k int) bsOp { return bsOp{"lget", k, 0, 0} }
	D := func(k int) bsOp { return bsOp{"hdel", k, 0, 0} }
	base := func(name string, max int64, n int, hy *hyCfg, ops []bsOp) *bsCfg {
		c := &bsCfg{Name: name, MaxSize: max, ChanSize: 2, BufSize: 2, NClients: 1, OpsPer: n, Depth: n, Ops: ops, Hy: hy}
		if !hy.Sync {
			c.Depth = 2*n + 1 // calls + batches + worker iterations
		}
		return c
	}
	adv := func(c *bsCfg, n int) *bsCfg {
		c.Advs, c.MaxAdv = []int64{2 * sec}, n
		c.Depth += n
		return c
	}
	ld := func(c *bsCfg, ttl int64) *bsCfg {
		c.Loading, c.LoadCost, c.LoadTTL = true, 1, ttl
		return c
	}
	syn := func(prob float32, faults string) *hyCfg {
		return &hyCfg{Workers: 1, Prob: prob, Sync: true, Faults: faults}
	}
	asy := func(prob float32, workers, buf int) *hyCfg {
		return &hyCfg{Workers: workers, Prob: prob, SecBuf: buf, Fused: true}
	}
	return []*bsCfg{
		// call sequences, probability 1
		base("sync-simple", 1, 6, syn(1, ""), []bsOp{T(1), T(2), S(1), H(1), D(1)}),
		adv(base("sync-expiry", 1, 5, syn(1, ""), []bsOp{T(1), Q(1), T(2), H(1), D(1)}), 1),
		adv(ld(base("sync-loading", 1, 5, syn(1, ""), []bsOp{Q(1), T(1), T(2), L(1), D(1)}), long), 1),
		adv(ld(base("sync-loading-ttl", 1, 5, syn(1, ""), []bsOp{L(1), L(2), T(1), D(1)}), sec), 2),
		base("sync-m2", 2, 6, syn(1, ""), []bsOp{T(1), T(2), T(3), H(1), D(1)}),
		// admission coin enumerated (probability 0.5)
		base("sync-coin", 1, 5, syn(0.5, ""), []bsOp{T(1), T(2), H(1), D(1)}),
		// failing secondary calls
		base("sync-fault-S1", 1, 5, syn(1, "S1"), []bsOp{T(1), T(2), H(1), D(1)}),
		base("sync-fault-D1", 1, 6, syn(1, "D1"), []bsOp{T(1), T(2), H(1), D(1)}),
		base("sync-fault-G1", 1, 5, syn(1, "G1"), []bsOp{T(1), T(2), H(1), D(1)}),
		// the secondary tier refuses to delete (twice) while a demoted copy passes its deadline: the expired copy must still not be served
		adv(base("sync-expiry-fault-D", 1, 5, syn(1, "D11"), []bsOp{Q(1), T(2), H(1), D(1)}), 1),
		adv(ld(base("sync-loading-expiry-fault-D", 1, 5, syn(1, "D11"), []bsOp{Q(1), T(2), L(1), D(1)}), long), 1),
		// demotion pending while other calls run (M / W separate), 1-2 workers
		adv(base("async-simple", 1, 5, asy(1, 1, 0), []bsOp{T(1), Q(1), T(2), H(1), D(1)}), 1),
		base("async-2workers", 1, 4, asy(1, 2, 0), []bsOp{T(1), T(2), H(1), D(1)}),
		ld(base("async-loading", 1, 4, asy(1, 1, 0), []bsOp{T(1), T(2), L(1), D(1)}), long),
		// full hand-off queue (capacity 1)
		base("async-full", 1, 5, asy(1, 1, 1), []bsOp{T(1), T(2), T(3), H(1)}),
		// map phase / event send window, two clients
		func() *bsCfg {
			c := base("bf-2clients", 1, 2, &hyCfg{Workers: 1, Prob: 1}, []bsOp{T(1), T(2), H(1), D(1)})
			c.NClients = 2
			return c
		}(),
	}
}

func TestVerif_C14(t *testing.T) {
	env := vh.Env()
	res := vh.NewResult("C14", "E2-BFS", env)
	defer res.Write()
	hyRun(res, env, c14Cfgs(), func(cfg *bsCfg) *bsSearch {
		return &bsSearch{cfg: cfg, res: res, env: env, drained: c14Check(res)}
	})
}
