//go:build verif && vsched

package internal

import (
	"fmt"
	"strings"
	"testing"

	"github.com/Yiling-J/theine-go/internal/vrt"
	"github.com/Yiling-J/theine-go/internal/vrt/vh"
)

// C14, part 2 — engine E1-ICB: the fine-grained windows big steps cannot see. The real worker goroutine
// (processSecondary), the maintenance goroutine and 1-2 clients are interleaved at every scheduling point
// (locks, channel operations, optionally inside every secondary call) within a preemption bound:
//   * promotion (GetWithSecodary / LoadingStore.Get: miss, then lookup+insert under the shard lock) racing a Set or
//     a Delete of the same key;
//   * the worker copying a queued entry (read lock, Secondary.Set, unlock, write lock, remove the slot) racing a Set
//     or a Delete of the same key; two workers;
//   * the admission coin as an environment choice.
// An epilogue on the main thread (after everything is quiescent) reads every key back.
//
// Oracle (real-time order of calls, no false alarm under concurrency): a Get that returns value v written by call
// Wv violates the property iff some Set/Delete W' of that key satisfies Wv.ret < W'.inv and W'.ret < Get.inv
// (v was definitely superseded before the Get began). Signatures name the root cause as in part 1.

type c14IcWrite struct {
	kind string // set load del
	v    int
	call *icCall
}

func c14IcCheck(res *vh.Result, cfg *icCfg) func(r *icRun, x *vrt.Sched, cost int) {
	return func(r *icRun, x *vrt.Sched, cost int) {
		rp := map[string]any{"driver": cfg.Name, "choices": x.Choices()}
		hy := r.hy
		viol := func(clause, sig, d string) {
			res.Violate(clause, sig, fmt.Sprintf("%s: %s\nhistory: %s\nsecondary calls: %s\nsecondary now: {%s}; memory at the end: {%s}; demotions skipped: {%s}",
				cfg.Name, d, r.history(), hy.sec.logString(0), hy.sec.String(), fmtMap(r.final), hyFmtDrops(hy.drops)), cost, rp)
		}
		if len(r.stuck) > 0 || x.ErrKind == "deadlock" {
			viol("call-never-returns", strings.Join(r.stuck, ",")+firstLine(x.Err), fmt.Sprintf("calls parked forever: %v %s", r.stuck, x.Err))
			return
		}
		writes := map[int][]*c14IcWrite{}
		for _, c := range r.calls {
			switch c.Op.Kind {
			case "set":
				if c.Ret == 0 || c.OK {
					writes[c.Op.K] = append(writes[c.Op.K], &c14IcWrite{"set", c.V, c})
				}
			case "lget":
				if c.Loaded {
					writes[c.Op.K] = append(writes[c.Op.K], &c14IcWrite{"load", c.V, c})
				}
			case "hdel":
				if c.Ret == 0 || c.OK {
					writes[c.Op.K] = append(writes[c.Op.K], &c14IcWrite{"del", 0, c})
				}
			}
		}
		tainted := map[[2]int]bool{}
		var obs []string
		for _, g := range r.calls {
			if (g.Op.Kind != "hget" && g.Op.Kind != "lget") || g.Ret == 0 || !g.OK {
				continue
			}
			if g.Op.Kind == "lget" && g.Loaded && g.Got == g.V {
				obs = append(obs, "L")
				continue
			}
			k, v := g.Op.K, g.Got
			// past its deadline: the answer came out of the secondary tier, and the copy's deadline had passed by the
			// time that (possibly slow) read handed it over - the lookup had the means to notice
			for _, c := range hy.sec.log {
				if c.Ctx == any(g) && c.Op == "get" && c.K == k && c.Found && c.V == v && c.Expire != 0 && c.EndNow >= c.Expire {
					obs = append(obs, "X")
					viol("past-deadline", "secondary-copy-expired-before-the-read-completed:"+g.Op.Kind,
						fmt.Sprintf("%s returned %d from the secondary tier; the copy's deadline %d had passed when the secondary read completed (clock %d)", g.Op, v, c.Expire, c.EndNow))
				}
			}
			var wv *c14IcWrite
			for _, w := range writes[k] {
				if w.kind != "del" && w.v == v {
					wv = w
				}
			}
			if wv == nil {
				if !tainted[[2]int{k, v}] {
					tainted[[2]int{k, v}] = true
					viol("unknown-value", "icb", fmt.Sprintf("%s returned %d, which nobody wrote to key %d", g.Op, v, k))
				}
				continue
			}
			var sup *c14IcWrite
			for _, w := range writes[k] {
				if w != wv && wv.call.Ret != 0 && wv.call.Ret < w.call.Inv && w.call.Ret != 0 && w.call.Ret < g.Inv {
					if sup == nil || w.call.Inv > sup.call.Inv {
						sup = w
					}
				}
			}
			if sup == nil {
				obs = append(obs, "v")
				continue
			}
			obs = append(obs, "S")
			if tainted[[2]int{k, v}] {
				continue
			}
			tainted[[2]int{k, v}] = true
			clause := "stale-value-served"
			if sup.kind == "del" {
				clause = "deleted-value-served"
			}
			// where did the answer come from?
			lookup := -1
			for i, c := range hy.sec.log {
				if c.Ctx == any(g) && c.Op == "get" && c.K == k && c.Found && c.V == v {
					lookup = i
				}
			}
			tier := "secondary"
			if lookup < 0 {
				// a memory hit: the promotion that brought the value back into memory is the lookup to judge
				tier = "memory"
				for i, c := range hy.sec.log {
					if c.Op == "get" && c.K == k && c.Found && c.V == v && c.Step <= g.Inv {
						lookup = i
					}
				}
			}
			sig := ""
			delReached := false
			if sup.kind == "del" {
				for _, c := range hy.sec.log {
					if c.Ctx == any(sup.call) && c.Op == "del" {
						delReached = true
					}
				}
			}
			overwrote := false
			for _, c := range hy.sec.log {
				// a promotion looked the old copy up while the shard map already held an entry for the key
				if c.Op == "get" && c.K == k && c.Found && c.V == v && c.Cur && c.Step >= sup.call.Inv {
					overwrote = true
				}
			}
			wrote := -1
			for i := lookup; i >= 0; i-- {
				c := hy.sec.log[i]
				if c.Op == "set" && c.K == k && c.V == v && !c.Fail {
					wrote = i
					break
				}
			}
			switch {
			case sup.kind == "del" && !delReached:
				sig = "delete-skips-secondary-when-key-not-in-memory"
			case overwrote:
				sig = "promotion-overwrote-newer-value"
			case lookup < 0:
				sig = "served-from-memory"
			case wrote >= 0 && !hy.sec.log[wrote].Cur:
				sig = "worker-wrote-superseded-value"
			case sup.kind == "del":
				sig = "copy-reappeared-after-delete"
			default:
				fate := "gone-without-trace"
				for _, d := range hy.drops {
					if d.K == k && d.V == sup.v {
						fate = "demotion-skipped:" + d.Cause
					}
				}
				if fate == "gone-without-trace" && c14FailedSetIc(hy, k, sup.v) {
					fate = "write-back-failed"
				}
				sig = "set-leaves-older-secondary-copy;newer-value-" + fate
			}
			viol(clause, sig, fmt.Sprintf("%s (call interval [%d,%d]) returned %d from the %s tier; %s of client %d had returned at %d, and it began at %d, after the write of %d had returned at %d",
				g.Op, g.Inv, g.Ret, v, tier, sup.call.Op, sup.call.Client, sup.call.Ret, sup.call.Inv, v, wv.call.Ret))
		}
		res.Outcome(fmt.Sprintf("%s|%s|mem %s|sec %s", cfg.Name, strings.Join(obs, ""), fmtMap(r.final), hy.sec.String()))
		if res.NOutcomes() <= 2 {
			res.Sample(map[string]any{"driver": cfg.Name, "history": r.history(), "secondary": hy.sec.logString(0)})
		}
		if cfg.EndClose && len(r.leaked) > 0 && res.NOutcomes() <= 1 {
			// not part of the C14 oracle: the C10 leftover (goroutines of a hybrid cache after Close)
			res.Note("C10 leftover, driver %s: goroutines still alive after Store.Close: %v", cfg.Name, r.leaked)
		}
		if vh.Env().Replay != "" {
			res.Note("history: %s\nsecondary calls: %s\nleaked after Close: %v", r.history(), hy.sec.logString(0), r.leaked)
		}
	}
}

func c14FailedSetIc(hy *hyIcRun, k, v int) bool {
	for _, c := range hy.sec.log {
		if c.Op == "set" && c.K == k && c.V == v && c.Fail {
			return true
		}
	}
	return false
}

func c14IcDrivers() []*icCfg {
	const long = 3600 * sec
	T := func(k int) icOp { return icOp{Kind: "set", K: k, Cost: 1, TTL: long} }
	H := func(k int) icOp { return icOp{Kind: "hget", K: k} }
	L := func(k int) icOp { return icOp{Kind: "lget", K: k} }
	D := func(k int) icOp { return icOp{Kind: "hdel", K: k} }
	W := icOp{Kind: "wait"}
	Z := icOp{Kind: "settle"}
	o := hOpts{MaxSize: 1, ChanSize: 4, BufSize: 2}
	hy := func(workers int, prob float32, slow bool) *hyIcCfg {
		return &hyIcCfg{Workers: workers, Prob: prob, Slow: slow}
	}
	// pre-histories: key 1 demoted and copied (in the secondary tier only) / demoted but still queued for the worker
	demoted := []icOp{T(1), T(2), W, Z}
	queued := []icOp{T(1), T(2), W}
	return []*icCfg{
		{Name: "I1-promote-vs-set", O: o, Hy: hy(1, 1, false), Pre: demoted, Scripts: [][]icOp{{H(1)}, {T(1)}}, Post: []icOp{W, Z, H(1)}},
		{Name: "I1L-loading-promote-vs-set", O: o, Hy: hy(1, 1, false), Loading: true, LoadCost: 1, LoadTTL: long, Pre: demoted, Scripts: [][]icOp{{L(1)}, {T(1)}}, Post: []icOp{W, Z, L(1)}},
		{Name: "I2-worker-vs-set", O: o, Hy: hy(1, 1, false), Pre: queued, Scripts: [][]icOp{{T(1)}}, Post: []icOp{W, Z, H(1)}},
		{Name: "I3-worker-vs-delete-set", O: o, Hy: hy(1, 1, false), Pre: queued, Scripts: [][]icOp{{D(1), T(1)}, {H(1)}}, Post: []icOp{W, Z, H(1)}},
		{Name: "I4-promote-vs-delete", O: o, Hy: hy(1, 1, false), Pre: demoted, Scripts: [][]icOp{{H(1)}, {D(1)}}, Post: []icOp{W, Z, H(1)}},
		{Name: "I5-two-workers", O: o, Hy: hy(2, 1, false), Pre: []icOp{T(1), T(2), T(3), W}, Scripts: [][]icOp{{T(1)}, {H(2)}}, Post: []icOp{W, Z, H(1), H(2)}},
		{Name: "I6-slow-secondary", O: o, Hy: hy(1, 1, true), Pre: demoted, Scripts: [][]icOp{{H(1)}, {T(1), D(1)}}, Post: []icOp{W, Z, H(1)}},
		// a Delete overlapping the demotion of the same key (the worker is copying the queued entry), then a lookup
		{Name: "I8-worker-vs-delete", O: o, Hy: hy(1, 1, true), Pre: queued, Scripts: [][]icOp{{D(1)}, {H(2)}}, Post: []icOp{W, Z, H(1)}},
		// a slow secondary read of a copy whose deadline passes while the read is in progress
		{Name: "I9-slow-read-vs-deadline", O: o, Hy: hy(1, 1, true), Pre: []icOp{{Kind: "set", K: 1, Cost: 1, TTL: sec}, T(2), W, Z}, Scripts: [][]icOp{{H(1)}, {{Kind: "adv", Arg: 2 * sec}}}, Post: []icOp{W, Z, H(1)}},
		{Name: "I9L-loading-slow-read-vs-deadline", O: o, Hy: hy(1, 1, true), Loading: true, LoadCost: 1, LoadTTL: long, Pre: []icOp{{Kind: "set", K: 1, Cost: 1, TTL: sec}, T(2), W, Z}, Scripts: [][]icOp{{L(1)}, {{Kind: "adv", Arg: 2 * sec}}}, Post: []icOp{W, Z, L(1)}},
		// a second lookup, begun after the Set has returned, may JOIN the first lookup's in-flight promotion (singleflight)
		{Name: "I10-promote-vs-set-then-get", O: o, Hy: hy(1, 1, false), Pre: demoted, Scripts: [][]icOp{{H(1)}, {T(1), H(1)}}, Post: []icOp{W, Z, H(1)}},
		{Name: "I10L-loading-promote-vs-set-then-get", O: o, Hy: hy(1, 1, false), Loading: true, LoadCost: 1, LoadTTL: long, Pre: demoted, Scripts: [][]icOp{{L(1)}, {T(1), L(1)}}, Post: []icOp{W, Z, L(1)}},
		// loading store: promotion racing a Delete / a Set-then-eviction, secondary calls slow (scheduling points inside them)
		{Name: "I4L-loading-promote-vs-delete", O: o, Hy: hy(1, 1, true), Loading: true, LoadCost: 1, LoadTTL: long, Pre: demoted, Scripts: [][]icOp{{L(1)}, {D(1)}}, Post: []icOp{W, Z, L(1)}},
		// a lookup that starts after a Delete of the key has returned, while an earlier promotion of that key is finishing
		// (its singleflight call still registered): it must not be handed the deleted value
		{Name: "I11-promote-vs-delete-then-get", O: o, Hy: hy(1, 1, false), Pre: demoted, Scripts: [][]icOp{{H(1)}, {D(1), H(1)}}, Post: []icOp{W, Z, H(1)}},
		{Name: "I11L-loading-promote-vs-delete-then-get", O: o, Hy: hy(1, 1, false), Loading: true, LoadCost: 1, LoadTTL: long, Pre: demoted, Scripts: [][]icOp{{L(1)}, {D(1), L(1)}}, Post: []icOp{W, Z, L(1)}},
		{Name: "I7-coin", O: o, Hy: hy(1, 0.5, false), Pre: demoted, Scripts: [][]icOp{{T(1), T(2)}, {H(1)}}, Post: []icOp{W, Z, H(1)}},
	}
}

func TestVerif_C14_ICB(t *testing.T) {
	env := vh.Env()
	res := vh.NewResult("C14", "E1-ICB", env)
	defer res.Write()
	for _, cfg := range c14IcDrivers() {
		if d := env.Params["driver"]; d != "" && d != cfg.Name {
			continue
		}
		cfg.P, cfg.D = env.Int("P", 2), env.Int("D", 1)
		cfg.EndClose = env.Int("close", 0) == 1
		icExplore(res, env, cfg, c14IcCheck(res, cfg))
		if res.Error != "" {
			return
		}
	}
}
