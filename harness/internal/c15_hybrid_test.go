//go:build verif && vsched

package internal

import (
	"fmt"
	"sort"
	"strings"
	"testing"

	"github.com/Yiling-J/theine-go/internal/vrt"
	"github.com/Yiling-J/theine-go/internal/vrt/vh"
)

// C15 — hybrid cache: evicted entries reach the secondary tier; memory stays bounded.
//
// Engine E2-BFS (big steps, scheduler manual mode) over sequences of Set / SetWithTTL / loading Get /
// hybrid Get / Delete on 3 keys with MaxSize 1-2, admission probability 1, one worker; after every call the
// maintenance goroutine and the worker run until nothing is queued (the statement's "room in the hand-off
// queue / workers given time to keep up"). Every call is executed by the unmodified GetWithSecodary /
// DeleteWithSecondary / LoadingStore.Get / Set / maintenance / processSecondary bodies.
//
// Oracle, first sentence (histories in which every secondary call succeeded): reference = last write per
// key + deadline. (a) every hybrid Get / loading Get of a reference-live key returns its value, and a
// loading Get does so without running the loader; (b) at every quiescent state a reference-live key that is
// not resident in memory is in the secondary tier with the identical value; (c) after every history an
// immediate Get of each key is executed (destructively, the world is discarded) and judged by (a).
// Second sentence (fault scripts over Secondary.Set/Get/Delete): failed Secondary.Set calls <= HandleAsyncError
// invocations <= failed secondary calls (on the unchanged code only the worker's Set is asynchronous, so this is
// "== failed Set calls"); resident entries and their total cost <= MaxSize at every quiescent state.
//
// One signature per root cause: the first report for a (key,value) taints it, derived symptoms are dropped.

func c15Cfgs() []*bsCfg {
	const long = 3600 * sec
	S := func(k int) bsOp { return bsOp{"set", k, 1, 0} }
	T := func(k int) bsOp { return bsOp{"set", k, 1, long} }
	H := func(k int) bsOp { return bsOp{"hget", k, 0, 0} }
	L := func(k int) bsOp { return bsOp{"lget", k, 0, 0} }
	D := func(k int) bsOp { return bsOp{"hdel", k, 0, 0} }
	hy := func(faults string) *hyCfg {
		return &hyCfg{Workers: 1, Prob: 1, Sync: true, Faults: faults, Keys: []int{1, 2, 3}}
	}
	base := func(name string, max int64, ops []bsOp) *bsCfg {
		return &bsCfg{Name: name, MaxSize: max, ChanSize: 2, BufSize: 2, NClients: 1, OpsPer: 5, Depth: 5, Ops: ops, Hy: hy("")}
	}
	ld := func(c *bsCfg, ttl int64) *bsCfg {
		c.Loading, c.LoadCost, c.LoadTTL = true, 1, ttl
		return c
	}
	return []*bsCfg{
		// simple hybrid cache, entries without TTL
		base("simple-nottl", 1, []bsOp{S(1), S(2), S(3), H(1), H(2), D(1)}),
		// simple hybrid cache, entries with a (long) TTL
		base("simple-ttl", 1, []bsOp{T(1), T(2), T(3), H(1), H(2), D(1)}),
		// mixed, MaxSize 2
		base("simple-m2", 2, []bsOp{S(1), T(2), S(3), T(3), H(1), H(2)}),
		// loading hybrid cache: values come from the loader (without / with TTL) and from Set
		ld(base("loading-nottl", 1, []bsOp{L(1), L(2), L(3), S(1), D(1)}), 0),
		ld(base("loading-ttl", 1, []bsOp{L(1), L(2), L(3), T(1), D(1)}), long),
		ld(base("loading-m2", 2, []bsOp{L(1), L(2), L(3), T(2), D(2)}), long),
		// short loader TTL and a clock advance: a demoted copy expires in the secondary tier, is reloaded, evicted again
		func() *bsCfg {
			c := ld(base("loading-expiry", 1, []bsOp{L(1), L(2), L(3)}), sec)
			c.Advs, c.MaxAdv, c.Depth, c.OpsPer = []int64{2 * sec}, 1, 6, 5
			return c
		}(),
		// entry pool on: evicted entry objects are recycled for later insertions (what a recycled object still carries
		// from its previous life must not decide whether the new entry is written back)
		func() *bsCfg {
			c := base("simple-pool", 1, []bsOp{S(1), S(2), S(3), H(1), H(2)})
			c.Pool = true
			return c
		}(),
		func() *bsCfg {
			c := ld(base("loading-pool", 1, []bsOp{L(1), L(2), L(3), S(1)}), 0)
			c.Pool = true
			return c
		}(),
		// a hand-off queue of capacity 1: it is full when one policy step evicts two entries (the worker runs between
		// policy steps); the second demotion is dropped by design - but the entry must still leave memory
		func() *bsCfg {
			c := base("queue-full", 2, []bsOp{S(1), S(2), {"set", 3, 2, 0}, {"set", 1, 2, 0}, H(1), H(2)})
			c.Hy = &hyCfg{Workers: 1, Prob: 1, SecBuf: 1, Sync: true, Keys: []int{1, 2, 3}}
			return c
		}(),
		// fault scripts (expanded by c15FaultScripts)
		base("fault-simple", 1, []bsOp{T(1), T(2), T(3), H(1), D(1)}),
		ld(base("fault-loading", 2, []bsOp{L(1), L(2), L(3), T(1), D(1)}), long),
	}
}

// c15FaultScripts: every {ok,fail} script of length n for Secondary.Set, plus scripts that fail the
// first Get / Delete calls.
func c15FaultScripts(n int) []string {
	var r []string
	for m := 1; m < 1<<uint(n); m++ {
		s := "S"
		for i := 0; i < n; i++ {
			if m&(1<<uint(i)) != 0 {
				s += "1"
			} else {
				s += "0"
			}
		}
		r = append(r, s)
	}
	r = append(r, "G1", "G01", "D1", "D01", "S1,G1", "S01,D1", "S1,G01,D1")
	return r
}

type c15State struct {
	tainted map[[2]int]bool
}

func c15Check(res *vh.Result) (drained, probe bsVisit) {
	states := map[*bsWorld]*c15State{}
	get := func(w *bsWorld) *c15State {
		st := states[w]
		if st == nil {
			for k := range states {
				delete(states, k) // one world at a time
			}
			st = &c15State{tainted: map[[2]int]bool{}}
			states[w] = st
		}
		return st
	}
	eval := func(w *bsWorld, hist []string, from int, probing bool) {
		st := get(w)
		hy := w.hy
		max := w.cfg.MaxSize
		rp := map[string]any{"cfg": w.cfg.Name, "hist": hist, "faults": hy.cfg.Faults}
		viol := func(clause, sig, detail string) {
			res.Violate(clause, sig, fmt.Sprintf("cfg %s (MaxSize %d, faults %q), history %v: %s\ncalls: %s\nsecondary calls: %s\nsecondary now: {%s}; memory: {%s}; demotions skipped: {%s}",
				w.cfg.Name, max, hy.cfg.Faults, hist, detail, hyFmtHist(w), hy.sec.logString(0), hy.sec.String(), fmtMap(w.h.resident()), hyFmtDrops(hy.drops)), len(w.recs), rp)
		}
		writes := hyWrites(w)
		now := vrt.NowNanos()
		// why is value v of key k not in the secondary tier?
		origin := func(k, v int) string {
			for _, x := range writes[k] {
				if x.V == v && x.Kind != "del" {
					if x.Kind == "load" {
						return "loader-entry"
					}
					// a Set: into an entry the loader had created (and NewStore flagged), into a promoted entry, or a fresh one
					if !x.Rec.Created && x.Rec.Entry != nil {
						for _, y := range w.recs {
							if y.Op.Kind == "lget" && y.Loads > 0 && y.Created && y.Entry == x.Rec.Entry {
								return "set-on-loader-entry"
							}
						}
						return "set-on-promoted-entry"
					}
					return "set-entry"
				}
			}
			return "unknown-entry"
		}
		whyAbsent := func(k, v int) string {
			written, removedAt := false, -1
			for i, c := range hy.sec.log {
				if c.K != k || c.Fail {
					continue
				}
				if c.Op == "set" && c.V == v {
					written, removedAt = true, -1
				}
				if c.Op == "del" && written && c.Found && c.V == v {
					removedAt = i
				}
			}
			if written && removedAt >= 0 {
				// who deleted it: a lookup (get immediately before, same thread, same step) or a Delete call
				if removedAt > 0 {
					p := hy.sec.log[removedAt-1]
					if p.Op == "get" && p.K == k && p.Step == hy.sec.log[removedAt].Step {
						if p.Expire == 0 {
							return "ttl-less-copy-treated-as-expired-by-lookup"
						}
						return "copy-discarded-by-lookup"
					}
				}
				return "copy-deleted"
			}
			if written {
				return "copy-overwritten"
			}
			for _, d := range hy.drops {
				if d.K == k && d.V == v {
					return "never-demoted:" + d.Cause + ":" + origin(k, v)
				}
			}
			return "never-demoted:no-trace:" + origin(k, v)
		}
		noFailBefore := func(upto int) bool {
			for _, c := range hy.sec.log[:upto] {
				if c.Fail {
					return false
				}
			}
			return true
		}
		// (a) Gets of the history (or of the probe phase)
		for _, r := range w.recs[from:] {
			if r.Op.Kind != "hget" && r.Op.Kind != "lget" {
				continue
			}
			sp := hy.span[r]
			if r.End == 0 || sp[1] < 0 || !noFailBefore(sp[1]) {
				continue
			}
			k := r.Op.K
			ws := writes[k]
			idx := hyRefAt(ws, r)
			if idx < 0 || ws[idx].Kind == "del" {
				continue
			}
			ref := ws[idx]
			if ref.Deadline != 0 && ref.Deadline <= r.Now {
				continue
			}
			key := [2]int{k, ref.V}
			var bad string
			switch r.Op.Kind {
			case "hget":
				if !r.OK && r.Err == "" {
					bad = "missed"
				}
			case "lget":
				if r.Loads > 0 {
					bad = "reloaded"
				}
			}
			if bad == "" || st.tainted[key] {
				continue
			}
			st.tainted[key] = true
			cause := ""
			if c, _, ok := w.hyServed(r); ok && c.V == ref.V {
				// the secondary tier did answer with the value: the caller threw it away
				cause = "copy-discarded-by-lookup"
				if c.Expire == 0 {
					cause = "ttl-less-copy-treated-as-expired-by-lookup"
				}
			} else {
				cause = whyAbsent(k, ref.V)
			}
			what := "an immediate Get"
			if !probing {
				what = "a Get"
			}
			if strings.HasPrefix(cause, "never-demoted:handoff-queue-full:") {
				continue // "a full hand-off queue drops demotions by design": outside the statement
			}
			viol("evicted-entry-lost", cause, fmt.Sprintf("key %d holds %d (written by %s, deadline %d, now %d), it is not resident in memory, and %s %s: %s(%d) returned (%d,%v), loader calls %d; secondary calls inside that Get: %s",
				k, ref.V, ref.Rec.Op, ref.Deadline, r.Now, what, bad, r.Op.Kind, k, r.Got, r.OK, r.Loads, hy.sec.logString(sp[0])))
		}
		// (b) quiescent state: reference-live, not resident => identical value in the secondary tier
		resident := w.h.resident()
		if noFailBefore(len(hy.sec.log)) {
			var ks []int
			for k := range writes {
				ks = append(ks, k)
			}
			sort.Ints(ks)
			for _, k := range ks {
				ws := writes[k]
				ref := ws[len(ws)-1]
				if ref.Kind == "del" || ref.Done == 0 || (ref.Deadline != 0 && ref.Deadline <= now) {
					continue
				}
				if _, ok := resident[k]; ok {
					continue
				}
				if e, ok := hy.sec.m[k]; ok && e.V == ref.V {
					continue
				}
				key := [2]int{k, ref.V}
				if st.tainted[key] {
					continue
				}
				st.tainted[key] = true
				if strings.HasPrefix(whyAbsent(k, ref.V), "never-demoted:handoff-queue-full:") {
					continue // dropped by design (full hand-off queue)
				}
				viol("evicted-entry-lost", whyAbsent(k, ref.V), fmt.Sprintf("key %d holds %d (written by %s, deadline %d, now %d) but at quiescence it is neither resident in memory nor does the secondary tier hold that value", k, ref.V, ref.Rec.Op, ref.Deadline, now))
			}
		}
		// second sentence: error handler and memory bound
		// every failed asynchronous write (Secondary.Set, made by the worker) is reported to the handler; the
		// handler is not invoked more often than secondary calls failed
		failedSet := hy.sec.failed("set")
		failedAll := failedSet + hy.sec.failed("get") + hy.sec.failed("del")
		if (hy.sec.errs < failedSet || hy.sec.errs > failedAll) && !st.tainted[[2]int{-2, -2}] {
			st.tainted[[2]int{-2, -2}] = true
			sig := "fewer-than-failed-sets"
			if hy.sec.errs > failedAll {
				sig = "more-than-failed-calls"
			}
			viol("error-handler-count", sig, fmt.Sprintf("HandleAsyncError ran %d times; %d Secondary.Set calls failed, %d secondary calls failed in all", hy.sec.errs, failedSet, failedAll))
		}
		var n, sum int64
		var outside []string
		for _, sh := range w.h.s.shards {
			for _, e := range sh.hashmap {
				n++
				sum += e.weight.Load()
				if e.meta.prev == nil {
					outside = append(outside, fmt.Sprintf("%d=%d(flags %b)", e.key, e.value, e.flag.Flags))
				}
			}
		}
		if (n > max || sum > max) && !st.tainted[[2]int{-1, -1}] {
			st.tainted[[2]int{-1, -1}] = true
			sort.Strings(outside)
			sig := "resident-entries-all-in-policy"
			if len(outside) > 0 {
				sig = "entry-outside-policy"
				if hy.sec.failed("set") > 0 {
					sig = "entry-left-in-map-after-failed-demotion"
				}
			}
			viol("memory-exceeds-maxsize", sig, fmt.Sprintf("at quiescence the memory tier holds %d entries of total cost %d, MaxSize %d; entries in the shard map but in no policy list: %v", n, sum, max, outside))
		}
		if !probing {
			var o []string
			for _, r := range w.recs {
				switch r.Op.Kind {
				case "hget":
					o = append(o, fmt.Sprintf("h%v", r.OK))
				case "lget":
					o = append(o, fmt.Sprintf("l%d", r.Loads))
				}
			}
			res.Outcome(fmt.Sprintf("%s|%s|%s|mem %s|sec %d|errs %d", w.cfg.Name, hy.cfg.Faults, strings.Join(o, ""), fmtMap(resident), len(hy.sec.m), hy.sec.errs))
		}
	}
	drained = func(w *bsWorld, hist []string) { eval(w, hist, 0, false) }
	probe = func(w *bsWorld, hist []string) {
		kind := "hget"
		if w.cfg.Loading {
			kind = "lget"
		}
		h := append([]string{}, hist...)
		for _, k := range w.hy.cfg.Keys {
			from := len(w.recs)
			a := fmt.Sprintf("O0 %s", bsOp{kind, k, 0, 0})
			if !w.apply(a) || w.err != "" {
				return
			}
			h = append(h, a)
			vrt.Quiet(func() { eval(w, h, from, true) })
		}
	}
	return
}

func TestVerif_C15(t *testing.T) {
	env := vh.Env()
	res := vh.NewResult("C15", "E2-BFS", env)
	defer res.Write()
	nf := env.Int("nfaults", 4)
	var cfgs []*bsCfg
	for _, c := range c15Cfgs() {
		if d := env.Params["cfg"]; d != "" && d != c.Name {
			continue
		}
		if !strings.HasPrefix(c.Name, "fault-") {
			cfgs = append(cfgs, c)
			continue
		}
		scripts := c15FaultScripts(nf)
		if env.Replay != "" {
			var rp struct {
				Faults string `json:"faults"`
			}
			if err := vh.LoadReplay(env.Replay, &rp); err == nil {
				scripts = []string{rp.Faults}
			}
		}
		for _, f := range scripts {
			cc := *c
			h := *c.Hy
			h.Faults = f
			cc.Hy = &h
			cfgs = append(cfgs, &cc)
		}
	}
	res.Bounds["fault_scripts_per_fault_cfg"] = len(c15FaultScripts(nf))
	hyRun(res, env, cfgs, func(cfg *bsCfg) *bsSearch {
		d, p := c15Check(res)
		return &bsSearch{cfg: cfg, res: res, env: env, drained: d, probe: p}
	})
}
