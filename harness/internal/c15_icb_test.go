//go:build verif && vsched

package internal

import (
	"fmt"
	"strings"
	"testing"

	"github.com/Yiling-J/theine-go/internal/vrt"
	"github.com/Yiling-J/theine-go/internal/vrt/vh"
)

// C15, part 2 — engine E1-ICB: "written to the secondary tier BEFORE it disappears from memory". Part 1 (big
// steps) lets the worker finish every demotion before the next call, so it cannot see an entry that is, for a
// moment, in neither tier. Here the real processSecondary worker is interleaved (every lock, every channel
// operation, and a scheduling point before and after the effect of each secondary call) with one client that
// looks a key up while that key's demotion is in flight.
//
// Oracle: the key was stored by a call that completed before the drivers start, is never deleted and never
// overwritten; whatever the schedule, a hybrid Get must find its value (memory or secondary) and a loading Get
// must return it without running the loader.

func c15IcCheck(res *vh.Result, cfg *icCfg) func(r *icRun, x *vrt.Sched, cost int) {
	return func(r *icRun, x *vrt.Sched, cost int) {
		rp := map[string]any{"driver": cfg.Name, "choices": x.Choices()}
		hy := r.hy
		if len(r.stuck) > 0 || x.ErrKind == "deadlock" {
			res.Violate("call-never-returns", strings.Join(r.stuck, ",")+firstLine(x.Err), fmt.Sprintf("%s: calls parked forever: %v %s", cfg.Name, r.stuck, x.Err), cost, rp)
			return
		}
		// values stored by the prologue
		stored := map[int]int{}
		for _, c := range r.calls {
			if c.Client < 0 && (c.Op.Kind == "set" || (c.Op.Kind == "lget" && c.Loaded)) && c.Ret != 0 {
				stored[c.Op.K] = c.V
			}
		}
		var obs []string
		for _, g := range r.calls {
			if g.Client < 0 || (g.Op.Kind != "hget" && g.Op.Kind != "lget") || g.Ret == 0 {
				continue
			}
			want, ok := stored[g.Op.K]
			if !ok {
				continue
			}
			switch {
			case g.Op.Kind == "lget" && g.Loaded:
				obs = append(obs, "reload")
				res.Violate("evicted-entry-reloaded", "demotion-in-flight:"+c15IcWhere(hy, g.Op.K, want),
					fmt.Sprintf("%s: %s ran the loader although key %d (value %d) was stored, never deleted, and is only being moved to the secondary tier\nhistory: %s\nsecondary calls: %s",
						cfg.Name, g.Op, g.Op.K, want, r.history(), hy.sec.logString(0)), cost, rp)
			case !g.OK || g.Got != want:
				obs = append(obs, "miss")
				res.Violate("evicted-entry-in-neither-tier", "demotion-in-flight:"+c15IcWhere(hy, g.Op.K, want),
					fmt.Sprintf("%s: %s returned (%d, found=%v) although key %d (value %d) was stored, never deleted, and is only being moved to the secondary tier\nhistory: %s\nsecondary calls: %s",
						cfg.Name, g.Op, g.Got, g.OK, g.Op.K, want, r.history(), hy.sec.logString(0)), cost, rp)
			default:
				obs = append(obs, "hit")
			}
		}
		res.Outcome(fmt.Sprintf("%s|%s|mem %s|sec %s", cfg.Name, strings.Join(obs, ","), fmtMap(r.final), hy.sec.String()))
		if res.NOutcomes() <= 2 {
			res.Sample(map[string]any{"driver": cfg.Name, "history": r.history(), "secondary": hy.sec.logString(0)})
		}
	}
}

// c15IcWhere: had the worker's secondary write of (k,v) completed when the run ended? (names the window)
func c15IcWhere(hy *hyIcRun, k, v int) string {
	for _, c := range hy.sec.log {
		if c.Op == "set" && c.K == k && c.V == v && !c.Fail {
			return "secondary-write-completed-later"
		}
	}
	return "secondary-write-never-happened"
}

func c15IcDrivers() []*icCfg {
	const long = 3600 * sec
	T := func(k int) icOp { return icOp{Kind: "set", K: k, Cost: 1, TTL: long} }
	S := func(k int) icOp { return icOp{Kind: "set", K: k, Cost: 1} }
	H := func(k int) icOp { return icOp{Kind: "hget", K: k} }
	L := func(k int) icOp { return icOp{Kind: "lget", K: k} }
	W := icOp{Kind: "wait"}
	Z := icOp{Kind: "settle"}
	o := hOpts{MaxSize: 1, ChanSize: 4, BufSize: 2}
	slow := func(workers int) *hyIcCfg { return &hyIcCfg{Workers: workers, Prob: 1, Slow: true} }
	return []*icCfg{
		// key 1 is evicted by the insertion of key 2 and sits in the hand-off queue; the client looks it up while the worker moves it
		{Name: "J1-get-during-demotion", O: o, Hy: slow(1), Pre: []icOp{S(1), S(2), W}, Scripts: [][]icOp{{H(1)}}, Post: []icOp{W, Z, H(1)}},
		{Name: "J1t-get-during-demotion-ttl", O: o, Hy: slow(1), Pre: []icOp{T(1), T(2), W}, Scripts: [][]icOp{{H(1)}}, Post: []icOp{W, Z, H(1)}},
		{Name: "J2-loading-get-during-demotion", O: o, Hy: slow(1), Loading: true, LoadCost: 1, LoadTTL: long, Pre: []icOp{L(1), L(2), W}, Scripts: [][]icOp{{L(1)}}, Post: []icOp{W, Z, L(1)}},
		{Name: "J3-two-workers-two-readers", O: o, Hy: slow(2), Pre: []icOp{S(1), S(2), S(3), W}, Scripts: [][]icOp{{H(1)}, {H(2)}}, Post: []icOp{W, Z, H(1), H(2)}},
	}
}

func TestVerif_C15_ICB(t *testing.T) {
	env := vh.Env()
	res := vh.NewResult("C15", "E1-ICB", env)
	defer res.Write()
	for _, cfg := range c15IcDrivers() {
		if d := env.Params["driver"]; d != "" && d != cfg.Name {
			continue
		}
		cfg.P, cfg.D = env.Int("P", 2), env.Int("D", 1)
		icExplore(res, env, cfg, c15IcCheck(res, cfg))
		if res.Error != "" {
			return
		}
	}
}
