//go:build verif && vsched

package internal

import (
	"fmt"
	"testing"

	"github.com/Yiling-J/theine-go/internal/vrt/vh"
)

// C16 over operation SEQUENCES with a virtual clock (E2-BFS, big steps): the counters and size views are compared with
// what happened in every drained state of searches whose alphabets mix reads with TTLs of every kind - entries that are
// expired but not yet reclaimed, re-armed, refused, loaded with a TTL, evicted, deleted. The ICB drivers of C16 look at
// interleavings of a handful of fixed scripts; this part looks at every short history of calls, ticks and clock
// advances of configurations written for C03 / C05 / C06 (their own oracles judge values, notifications, visibility).
//
//	Hits + Misses == number of Get calls made; Hits == number that returned a value (a loading Get that ran its
//	  loader is a miss; in big steps no call ever joins another call's load)
//	Len == number of keys in the map; EstimatedSize == sum of the resident entries' policy weights <= MaxSize
//	Range visits exactly the resident keys whose deadline has not passed, each once, with its current value

func c16BfsCheck(res *vh.Result) bsVisit {
	return func(w *bsWorld, hist []string) {
		rp := map[string]any{"cfg": w.cfg.Name, "hist": hist}
		viol := func(clause, sig, format string, a ...any) {
			res.Violate(clause, sig, fmt.Sprintf("cfg %s, history %v (then drained): ", w.cfg.Name, hist)+fmt.Sprintf(format, a...), len(hist), rp)
		}
		var gets, hits uint64
		for _, r := range w.recs {
			if r.End == 0 {
				return // a call is still in flight: "once all calls have returned" does not apply to this state
			}
			switch r.Op.Kind {
			case "get":
				gets++
				if r.OK {
					hits++
				}
			case "lget":
				gets++
				if r.OK && r.Loads == 0 {
					hits++
				}
			}
		}
		s := w.h.s
		st := s.Stats()
		if st.Hits()+st.Misses() != gets {
			viol("stats-total", "bfs", "Hits %d + Misses %d != %d Get calls", st.Hits(), st.Misses(), gets)
		}
		if st.Hits() != hits {
			viol("stats-hits", "bfs", "Hits %d, but %d Get calls returned a resident value", st.Hits(), hits)
		}
		now := s.timerwheel.clock.NowNano()
		nmap, live := 0, map[int]int{}
		var weight int64
		for _, sh := range s.shards {
			for k, e := range sh.hashmap {
				nmap++
				weight += e.policyWeight
				if exp := e.expire.Load(); exp == 0 || exp > now {
					live[k] = e.value
				}
			}
		}
		if l := s.Len(); l != nmap {
			viol("len", "bfs", "Len %d, the map holds %d keys", l, nmap)
		}
		if es := s.EstimatedSize(); int64(es) != weight || int64(es) > w.cfg.MaxSize {
			viol("estimated-size", "bfs", "EstimatedSize %d, resident policy weights sum to %d, MaxSize %d", es, weight, w.cfg.MaxSize)
		}
		seen := map[int]int{}
		s.Range(func(k, v int) bool {
			seen[k]++
			if lv, ok := live[k]; !ok {
				viol("range", "bfs:not-live", "Range visits %d=%d, which is not a resident unexpired key", k, v)
			} else if lv != v {
				viol("range", "bfs:value", "Range visits %d=%d, the key holds %d", k, v, lv)
			}
			return true
		})
		for k := range live {
			if seen[k] != 1 {
				viol("range", "bfs:count", "Range visited live key %d %d times", k, seen[k])
			}
		}
		res.Outcome(fmt.Sprintf("%s|h%d m%d|len%d est%d|live%d", w.cfg.Name, st.Hits(), st.Misses(), nmap, weight, len(live)))
	}
}

func c16BfsCfgs() []*bsCfg {
	var out []*bsCfg
	pick := func(all []*bsCfg, names ...string) {
		for _, c := range all {
			for _, n := range names {
				if c.Name == n {
					cc := *c
					out = append(out, &cc)
				}
			}
		}
	}
	pick(c03Cfgs(), "edges", "rearm", "refused", "loading")
	pick(c06Cfgs(), "ttl-mix", "loader-ttl")
	pick(c05Cfgs(), "m1-ttl")
	// reads of a TTL key and of a permanent key around deadlines, ticks and deletes
	out = append(out, &bsCfg{Name: "views-ttl", MaxSize: 2, ChanSize: 2, BufSize: 2, NClients: 2, OpsPer: 3, Depth: 9, Ticks: 2, TickNs: 1100 * 1e6, Advs: []int64{1100 * 1e6}, MaxAdv: 1,
		Ops: []bsOp{{"set", 1, 1, sec}, {"set", 2, 1, 0}, {"get", 1, 0, 0}, {"get", 2, 0, 0}, {"del", 1, 0, 0}}})
	return out
}

func TestVerif_C16Bfs(t *testing.T) {
	env := vh.Env()
	res := vh.NewResult("C16/bfs", "E2-BFS", env)
	defer res.Write()
	for _, cfg := range c16BfsCfgs() {
		if d := env.Params["cfg"]; d != "" && d != cfg.Name {
			continue
		}
		if d := env.Int("depth", 0); d > 0 {
			cfg.Depth = d
		}
		b := &bsSearch{cfg: cfg, res: res, env: env, drained: c16BfsCheck(res)}
		b.run()
		res.Bounds["cfg"] = cfg.Name
		res.Bounds["depth"] = cfg.Depth
		if res.Error != "" {
			return
		}
	}
}
