//go:build verif && vsched

package internal

import (
	"fmt"
	"sort"
	"strings"
	"testing"

	"github.com/Yiling-J/theine-go/internal/vrt"
	"github.com/Yiling-J/theine-go/internal/vrt/vh"
)

// C16 — counters and size views agree with what happened.
//
// (a) Component, E1-SK: the striped UnsignedCounter with every atomic a scheduling point and the
//     stripe choice after a failed CAS enumerated: Value() at the end == number of Add calls, no livelock.
// (b) Store level, E1-ICB: concurrent Get mixes on the plain and the loading store; once all calls have
//     returned Hits+Misses == #Get calls and Hits == #calls that returned a value; after Wait, Len == number
//     of resident entries, Range visits each resident unexpired key exactly once with its current value and
//     stops when told to, EstimatedSize == Σcost(resident).

type cntRun struct {
	c        *UnsignedCounter
	finished int
	adds     int
}

func cntKey(r *cntRun) string {
	var b strings.Builder
	for i := range r.c.stripes {
		fmt.Fprintf(&b, "%d,", r.c.stripes[i].c)
	}
	for _, it := range ptokenPool.Items() {
		fmt.Fprintf(&b, "t%d,", it.(*ptoken).idx&r.c.mask)
	}
	fmt.Fprintf(&b, "|%d,%d", r.finished, r.adds)
	return b.String()
}

func TestVerif_C16Counter(t *testing.T) {
	env := vh.Env()
	res := vh.NewResult("C16/counter", "E1-SK", env)
	defer res.Write()
	type cfgT struct {
		name    string
		procs   int
		threads int
		per     int
	}
	for _, cfg := range []cfgT{{"s1-3x2", 1, 3, 2}, {"s2-3x1", 2, 3, 1}, {"s2-2x2", 2, 2, 2}} {
		if d := env.Params["driver"]; d != "" && d != cfg.name {
			continue
		}
		cfg := cfg
		e1Run(res, env, e1Opts{P: -1, D: -1, SK: true, MaxSteps: 5000, Procs: cfg.procs,
			RandFn: func(string) uint32 { return uint32(vrt.Choose("stripe", cfg.procs)) },
			KeyFn:  func(run any) string { return cntKey(run.(*cntRun)) }},
			func() (*cntRun, func()) {
				r := &cntRun{}
				return r, func() {
					vrt.NoBranch(func() {
						r.c = NewUnsignedCounter()
						ptokenPool.Fingerprint = func(x any) uint64 { return uint64(x.(*ptoken).idx & r.c.mask) }
					})
					for ti := 0; ti < cfg.threads; ti++ {
						vrt.GoNamed(fmt.Sprintf("t%d", ti), func() {
							for i := 0; i < cfg.per; i++ {
								vrt.BeginOp(i)
								r.c.Add(1)
								r.adds++
							}
							r.finished++
						})
					}
					vrt.WaitIdle()
				}
			},
			func(r *cntRun, x *vrt.Sched, cost int) {
				rp := map[string]any{"driver": cfg.name, "choices": x.Choices()}
				if x.ErrKind != "" {
					res.Violate(x.ErrKind, firstLine(x.Err), cfg.name+": "+x.Err, cost, rp)
					return
				}
				var v uint64
				vrt.Quiet(func() { v = r.c.Value() })
				if r.finished != cfg.threads || v != uint64(cfg.threads*cfg.per) {
					res.Violate("counter-sum", "value!=adds", fmt.Sprintf("%s: %d threads finished, Value()=%d, adds=%d", cfg.name, r.finished, v, cfg.threads*cfg.per), cost, rp)
				}
				var st []string
				for i := range r.c.stripes {
					st = append(st, fmt.Sprint(r.c.stripes[i].c))
				}
				res.Outcome(cfg.name + "|" + strings.Join(st, ","))
				if res.NOutcomes() <= 2 {
					res.Sample(map[string]any{"driver": cfg.name, "stripes": st, "schedule_len": len(x.Trace)})
				}
			})
		if res.Error != "" {
			return
		}
	}
}

func c16Check(res *vh.Result, cfg *icCfg) func(r *icRun, x *vrt.Sched, cost int) {
	return func(r *icRun, x *vrt.Sched, cost int) {
		rp := map[string]any{"driver": cfg.Name, "choices": x.Choices()}
		viol := func(clause, sig, detail string) {
			res.Violate(clause, sig, cfg.Name+": "+detail+"\nhistory: "+r.history(), cost, rp)
		}
		if len(r.stuck) > 0 || x.ErrKind == "deadlock" {
			viol("deadlock", strings.Join(r.stuck, ","), "clients never finished "+x.Err)
			return
		}
		// hits: a plain Get that returned a value; for the loading store a Get that was answered from the
		// map without running or joining a load (the code counts leaders and joiners as misses). A caller
		// whose value equals that of a load which was still registered during its call may be either.
		gets, hits, maybeHits := uint64(0), uint64(0), uint64(0)
		loadedBy := map[int]*icCall{}
		for _, c := range r.calls {
			if c.Loaded {
				loadedBy[c.V] = c
			}
		}
		for _, c := range r.calls {
			if c.Client < 0 && c.Client != -1 {
				continue
			}
			switch c.Op.Kind {
			case "get":
				gets++
				if c.OK {
					hits++
				}
			case "lget":
				gets++
				if c.OK && !c.Loaded {
					if ld := loadedBy[c.Got]; ld != nil && (ld.Ret == 0 || ld.Ret > c.Inv) {
						maybeHits++
					} else {
						hits++
					}
				}
			}
		}
		// stats as read by the main thread after every call returned
		var st *icCall
		var ln, es *icCall
		var rgAll, rgOne *icCall
		for _, c := range r.calls {
			if c.Client != -2 {
				continue
			}
			switch c.Op.Kind {
			case "stats":
				st = c
			case "len":
				ln = c
			case "est":
				es = c
			case "range":
				if c.Op.Arg == 0 {
					rgAll = c
				} else {
					rgOne = c
				}
			}
		}
		if st != nil {
			if st.Hits+st.Misses != gets {
				viol("stats-total", cfg.Name, fmt.Sprintf("Hits %d + Misses %d != %d Get calls", st.Hits, st.Misses, gets))
			}
			if st.Hits < hits || st.Hits > hits+maybeHits {
				viol("stats-hits", cfg.Name, fmt.Sprintf("Hits %d, but %d Get calls certainly returned a resident value (+%d that either hit or joined a load)", st.Hits, hits, maybeHits))
			}
		}
		var sum int64
		vrt.Quiet(func() {
			for _, sh := range r.h.s.shards {
				for _, e := range sh.hashmap {
					sum += e.weight.Load()
				}
			}
		})
		if ln != nil && ln.N != len(r.final) {
			viol("len", cfg.Name, fmt.Sprintf("Len() %d != %d resident entries", ln.N, len(r.final)))
		}
		if es != nil && int64(es.N) != sum {
			viol("estimated-size", cfg.Name, fmt.Sprintf("EstimatedSize() %d != Σcost(resident) %d", es.N, sum))
		}
		if rgAll != nil {
			seen := map[int]int{}
			for _, kv := range rgAll.Visited {
				seen[kv[0]]++
				if v, ok := r.final[kv[0]]; !ok || v != kv[1] {
					viol("range-value", cfg.Name, fmt.Sprintf("Range visited (%d,%d), resident map is %s", kv[0], kv[1], fmtMap(r.final)))
				}
			}
			for k := range r.final {
				if seen[k] != 1 {
					viol("range-coverage", cfg.Name, fmt.Sprintf("Range visited key %d %d times; visits %v resident %s", k, seen[k], rgAll.Visited, fmtMap(r.final)))
				}
			}
		}
		if rgOne != nil && len(r.final) > 0 && len(rgOne.Visited) != 1 {
			viol("range-stop", cfg.Name, fmt.Sprintf("Range told to stop after the first visit made %d visits", len(rgOne.Visited)))
		}
		var obs []string
		if st != nil {
			obs = append(obs, fmt.Sprintf("h%d,m%d", st.Hits, st.Misses))
		}
		obs = append(obs, fmtMap(r.final))
		sort.Strings(obs)
		res.Outcome(cfg.Name + "|" + strings.Join(obs, "|"))
		if res.NOutcomes() <= 2 {
			res.Sample(map[string]any{"driver": cfg.Name, "history": r.history()})
		}
	}
}

func c16Drivers() []*icCfg {
	S := func(k int) icOp { return icOp{Kind: "set", K: k, Cost: 1} }
	S2 := func(k int) icOp { return icOp{Kind: "set", K: k, Cost: 2} }
	G := func(k int) icOp { return icOp{Kind: "get", K: k} }
	D := func(k int) icOp { return icOp{Kind: "del", K: k} }
	L := func(k int) icOp { return icOp{Kind: "lget", K: k} }
	post := []icOp{{Kind: "wait"}, {Kind: "stats"}, {Kind: "len"}, {Kind: "est"}, {Kind: "range"}, {Kind: "range", Arg: 1}}
	big := hOpts{MaxSize: 10, ChanSize: 4, BufSize: 2}
	small := hOpts{MaxSize: 2, ChanSize: 4, BufSize: 2}
	return []*icCfg{
		{Name: "V1-hit-miss", O: big, Pre: []icOp{S(1), S(3)}, Scripts: [][]icOp{{G(1), G(2)}, {G(1), S(2)}, {G(2), D(1)}}, Post: post},
		{Name: "V2-pressure", O: small, Pre: []icOp{S(1)}, Scripts: [][]icOp{{S2(2), G(1)}, {S(3), G(2)}, {G(3), G(1)}}, Post: post},
		{Name: "V4-load-vs-set", O: big, Loading: true, LoadCost: 1, Scripts: [][]icOp{{L(1)}, {S2(1)}, {G(1), D(1)}}, Post: post},
		// a cost-changing Set of key 1, the entry's expiry and a fresh Set of the same key, in every order of their phases
		// - with the entry pool on (V5b: the pooled object may come back for the same key) and in the default configuration (V5c)
		// entry pool on: eviction pressure with re-Sets of evicted keys, and delete / re-set
		{Name: "V2p-pool-pressure", O: hOpts{MaxSize: 2, ChanSize: 4, BufSize: 2, Pool: true}, Fresh: true, Pre: []icOp{S(1)}, Scripts: [][]icOp{{S2(2), S(1)}, {S(3), S2(1)}, {G(3), S(2)}}, Post: post},
		{Name: "V6p-pool-delete-reset", O: hOpts{MaxSize: 2, ChanSize: 4, BufSize: 2, Pool: true}, Fresh: true, Pre: []icOp{S(1)}, Scripts: [][]icOp{{D(1), S2(1)}, {S(2), S(3)}, {S(1)}}, Post: post},
		{Name: "V5b-pool-same-key-reuse-expiry", O: hOpts{MaxSize: 4, ChanSize: 4, BufSize: 2, Pool: true}, Fresh: true, Pre: []icOp{{Kind: "set", K: 1, Cost: 1, TTL: sec}},
			Scripts: [][]icOp{{S2(1)}, {{Kind: "tick", Arg: 2 * sec}}, {S(1)}}, Post: post},
		{Name: "V5c-same-key-reset-after-expiry", O: hOpts{MaxSize: 4, ChanSize: 4, BufSize: 2}, Pre: []icOp{{Kind: "set", K: 1, Cost: 1, TTL: sec}},
			Scripts: [][]icOp{{S2(1)}, {{Kind: "tick", Arg: 2 * sec}}, {S(1)}}, Post: post},
		// "after writes have drained" reached through a Wait that ran concurrently with other clients' writes and deletes (its
		// marker in the middle, at the start or at the end of a batch of 4): the views must be exact after the final drain
		{Name: "V7-concurrent-wait", O: hOpts{MaxSize: 2, ChanSize: 4, BufSize: 4}, Pre: []icOp{S(1)}, Scripts: [][]icOp{{{Kind: "wait"}, S(4)}, {S2(2), D(1)}, {S(3)}}, Post: post},
		// Gets of a TTL key around its deadline: before it, after it but before the reclaiming tick was applied (the entry is
		// still in the map: such a Get returns nothing and is a miss), and after the reclaim - plain and loading
		{Name: "V8-gets-around-the-deadline", O: big, Pre: []icOp{{Kind: "set", K: 1, Cost: 1, TTL: sec}, S(3)},
			Scripts: [][]icOp{{G(1), G(1)}, {{Kind: "tick", Arg: 2 * sec}}, {G(1), G(3)}}, Post: post},
		{Name: "V8L-loading-gets-around-the-deadline", O: big, Loading: true, LoadCost: 1, Pre: []icOp{{Kind: "set", K: 1, Cost: 1, TTL: sec}},
			Scripts: [][]icOp{{L(1), G(1)}, {{Kind: "tick", Arg: 2 * sec}}, {G(1)}}, Post: post},
		{Name: "V3-loading", O: big, Loading: true, LoadCost: 1, Pre: []icOp{S(1)}, Scripts: [][]icOp{{L(1), L(2)}, {L(2), G(1)}, {D(1), L(1)}}, Post: post},
	}
}

func TestVerif_C16(t *testing.T) {
	env := vh.Env()
	res := vh.NewResult("C16", "E1-ICB", env)
	defer res.Write()
	for _, cfg := range c16Drivers() {
		if d := env.Params["driver"]; d != "" && d != cfg.Name {
			continue
		}
		cfg.P, cfg.D = env.Int("P", 2), env.Int("D", 1)
		cfg.Procs = env.Int("procs", 1)
		icExplore(res, env, cfg, c16Check(res, cfg))
		if res.Error != "" {
			return
		}
	}
}
