//go:build verif && vplain

package internal

import (
	"fmt"
	"math/bits"
	"runtime"
	"strconv"
	"strings"
	"testing"
	"time"

	"github.com/Yiling-J/theine-go/internal/vrt/vh"
)

// C17 — "Frequency sketch never under-counts and ages predictably" (internal/sketch.go, white-box).
//
// Statement clauses and the oracle clause that decides each of them:
//   under-count      Estimate(h) >= min(#recordings of h since the last reset/grow, 15)
//   out-of-range     no table access of Add/Addn/Estimate/reset/EnsureCapacity leaves the table (Go bounds check -> panic)
//   reset-not-halving a reset maps every 4-bit counter c to floor(c/2); shape-changed: nothing else (length, SampleSize, BlockMask) changes
//   additions-bound  Additions < SampleSize after every call (so the `== SampleSize` trigger can fire again)
//   reset-late       a reset happens within SampleSize effective additions of the previous reset/grow
//   reset-early      ... and not before SampleSize/2 of them (more often than that is not "once per sample period")
//   table-shrunk     EnsureCapacity never makes the table shorter
//
// Deliberately NOT demanded (not in the statement): that the four counters of a key are pairwise distinct or lie in one
// block (a coinciding counter only over-counts), an upper bound on the estimate, the exact value of Additions after a
// reset, that EnsureCapacity(n) yields >= n words, that Addn advances the sample counter.
//
// Three tests:
//   TestVerif_C17Sweep   exhaustive input sweep: table sizes x all 2^20 selector patterns x extreme blocks x 2 fillings of the unread bits
//   TestVerif_C17Period  every table size: halving of every nibble value in every position, reset trigger and the sample period
//   TestVerif_C17BFS     explicit-state BFS over Add/Addn/fill-to-reset/EnsureCapacity sequences on 16- and 64-word tables

const (
	c17M       = 0x94d049bb133111eb // multiplier of rehash
	c17SelMask = 0x1f1f1f1f         // bits of rehash(h) that indexOf reads: 4 x (1 word-select bit + 4 nibble-select bits)
	c17Golden  = 0x9E3779B97F4A7C15
)

var c17Minv = func() uint64 { // inverse of c17M modulo 2^64 (Newton)
	inv := uint64(c17M)
	for i := 0; i < 6; i++ {
		inv *= 2 - c17M*inv
	}
	return inv
}()

// c17Unhash inverts rehash: h*M then xorshift-31 are both bijections of uint64.
func c17Unhash(c uint64) uint64 { return (c ^ c>>31 ^ c>>62) * c17Minv }

func c17Spread(p uint32) uint64 {
	var c uint64
	for i := uint(0); i < 4; i++ {
		c |= uint64((p>>(5*i))&0x1f) << (8 * i)
	}
	return c
}

// c17Build returns a hash h such that rehash(h) carries the 20-bit selector pattern p, every bit of rehash(h) that
// indexOf does not read is `fill` (except k steering bits 31..31+k-1), and h&(2^k-1) == b (the block for BlockMask 2^k-1).
// The low k bits of h depend only on the low k bits of x = c^(c>>31)^(c>>62), so bits 31..31+k-1 of c steer them (k<=21).
func c17Build(p uint32, fill bool, b uint64, k uint) (h, c uint64) {
	maskK := uint64(1)<<k - 1
	c = c17Spread(p)
	if fill {
		c |= ^uint64(c17SelMask) &^ (maskK << 31)
	}
	t := (b * c17M) & maskK
	c |= ((t ^ c ^ c>>62) & maskK) << 31
	return c17Unhash(c), c
}

func c17Hex(v uint64) string { return "0x" + strconv.FormatUint(v, 16) }

func c17Panic(e any) (clause string) {
	if re, ok := e.(runtime.Error); ok && strings.Contains(re.Error(), "out of range") {
		return "out-of-range"
	}
	return "panic"
}

// ---------------------------------------------------------------- single-hash protocol (sweep, extreme hashes)

type c17Bad struct {
	clause, sig, detail string
}

// c17Case records h 1, 14, 15, 16 and 19 times on a table whose counters are clear and checks the estimate each time.
// Additions is zeroed first (white-box) so that the sweep itself does not run into the sample period; should a reset
// happen anyway the recorded count restarts at 0, as the statement says.
func c17Case(sk *CountMinSketch, h uint64) (bad *c17Bad, est [5]uint) {
	stage := "Add"
	n := 0
	defer func() {
		if e := recover(); e != nil {
			bad = &c17Bad{c17Panic(e), "op=" + stage, fmt.Sprintf("%s(h=%s) after %d recordings on a %d-word table (BlockMask=%#x) panicked: %v", stage, c17Hex(h), n, len(sk.Table), sk.BlockMask, e)}
		}
	}()
	sk.Additions = 0
	check := func(i int, via string) bool {
		stage = "Estimate"
		e := sk.Estimate(h)
		est[i] = e
		want := uint(n)
		if want > 15 {
			want = 15
		}
		if e < want {
			bad = &c17Bad{"under-count", fmt.Sprintf("recorded=%d,via=%s", n, via), fmt.Sprintf("h=%s (rehash=%s) recorded %d times on a clear %d-word table: Estimate=%d, want >= %d", c17Hex(h), c17Hex(rehash(h)), n, len(sk.Table), e, want)}
			return false
		}
		return true
	}
	add := func() {
		stage = "Add"
		if sk.Add(h) {
			n = 0
		} else {
			n++
		}
	}
	add()
	if !check(0, "Add") {
		return
	}
	stage = "Addn"
	sk.Addn(h, 13)
	n += 13
	if !check(1, "Addn") {
		return
	}
	add()
	if !check(2, "Add") {
		return
	}
	add() // 16th: must saturate, not wrap
	if !check(3, "Add") {
		return
	}
	stage = "Addn"
	sk.Addn(h, 3)
	n += 3
	check(4, "Addn")
	return
}

func c17Log2(n int) uint {
	if n <= 0 {
		return 0
	}
	return uint(bits.Len(uint(n)) - 1)
}

type c17SweepReplay struct {
	T    string `json:"t"` // "sweep" or "hash"
	S    uint   `json:"s"` // log2 of the requested table size
	P    uint32 `json:"p"`
	B    string `json:"b"`
	Fill bool   `json:"fill"`
	H    string `json:"h"`
}

func c17NewSketch(s uint) *CountMinSketch {
	sk := &CountMinSketch{}
	sk.EnsureCapacity(uint(1) << s)
	return sk
}

func c17ExtremeHashes(sk *CountMinSketch) []uint64 {
	L := uint64(len(sk.Table))
	bm := uint64(sk.BlockMask)
	hs := []uint64{0, ^uint64(0), 1 << 63, 1, 1<<63 | 1, 0x5555555555555555, 0xaaaaaaaaaaaaaaaa, 0x7fffffffffffffff,
		0xffffffff, 0xffffffff00000000, bm, ^bm, bm << 3, bm<<3 | 7, L - 1, L, L >> 3, (L >> 3) - 1,
		c17Unhash(^uint64(0)), c17Unhash(1 << 63), c17Unhash(c17SelMask), c17Unhash(^uint64(c17SelMask)), c17Unhash(1)}
	return hs
}

func c17ZeroBlock(sk *CountMinSketch, b uint64) {
	lo := b << 3
	for i := lo; i < lo+8 && i < uint64(len(sk.Table)); i++ {
		sk.Table[i] = 0
	}
}

// c17Stray clears the table and reports how many words were non-zero.
func c17Stray(sk *CountMinSketch) int {
	n := 0
	for i, w := range sk.Table {
		if w != 0 {
			n++
			sk.Table[i] = 0
		}
	}
	return n
}

func c17TouchedCounters(sk *CountMinSketch, b uint64) int {
	n := 0
	lo := b << 3
	for i := lo; i < lo+8 && i < uint64(len(sk.Table)); i++ {
		w := sk.Table[i]
		n += bits.OnesCount64((w | w>>1 | w>>2 | w>>3) & 0x1111111111111111)
	}
	return n
}

func TestVerif_C17Sweep(t *testing.T) {
	env := vh.Env()
	res := vh.NewResult("C17/sweep", "exhaustive-input-sweep", env)
	defer res.Write()
	lo, hi := uint(env.Int("lo", 4)), uint(env.Int("hi", 24))
	res.MaxSamples = 2
	if env.Shard != 0 {
		res.MaxSamples = 0
	}

	if env.Replay != "" {
		var rp c17SweepReplay
		if err := vh.LoadReplay(env.Replay, &rp); err != nil {
			res.Error = "replay: " + err.Error()
			return
		}
		sk := c17NewSketch(rp.S)
		var h uint64
		if rp.T == "hash" {
			h, _ = strconv.ParseUint(strings.TrimPrefix(rp.H, "0x"), 16, 64)
		} else {
			b, _ := strconv.ParseUint(strings.TrimPrefix(rp.B, "0x"), 16, 64)
			h, _ = c17Build(rp.P, rp.Fill, b, c17Log2(len(sk.Table)>>3))
		}
		res.Executions = 1
		bad, est := c17Case(sk, h)
		res.Note("replayed h=%s on a %d-word table: estimates after 1,14,15,16,19 recordings = %v", c17Hex(h), len(sk.Table), est)
		if bad != nil {
			res.Violate(bad.clause, bad.sig, bad.detail, int(rp.S), rp)
		}
		return
	}

	var sizesDone []string
	var cases, fourDistinct, stray int64
	seenOutcome := map[uint64]struct{}{}
	for s := lo; s <= hi; s++ {
		sk := c17NewSketch(s)
		L := len(sk.Table)
		if L != 1<<s {
			res.Note("EnsureCapacity(2^%d) on an empty sketch gave a %d-word table", s, L)
		}
		if L < 8 {
			res.Violate("out-of-range", "table-shorter-than-a-block", fmt.Sprintf("EnsureCapacity(2^%d) gave a %d-word table: no 8-word block fits", s, L), int(s), c17SweepReplay{T: "hash", S: s, H: "0x0"})
			continue
		}
		k := c17Log2(L >> 3)
		if k > 21 {
			k = 21
		}
		nblocks := uint64(1) << k
		blocks := []uint64{0, 1, nblocks - 1}
		if nblocks <= 2 {
			blocks = blocks[:nblocks]
		}
		// extreme hashes: one shard per size
		if int(s)%env.NShards == env.Shard {
			for _, h := range c17ExtremeHashes(sk) {
				bad, est := c17Case(sk, h)
				res.Executions++
				cases++
				res.Outcome(fmt.Sprintf("extreme s=%d est=%v bad=%v", s, est, bad != nil))
				if bad != nil {
					res.Violate(bad.clause, bad.sig, bad.detail, int(s), c17SweepReplay{T: "hash", S: s, H: c17Hex(h)})
				}
				c17ZeroBlock(sk, h&uint64(sk.BlockMask))
			}
		}
		for bi, b := range blocks {
			for _, fill := range []bool{false, true} {
				for p := uint32(env.Shard); p < 1<<20; p += uint32(env.NShards) {
					if p&0xfff == uint32(env.Shard) && !env.Deadline.IsZero() && time.Now().After(env.Deadline) {
						res.Cap(fmt.Sprintf("deadline inside table size 2^%d (sizes completed: %v)", s, sizesDone))
						res.Bounds["sizes_completed"] = strings.Join(sizesDone, ",")
						return
					}
					h, c := c17Build(p, fill, b, k)
					if rehash(h) != c || h&(nblocks-1) != b || uint32(c&0x1f|(c>>8&0x1f)<<5|(c>>16&0x1f)<<10|(c>>24&0x1f)<<15) != p {
						res.Error = fmt.Sprintf("harness: inverse of rehash is wrong (p=%#x b=%#x k=%d: h=%#x rehash=%#x want %#x)", p, b, k, h, rehash(h), c)
						return
					}
					bad, est := c17Case(sk, h)
					res.Executions++
					cases++
					if bad != nil {
						res.Violate(bad.clause, bad.sig, bad.detail, int(s), c17SweepReplay{T: "sweep", S: s, P: p, B: c17Hex(b), Fill: fill})
					}
					tc := c17TouchedCounters(sk, b)
					if tc == 4 {
						fourDistinct++
					}
					oc := uint64(s) | uint64(bi)<<8 | uint64(tc&0xff)<<12 | uint64(est[0]&0x7f)<<20 | uint64(est[1]&0x7f)<<27 | uint64(est[2]&0x7f)<<34 | uint64(est[3]&0x7f)<<41 | uint64(est[4]&0x7f)<<48
					if fill {
						oc |= 1 << 11
					}
					if bad != nil {
						oc |= 1 << 62
					}
					if _, ok := seenOutcome[oc]; !ok {
						seenOutcome[oc] = struct{}{}
						res.Outcome(fmt.Sprintf("s=%d block=%d fill=%v est=%v counters-in-block=%d bad=%v", s, bi, fill, est, tc, bad != nil))
					}
					if p == uint32(env.Shard)+uint32(env.NShards)*37 && fill && bi == len(blocks)-1 && (s == lo || s == hi) {
						res.Sample(map[string]any{"kind": "sweep case", "table_words": L, "block": b, "selector_pattern": fmt.Sprintf("%#05x", p), "h": c17Hex(h), "rehash_h": c17Hex(c),
							"estimates_after_1_14_15_16_19_recordings": est, "nonzero_counters_in_block": tc, "block_words": fmt.Sprintf("%x", sk.Table[b<<3:b<<3+8])})
					}
					c17ZeroBlock(sk, b)
				}
			}
		}
		stray += int64(c17Stray(sk)) // one full scan per table size: anything left outside the cleared blocks
		sizesDone = append(sizesDone, fmt.Sprintf("2^%d", s))
	}
	res.Bounds["table_sizes_log2"] = fmt.Sprintf("%d..%d", lo, hi)
	res.Bounds["sizes_completed"] = strings.Join(sizesDone, ",")
	res.Bounds["selector_patterns"] = 1 << 20
	res.Bounds["blocks"] = "0,1,max"
	res.Bounds["unread_bits"] = "all-0,all-1"
	res.Note("shard %d: %d cases, %d touched exactly 4 distinct counters inside the hash's block, %d words written outside the block", env.Shard, cases, fourDistinct, stray)
}

// ---------------------------------------------------------------- halving / period on every table size

var c17Half = func() (t [256]byte) {
	for i := range t {
		t[i] = byte(i>>4)>>1<<4 | byte(i&0xf)>>1
	}
	return
}()

// c17Halve is the reference: every 4-bit counter c becomes floor(c/2).
func c17Halve(w uint64) uint64 {
	var r uint64
	for i := uint(0); i < 64; i += 8 {
		r |= uint64(c17Half[byte(w>>i)]) << i
	}
	return r
}

// c17HalvingDiff compares the table after a reset with halve(mid); returns a description of the first wrong counter.
func c17HalvingDiff(mid, after []uint64) (sig, detail string) {
	if len(mid) != len(after) {
		return "length", fmt.Sprintf("table length %d -> %d", len(mid), len(after))
	}
	for i := range mid {
		want := c17Halve(mid[i])
		if after[i] == want {
			continue
		}
		for j := uint(0); j < 64; j += 4 {
			c, g := (mid[i]>>j)&0xf, (after[i]>>j)&0xf
			if g != c>>1 {
				sig := "counter-too-high"
				if g < c>>1 {
					sig = "counter-too-low"
				}
				return sig, fmt.Sprintf("word %d nibble %d: counter %d became %d, want %d (word %#016x -> %#016x, want %#016x)", i, j/4, c, g, c>>1, mid[i], after[i], want)
			}
		}
	}
	return "", ""
}

// c17PreReset runs the real increment path of Add(h) on a copy whose sample counter cannot trigger: the table right before the reset.
func c17PreReset(sk *CountMinSketch, before []uint64, h uint64) []uint64 {
	cl := &CountMinSketch{Table: append([]uint64(nil), before...), SampleSize: ^uint(0), BlockMask: sk.BlockMask}
	cl.Add(h)
	return cl.Table
}

type c17PeriodReplay struct {
	T    string `json:"t"`
	S    uint   `json:"s"`
	Real bool   `json:"real"`
}

func c17Period(res *vh.Result, env vh.EnvT, s uint, real bool) {
	rp := c17PeriodReplay{"period", s, real}
	stage := "EnsureCapacity"
	defer func() {
		if e := recover(); e != nil {
			res.Violate(c17Panic(e), "op="+stage, fmt.Sprintf("table 2^%d: %s panicked: %v", s, stage, e), int(s), rp)
		}
	}()
	sk := c17NewSketch(s)
	L := len(sk.Table)
	S, M := sk.SampleSize, sk.BlockMask
	if L != 1<<s {
		res.Note("EnsureCapacity(2^%d) on an empty sketch gave a %d-word table", s, L)
	}
	bound := func(op string) {
		if sk.Additions >= sk.SampleSize {
			res.Violate("additions-bound", "op="+op, fmt.Sprintf("table 2^%d: after %s Additions=%d >= SampleSize=%d: the `== SampleSize` trigger cannot fire until the counter wraps", s, op, sk.Additions, sk.SampleSize), int(s), rp)
		}
	}
	bound("EnsureCapacity")
	for _, n := range []uint{uint(L), uint(L) - 1, uint(L) / 2, 1, 0} {
		sk.EnsureCapacity(n)
		if len(sk.Table) < L {
			res.Violate("table-shrunk", "EnsureCapacity-down", fmt.Sprintf("EnsureCapacity(%d) on a %d-word table left %d words", n, L, len(sk.Table)), int(s), rp)
			return
		}
	}
	res.Executions += 5

	// ---- halving: every nibble value in every nibble position of every word, and the two extreme odd-counter populations
	effective := func(from uint64) uint64 { // a hash whose Add is effective (some counter below 15)
		for j := from; ; j++ {
			if h := (j + 1) * c17Golden; sk.Estimate(h) < 15 || j > from+100000 {
				return h
			}
		}
	}
	var afterReset []uint
	for fi, fillName := range []string{"all-nibble-values", "all-counters-1", "all-counters-0", "all-counters-14/15"} {
		for i := range sk.Table {
			switch fi {
			case 0:
				sk.Table[i] = bits.RotateLeft64(0xfedcba9876543210, 4*(i&15)) ^ uint64(i>>4&1)*0x1111111111111111
			case 1:
				sk.Table[i] = 0x1111111111111111
			case 2:
				sk.Table[i] = 0
			case 3:
				sk.Table[i] = 0xefefefefefefefef
			}
		}
		sk.Additions = S - 1 // white-box: one effective addition before the sample period ends
		stage = "Estimate"
		h := effective(uint64(fi) * 1000)
		before := append([]uint64(nil), sk.Table...)
		mid := c17PreReset(sk, before, h)
		stage = "Add"
		r := sk.Add(h)
		res.Executions++
		if !r {
			res.Violate("reset-late", "whitebox,Additions=SampleSize-1", fmt.Sprintf("table 2^%d (%s), Additions set to SampleSize-1=%d: an effective Add(%s) did not reset (Additions now %d)", s, fillName, S-1, c17Hex(h), sk.Additions), int(s), rp)
			continue
		}
		if sig, det := c17HalvingDiff(mid, sk.Table); sig != "" {
			res.Violate("reset-not-halving", sig, fmt.Sprintf("table 2^%d (%s): %s", s, fillName, det), int(s), rp)
		}
		if len(sk.Table) != L || sk.SampleSize != S || sk.BlockMask != M {
			res.Violate("shape-changed", "op=reset", fmt.Sprintf("table 2^%d: reset changed len/SampleSize/BlockMask to %d/%d/%#x", s, len(sk.Table), sk.SampleSize, sk.BlockMask), int(s), rp)
		}
		bound("reset(" + fillName + ")")
		afterReset = append(afterReset, sk.Additions)
	}

	// ---- the reset keeps coming: periods measured in effective additions
	sk = c17NewSketch(s)
	S = sk.SampleSize
	var gaps []uint
	nper := 3
	if !real {
		// white-box: put the counter 3 short of the period, then add for real
		for rep := 0; rep < nper; rep++ {
			sk.Additions = S - 3
			got := uint(0)
			for j := uint64(0); j < 8; j++ {
				stage = "Estimate"
				h := effective(uint64(rep)*100 + j*10)
				stage = "Add"
				r := sk.Add(h)
				res.Executions++
				got++
				if !r {
					bound("Add")
					if e := sk.Estimate(h); e < 1 {
						res.Violate("under-count", "recorded=1,via=Add", fmt.Sprintf("table 2^%d: Estimate(%s)=0 right after Add", s, c17Hex(h)), int(s), rp)
					}
					continue
				}
				break
			}
			gaps = append(gaps, got)
			if got != 3 {
				cl := "reset-late"
				if got < 3 {
					cl = "reset-early"
				}
				res.Violate(cl, "whitebox,Additions=SampleSize-3", fmt.Sprintf("table 2^%d, Additions set to SampleSize-3: reset after %d effective additions, want 3", s, got), int(s), rp)
			}
			bound("reset")
		}
	} else {
		var eff uint
		after := "grow"
		var j uint64
		for len(gaps) < nper {
			if j&0xffff == 0 && !env.Deadline.IsZero() && time.Now().After(env.Deadline) {
				res.Cap(fmt.Sprintf("deadline in real-add period drive of table 2^%d after %d resets", s, len(gaps)))
				break
			}
			h := (j + 1) * c17Golden
			j++
			stage = "Estimate"
			wasEff := sk.Estimate(h) < 15
			var mid []uint64
			if L <= 4096 && eff+1 >= S/2 { // small tables: keep what is needed to check the halving of a real-driven reset
				mid = c17PreReset(sk, sk.Table, h)
			}
			stage = "Add"
			r := sk.Add(h)
			res.Executions++
			if r {
				eff++
				if eff < S/2 || eff > S {
					cl := "reset-early"
					if eff > S {
						cl = "reset-late"
					}
					res.Violate(cl, "after="+after, fmt.Sprintf("table 2^%d: reset after %d effective additions since the last %s; SampleSize=%d", s, eff, after, S), int(s), rp)
				}
				if mid != nil {
					if sig, det := c17HalvingDiff(mid, sk.Table); sig != "" {
						res.Violate("reset-not-halving", sig, fmt.Sprintf("table 2^%d (real-driven reset): %s", s, det), int(s), rp)
					}
				}
				gaps = append(gaps, eff)
				eff, after = 0, "reset"
				bound("reset")
				continue
			}
			if wasEff {
				eff++
			}
			if sk.Additions >= sk.SampleSize {
				bound("Add")
				break
			}
			if eff >= S {
				res.Violate("reset-late", "after="+after, fmt.Sprintf("table 2^%d: %d effective additions since the last %s without a reset; SampleSize=%d, Additions=%d", s, eff, after, S, sk.Additions), int(s), rp)
				break
			}
			stage = "Estimate"
			if e := sk.Estimate(h); e < 1 {
				res.Violate("under-count", "recorded=1,via=Add", fmt.Sprintf("table 2^%d: Estimate(%s)=0 right after Add", s, c17Hex(h)), int(s), rp)
				break
			}
		}
	}
	mode := "whitebox"
	if real {
		mode = "real-adds"
	}
	res.Outcome(fmt.Sprintf("s=%d %s gaps=%v additions-after-reset=%v", s, mode, gaps, afterReset))
	res.Sample(map[string]any{"kind": "period", "table_words": L, "sample_size": S, "mode": mode, "effective_additions_between_resets": gaps,
		"additions_after_reset_for_fills(all-values,all-1,all-0,14/15)": afterReset})
}

func TestVerif_C17Period(t *testing.T) {
	env := vh.Env()
	res := vh.NewResult("C17/period", "exhaustive-input-sweep", env)
	defer res.Write()
	res.MaxSamples = 1
	if env.Shard != 0 && env.Shard != env.NShards-1 {
		res.MaxSamples = 0
	}
	if env.Replay != "" {
		var rp c17PeriodReplay
		if err := vh.LoadReplay(env.Replay, &rp); err != nil {
			res.Error = "replay: " + err.Error()
			return
		}
		env.Deadline = time.Time{}
		c17Period(res, env, rp.S, rp.Real)
		return
	}
	lo, hi, realMax := uint(env.Int("lo", 4)), uint(env.Int("hi", 24)), uint(env.Int("real", 18))
	idx := 0
	for s := hi; s >= lo && s <= hi; s-- {
		for _, real := range []bool{false, true} {
			if real && s > realMax {
				continue
			}
			if idx%env.NShards == env.Shard {
				c17Period(res, env, s, real)
			}
			idx++
		}
	}
	res.Bounds["table_sizes_log2"] = fmt.Sprintf("%d..%d", lo, hi)
	res.Bounds["real_add_drive_up_to_log2"] = realMax
	res.Bounds["periods"] = 3
}

// ---------------------------------------------------------------- E2-BFS on small tables

const c17NAlpha = 6

var c17AlphaNames = [c17NAlpha]string{"zero", "ones", "blkA", "blkB", "triA", "triB"}

// c17Alphabet: 0, ^0, two hashes of one block with different counters, two hashes that share three of their four counters.
// Built for 21 block bits, so the relations hold for every table size.
func c17Alphabet() [c17NAlpha]uint64 {
	a, _ := c17Build(0x12345, false, 1, 21)
	b, _ := c17Build(0xedcba, true, 1, 21)
	c, _ := c17Build(0x2a6b5, false, 0, 21)
	d, _ := c17Build(0x2a6b5^0x1f<<15, false, 0, 21) // differs in the selector of the fourth counter only
	return [c17NAlpha]uint64{0, ^uint64(0), a, b, c, d}
}

type c17Op struct {
	Kind string `json:"kind"` // add, addn, fill, cap
	A    int    `json:"a"`    // alphabet index
	N    int    `json:"n"`    // Addn count / cap mode
}

func (o c17Op) String() string {
	switch o.Kind {
	case "add":
		return "Add(" + c17AlphaNames[o.A] + ")"
	case "addn":
		return fmt.Sprintf("Addn(%s,%d)", c17AlphaNames[o.A], o.N)
	case "fill":
		return "AddFreshUntilReset"
	case "fillto":
		return "AddFreshUntilOneBeforeThePeriodEnds"
	}
	return "EnsureCapacity(" + [...]string{"len+1", "2*len", "len", "len/2", "0"}[o.N] + ")"
}

func c17Ops() []c17Op {
	var ops []c17Op
	for a := 0; a < c17NAlpha; a++ {
		ops = append(ops, c17Op{"add", a, 0})
	}
	for _, a := range []int{0, 1, 3, 5} {
		for _, n := range []int{1, 15, 16} {
			ops = append(ops, c17Op{"addn", a, n})
		}
	}
	ops = append(ops, c17Op{"addn", 2, -1}, c17Op{"addn", 4, 0})
	ops = append(ops, c17Op{"fill", 0, 0})
	// stops one recorded addition short of the sample period, so that the NEXT operation of a sequence is the call on
	// the period boundary (a saturated hash there adds nothing; a fresh one must trigger the reset)
	ops = append(ops, c17Op{"fillto", 0, 0})
	for m := 0; m < 5; m++ {
		ops = append(ops, c17Op{"cap", 0, m})
	}
	return ops
}

// c17Ref is the reference: exact recordings per alphabet hash since the last reset/grow (capped at 15, which is all the
// oracle needs) and the effective additions since then.
type c17Ref struct {
	Cnt   [c17NAlpha]uint8
	Eff   uint32
	After uint8 // 0 = grow/new, 1 = reset
}

type c17Run struct {
	sk         *CountMinSketch
	alpha      [c17NAlpha]uint64
	ref        c17Ref
	maxLen     int
	bad        *c17Bad
	resets     int
	buf        []uint64
	stage      string // the real call in progress (for the panic handler)
	incomplete bool
}

func (r *c17Run) fail(clause, sig, detail string) {
	if r.bad == nil {
		r.bad = &c17Bad{clause, sig, detail}
	}
}

func (r *c17Run) afterName() string { return [...]string{"grow", "reset"}[r.ref.After] }

func (r *c17Run) checkCommon(op string) {
	sk := r.sk
	if sk.Additions >= sk.SampleSize {
		r.fail("additions-bound", "op="+op, fmt.Sprintf("after %s Additions=%d >= SampleSize=%d", op, sk.Additions, sk.SampleSize))
	}
	r.stage = "Estimate"
	for i, h := range r.alpha {
		if e := sk.Estimate(h); e < uint(r.ref.Cnt[i]) {
			r.fail("under-count", "after="+op, fmt.Sprintf("after %s: Estimate(%s=%s)=%d but it was recorded %d times since the last %s", op, c17AlphaNames[i], c17Hex(h), e, r.ref.Cnt[i], r.afterName()))
		}
	}
}

// add performs one real Add with every oracle clause; ai<0 = a filler hash outside the alphabet.
func (r *c17Run) add(h uint64, ai int) (reset bool) {
	sk := r.sk
	r.buf = append(r.buf[:0], sk.Table...)
	before := r.buf
	L, S, M := len(sk.Table), sk.SampleSize, sk.BlockMask
	r.stage = "Add"
	reset = sk.Add(h)
	r.stage = "Estimate"
	if len(sk.Table) != L || sk.SampleSize != S || sk.BlockMask != M {
		r.fail("shape-changed", "op=Add", fmt.Sprintf("Add changed len/SampleSize/BlockMask %d/%d/%#x -> %d/%d/%#x", L, S, M, len(sk.Table), sk.SampleSize, sk.BlockMask))
		return
	}
	if reset {
		mid := c17PreReset(sk, before, h)
		if sig, det := c17HalvingDiff(mid, sk.Table); sig != "" {
			r.fail("reset-not-halving", sig, det)
		}
		eff := uint(r.ref.Eff) + 1
		if eff < S/2 {
			r.fail("reset-early", "after="+r.afterName(), fmt.Sprintf("reset after only %d effective additions since the last %s; SampleSize=%d", eff, r.afterName(), S))
		}
		r.ref = c17Ref{After: 1}
		r.resets++
		r.checkCommon("reset")
		return
	}
	changed := false
	for i := range before {
		if before[i] != sk.Table[i] {
			changed = true
			break
		}
	}
	if changed {
		r.ref.Eff++
	}
	if ai >= 0 {
		if r.ref.Cnt[ai] < 15 {
			r.ref.Cnt[ai]++
		}
	} else if e := sk.Estimate(h); e < 1 {
		r.fail("under-count", "after=Add", fmt.Sprintf("Estimate(%s)=0 right after Add of that hash", c17Hex(h)))
	}
	if uint(r.ref.Eff) >= S {
		r.fail("reset-late", "after="+r.afterName(), fmt.Sprintf("%d effective additions since the last %s without a reset; SampleSize=%d, Additions=%d", r.ref.Eff, r.afterName(), S, sk.Additions))
	}
	r.checkCommon("Add")
	return
}

func c17Filler(j int) uint64 { return uint64(j+1) * c17Golden }

func (r *c17Run) capArg(mode int) uint {
	L := uint(len(r.sk.Table))
	return [...]uint{L + 1, 2 * L, L, L / 2, 0}[mode]
}

func (r *c17Run) enabled(op c17Op) bool {
	if op.Kind == "cap" && op.N <= 1 {
		return 2*len(r.sk.Table) <= r.maxLen
	}
	return true
}

// apply executes op on the real sketch; with check it also runs the oracle and maintains the reference
// (without check it is the bare replay of an already-checked prefix; the reference comes from the frontier node).
func (r *c17Run) apply(op c17Op, check bool) {
	sk := r.sk
	switch op.Kind {
	case "add":
		if check {
			r.add(r.alpha[op.A], op.A)
		} else {
			sk.Add(r.alpha[op.A])
		}
	case "addn":
		r.stage = "Addn"
		sk.Addn(r.alpha[op.A], op.N)
		if check {
			if n := int(r.ref.Cnt[op.A]) + op.N; op.N > 0 {
				if n > 15 {
					n = 15
				}
				r.ref.Cnt[op.A] = uint8(n)
			}
			r.checkCommon("Addn")
		}
	case "fill":
		limit := 4*int(sk.SampleSize) + 64
		for j := 0; ; j++ {
			if j == limit {
				r.incomplete = true
				break
			}
			if check {
				if r.add(c17Filler(j), -1) || r.bad != nil {
					break
				}
			} else if r.stage = "Add"; sk.Add(c17Filler(j)) {
				break
			}
		}
	case "fillto":
		limit := 4*int(sk.SampleSize) + 64
		for j := 0; sk.Additions+1 < sk.SampleSize; j++ {
			if j == limit {
				r.incomplete = true
				break
			}
			// fillers distinct from those of "fill" (which may have run earlier in the sequence and saturated its own)
			h := c17Filler(j + 1<<20)
			if check {
				if r.add(h, -1) || r.bad != nil {
					break
				}
			} else if r.stage = "Add"; sk.Add(h) {
				break
			}
		}
	case "cap":
		L := len(sk.Table)
		n := r.capArg(op.N)
		r.stage = "EnsureCapacity"
		sk.EnsureCapacity(n)
		if check {
			if len(sk.Table) < L {
				r.fail("table-shrunk", "EnsureCapacity-"+[...]string{"up", "up", "same", "down", "down"}[op.N], fmt.Sprintf("EnsureCapacity(%d) on a %d-word table left %d words", n, L, len(sk.Table)))
				return
			}
			if len(sk.Table) != L {
				r.ref = c17Ref{}
			}
			r.checkCommon("EnsureCapacity")
		}
	}
}

func (r *c17Run) safeApply(op c17Op, check bool) {
	defer func() {
		if e := recover(); e != nil {
			r.fail(c17Panic(e), "op="+r.stage, fmt.Sprintf("%s inside step %v panicked on a %d-word table: %v", r.stage, op, len(r.sk.Table), e))
		}
	}()
	r.apply(op, check)
}

func c17Mix(h, w uint64) uint64 {
	h = (h ^ w) * c17Golden
	return h ^ h>>29
}

func (r *c17Run) key() [2]uint64 {
	sk := r.sk
	k := [2]uint64{0x243f6a8885a308d3, 0x13198a2e03707344}
	f := func(w uint64) {
		k[0] = c17Mix(k[0], w)
		k[1] = c17Mix(k[1]+0x517cc1b727220a95, w^k[0])
	}
	f(uint64(len(sk.Table)))
	for _, w := range sk.Table {
		f(w)
	}
	f(uint64(sk.Additions))
	f(uint64(sk.SampleSize))
	f(uint64(sk.BlockMask))
	for _, c := range r.ref.Cnt {
		f(uint64(c))
	}
	f(uint64(r.ref.Eff))
	f(uint64(r.ref.After))
	return k
}

type c17Node struct {
	ops []uint8
	ref c17Ref
}

type c17BFSReplay struct {
	T      string   `json:"t"`
	Size   int      `json:"size"`
	MaxLen int      `json:"maxlen"`
	Ops    []uint8  `json:"ops"`
	Names  []string `json:"names"`
}

func c17Start(size, maxLen int, alpha [c17NAlpha]uint64) *c17Run {
	sk := &CountMinSketch{}
	sk.EnsureCapacity(uint(size))
	return &c17Run{sk: sk, alpha: alpha, maxLen: maxLen}
}

func (r *c17Run) estimates() [c17NAlpha]uint {
	var e [c17NAlpha]uint
	for i, h := range r.alpha {
		e[i] = r.sk.Estimate(h)
	}
	return e
}

func TestVerif_C17BFS(t *testing.T) {
	env := vh.Env()
	res := vh.NewResult("C17/bfs", "E2-BFS", env)
	defer res.Write()
	size, depth, split := env.Int("size", 16), env.Int("depth", 6), env.Int("split", 2)
	res.MaxSamples = 2
	maxLen := env.Int("maxlen", 4*size)
	ops := c17Ops()
	alpha := c17Alphabet()
	names := func(l []uint8) []string {
		var s []string
		for _, o := range l {
			s = append(s, ops[o].String())
		}
		return s
	}

	if env.Replay != "" {
		var rp c17BFSReplay
		if err := vh.LoadReplay(env.Replay, &rp); err != nil {
			res.Error = "replay: " + err.Error()
			return
		}
		r := c17Start(rp.Size, rp.MaxLen, alpha)
		for i, o := range rp.Ops {
			r.safeApply(ops[o], true)
			res.Executions++
			res.Note("%d. %v -> len=%d Additions=%d/%d estimates=%v recorded=%v", i+1, ops[o], len(r.sk.Table), r.sk.Additions, r.sk.SampleSize, r.estimates(), r.ref.Cnt)
			if r.bad != nil {
				res.Violate(r.bad.clause, r.bad.sig, fmt.Sprintf("%v: %s", names(rp.Ops[:i+1]), r.bad.detail), i+1, rp)
				return
			}
		}
		return
	}

	// sanity of the alphabet relations (harness self-check, not a property clause)
	{
		sk := c17NewSketch(4)
		blk := func(h uint64) uint64 { return h & uint64(sk.BlockMask) }
		if blk(alpha[2]) != blk(alpha[3]) || blk(alpha[4]) != blk(alpha[5]) || rehash(alpha[4])^rehash(alpha[5]) != 0x1f<<24 {
			res.Error = "harness: hash alphabet does not have the intended block/counter sharing"
			return
		}
	}

	root := c17Start(size, maxLen, alpha)
	visited := map[[2]uint64]struct{}{root.key(): {}}
	frontier := []c17Node{{}}
	res.States = 1
	var incomplete, withReset int64
	count := env.Shard == 0 // levels explored identically by every shard are counted once
	capped := false
	for d := 1; d <= depth && len(frontier) > 0 && !capped; d++ {
		if d == split+1 && env.NShards > 1 {
			// contiguous slices of the (deterministic) BFS order: siblings stay in one shard, which keeps the number of
			// states re-discovered by several shards low
			n := len(frontier)
			frontier = frontier[env.Shard*n/env.NShards : (env.Shard+1)*n/env.NShards]
			count = true
		}
		var next []c17Node
		for ni, node := range frontier {
			if ni&0xff == 0 && !env.Deadline.IsZero() && time.Now().After(env.Deadline) {
				res.Cap(fmt.Sprintf("deadline at depth %d (%d of %d frontier states expanded); depth %d complete", d, ni, len(frontier), d-1))
				capped = true
				break
			}
			for oi, op := range ops {
				r := c17Start(size, maxLen, alpha)
				for _, o := range node.ops {
					r.apply(ops[o], false)
				}
				r.ref = node.ref
				if !r.enabled(op) {
					continue
				}
				r.safeApply(op, true)
				if count {
					res.Executions++
					res.Transitions++
				}
				path := append(append(make([]uint8, 0, len(node.ops)+1), node.ops...), uint8(oi))
				if r.bad != nil {
					res.Violate(r.bad.clause, r.bad.sig, fmt.Sprintf("table %d words, ops %v: %s", size, names(path), r.bad.detail), d,
						c17BFSReplay{"bfs", size, maxLen, path, names(path)})
					continue // do not expand beyond a violating state
				}
				k := r.key()
				if _, ok := visited[k]; ok {
					continue
				}
				visited[k] = struct{}{}
				if count {
					res.States++
					if d > res.MaxDepth {
						res.MaxDepth = d
					}
					est := r.estimates()
					res.Outcome(fmt.Sprintf("len=%d after=%s est=%v recorded=%v fill-incomplete=%v", len(r.sk.Table), r.afterName(), est, r.ref.Cnt, r.incomplete))
					if r.incomplete {
						incomplete++
					}
					if r.resets > 0 {
						withReset++
					}
					if env.Shard == 0 && d >= 4 && (op.Kind == "fill" && node.ref.Cnt[0] > 0 || op.Kind == "cap" && op.N == 3 && node.ref.Cnt[5] > 1) {
						res.Sample(map[string]any{"kind": "bfs state", "table_words_initial": size, "ops": names(path), "table_words": len(r.sk.Table), "additions": r.sk.Additions, "sample_size": r.sk.SampleSize,
							"estimates(zero,ones,blkA,blkB,triA,triB)": est, "recorded_since_last_reset_or_grow": r.ref.Cnt, "effective_additions_since": r.ref.Eff})
					}
				}
				next = append(next, c17Node{path, r.ref})
			}
		}
		if !capped {
			res.Bounds["depth"] = d
		}
		frontier = next
	}
	res.Bounds["table_words"] = size
	res.Bounds["max_table_words"] = maxLen
	res.Bounds["ops"] = len(ops)
	res.Bounds["hash_alphabet"] = "0, ^0, two hashes in one block, two hashes sharing 3 of 4 counters"
	res.Bounds["shard_split_depth"] = split
	res.Note("shard %d: %d of the new states were produced by a step that contained a real-Add-driven reset; %d fill steps ended without a reset (all counters saturated)", env.Shard, withReset, incomplete)
}
