//go:build verif && vplain

package internal

import (
	"bytes"
	"fmt"
	"testing"

	"github.com/Yiling-J/theine-go/internal/vrt/vh"
)

// C17 at the store's wiring: the sketch's capacity requests come from two places in the store, insertions
// (policy.Set) and LoadCache (Recover calls EnsureCapacity with the saved entry count). "Growing the sketch never
// shrinks its table" and "the estimate is at least the recorded count between resets" must survive both, also when
// the stream is loaded into a cache that has been used (its sketch has grown and holds counts).
//
// Enumeration: used-cache population n x snapshot population m x hot reads h; oracle: after Recover the table is not
// shorter than before, and if it kept its length (no growth, and Recover itself records at most the saved
// frequencies - far below a sample period here, so no reset), the estimate of every hot key is not lower than before.

func TestVerif_C17Store(t *testing.T) {
	env := vh.Env()
	res := vh.NewResult("C17", "EX-ENUM", env)
	defer res.Write()
	used := []int{0, 10, 100, 700, 3000}
	snaps := []int{0, 1, 50, 600, 5000}
	if env.Thorough() {
		used = []int{0, 1, 10, 63, 64, 65, 100, 127, 128, 129, 700, 1023, 1024, 1025, 3000, 9000}
		snaps = []int{0, 1, 10, 50, 63, 64, 65, 128, 600, 1024, 5000, 10000}
	}
	res.Bounds["used_populations"], res.Bounds["snapshot_populations"] = len(used), len(snaps)
	caseNo := 0
	for _, m := range snaps {
		// the snapshot: m entries, each read once
		src := NewStore(&StoreOptions[int, int]{MaxSize: 20000})
		for k := 0; k < m; k++ {
			src.Set(100000+k, k, 1, 0)
		}
		src.Wait()
		var stream bytes.Buffer
		if err := src.Persist(0, &stream); err != nil {
			res.Error = "persist: " + err.Error()
			return
		}
		src.Close()
		for _, n := range used {
			for _, h := range []int{0, 3, 14} {
				caseNo++
				if caseNo%env.NShards != env.Shard {
					continue
				}
				s := NewStore(&StoreOptions[int, int]{MaxSize: 20000})
				for k := 0; k < n; k++ {
					s.Set(k, k, 1, 0)
				}
				s.Wait()
				hot := n
				if hot > 5 {
					hot = 5
				}
				s.policyMu.Lock()
				for k := 0; k < hot; k++ {
					for i := 0; i < h; i++ {
						s.policy.sketch.Add(s.hasher.Hash(k))
					}
				}
				before := len(s.policy.sketch.Table)
				est := make([]uint, hot)
				for k := 0; k < hot; k++ {
					est[k] = s.policy.sketch.Estimate(s.hasher.Hash(k))
				}
				s.policyMu.Unlock()
				err := s.Recover(0, bytes.NewReader(stream.Bytes()))
				s.policyMu.Lock()
				after := len(s.policy.sketch.Table)
				rp := map[string]any{"used": n, "snapshot": m, "reads": h}
				if err != nil {
					res.Violate("recover-error", "used-cache", fmt.Sprintf("Recover into a cache holding %d entries: %v", n, err), n, rp)
				}
				if after < before {
					res.Violate("table-shrunk", "after=LoadCache", fmt.Sprintf("cache with %d entries (sketch table %d words) loaded a snapshot of %d entries: table now %d words", n, before, m, after), n, rp)
				} else if after == before {
					for k := 0; k < hot; k++ {
						if e := s.policy.sketch.Estimate(s.hasher.Hash(k)); e < est[k] {
							res.Violate("under-count", "after=LoadCache", fmt.Sprintf("cache with %d entries, key %d estimate %d before LoadCache of %d entries, %d after, table length unchanged (%d): no reset, no growth", n, k, est[k], m, e, after), n, rp)
							break
						}
					}
				}
				s.policyMu.Unlock()
				res.Outcome(fmt.Sprint(n, m, h, before, after))
				res.Executions++
				res.Completed++
				if res.Executions <= 2 {
					res.Sample(map[string]any{"used": n, "snapshot": m, "reads": h, "table_before": before, "table_after": after})
				}
				s.Close()
			}
		}
	}
}
