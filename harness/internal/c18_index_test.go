//go:build verif && vplain

package internal

// C18 key identity, white-box half: the key-to-shard mapping Store.index.
// For every key type of the catalogue (rt/vrt/vc18), every hash source (natural / StringKey constant /
// equality-respecting StringKey) and doorkeeper setting, one real Store with 128 shards and MaxSize 8:
//
//   - index(k) is recorded at first use for every catalogue key (stack below the call zeroed);
//   - keys that are == must have the same shard whatever path built them        (index-path-dependent);
//   - index(k) is recomputed at once with the stack below the call holding other bytes, and again after
//     10^3 operations on other keys (Set / Set with TTL / Get / Delete / Wait, with evictions), with
//     clean and dirty stacks: the shard must be the one recorded first         (index-unstable);
//   - after those operations Get(k) is a miss or k's own value                  (distinct-alias);
//   - under the constant StringKey function all keys must share ONE 64-bit hash, which is what makes
//     the "collide" configurations of both harnesses a full collision (checked, reported as a cap if not).
//
// The verdict is on the SHARD (what the property talks about); differing 64-bit hashes that happen to
// select the same shard are counted as outcomes only.

import (
	"fmt"
	"runtime"
	"sort"
	"strings"
	"testing"
	"time"

	"github.com/Yiling-J/theine-go/internal/vrt/vc18"
	"github.com/Yiling-J/theine-go/internal/vrt/vh"
)

type c18icfg struct {
	Hash string `json:"hash"`
	DK   bool   `json:"dk"`
}

func (c c18icfg) String() string { return fmt.Sprintf("hash=%s dk=%v", c.Hash, c.DK) }

type c18ireplay struct {
	Type string  `json:"type"`
	Cfg  c18icfg `json:"cfg"`
	Key  int     `json:"key"`
	Lbl  string  `json:"key_label"`
	Tier string  `json:"tier"`
	Go   string  `json:"go"`
}

type c18idrv struct {
	env     vh.EnvT
	res     *vh.Result
	rep     *c18ireplay
	lvl     int
	caseNo  int64
	stop    bool
	types   int
	ops     int
	perType map[string]int64
	noted   map[string]bool
}

var c18ifills = []byte{0xA5, 0xFF, 0x3C}

func (d *c18idrv) take(typ string, cfg c18icfg, key int) bool {
	if d.stop {
		return false
	}
	if d.rep != nil {
		return d.rep.Type == typ && d.rep.Cfg == cfg && d.rep.Key == key
	}
	n := d.caseNo
	d.caseNo++
	if n%int64(d.env.NShards) != int64(d.env.Shard) {
		return false
	}
	if !d.env.Deadline.IsZero() && time.Now().After(d.env.Deadline) {
		d.res.Cap(fmt.Sprintf("deadline reached at case %d (type %s)", n, typ))
		d.stop = true
		return false
	}
	return true
}

func c18irun[K comparable](d *c18idrv, t vc18.Type[K]) {
	if only := d.env.Params["type"]; only != "" && !strings.Contains(t.Name, only) {
		return
	}
	if d.rep != nil && d.rep.Type != t.Name {
		return
	}
	var idx []int
	for i := range t.Keys {
		if t.Keys[i].Lvl <= d.lvl {
			idx = append(idx, i)
		}
	}
	d.types++
	before := d.res.States
	if t.HasPad && d.env.Shard == 0 && d.rep == nil {
		// which construction paths hand over a value whose bytes differ from an == value built as a literal
		differ, same := map[string]bool{}, map[string]bool{}
		for _, i := range idx {
			for _, j := range idx {
				if t.Keys[j].Path == "literal" && t.Keys[j].K == t.Keys[i].K && t.Keys[i].Path != "literal" {
					if vc18.ReprEqual(&t.Keys[i].K, &t.Keys[j].K) {
						same[t.Keys[i].Path] = true
					} else {
						differ[t.Keys[i].Path] = true
					}
				}
			}
		}
		d.res.Note("%s (padding, register-passed=%v): paths whose bytes differ from the == literal: %v; identical: %v", t.Name, t.RegABI, c18ikeys(differ), c18ikeys(same))
	}
	var hs []string
	if c18Go124 || t.Pre124 {
		hs = append(hs, "natural")
	}
	hs = append(hs, "collide")
	if t.StrKey != nil {
		hs = append(hs, "strkey")
	}
	for _, h := range hs {
		for _, dk := range []bool{false, true} {
			cfg := c18icfg{h, dk}
			var mine []int
			for _, i := range idx {
				if d.take(t.Name, cfg, i) {
					mine = append(mine, i)
				}
			}
			if len(mine) > 0 {
				c18istore(d, &t, cfg, idx, mine)
			}
		}
	}
	d.perType[t.Name] = d.res.States - before
}

func c18istore[K comparable](d *c18idrv, t *vc18.Type[K], cfg c18icfg, idx, mine []int) {
	opts := &StoreOptions[K, int]{MaxSize: 8, Doorkeeper: cfg.DK}
	switch cfg.Hash {
	case "collide":
		opts.StringKeyFunc = func(K) string { return "c18-every-key-the-same" }
	case "strkey":
		opts.StringKeyFunc = t.StrKey
	}
	prev := runtime.GOMAXPROCS(64) // NewStore sizes the shard table from GOMAXPROCS: 128 shards
	s := NewStore(opts)
	runtime.GOMAXPROCS(prev)
	defer s.Close()

	violate := func(clause, stack, when string, i int, detail string) {
		k := &t.Keys[i]
		sig := fmt.Sprintf("class=%s hash=%s dk=%v stack=%s when=%s", t.Class, cfg.Hash, cfg.DK, stack, when)
		rp := c18ireplay{Type: t.Name, Cfg: cfg, Key: i, Lbl: k.Label(), Tier: d.env.Tier, Go: runtime.Version()}
		d.res.Violate(clause, sig, fmt.Sprintf("toolchain %s, key type %s (size %d, padding %v, register-passed %v), %s, %d shards\nkey = %s\n%s",
			runtime.Version(), t.Name, t.Size, t.HasPad, t.RegABI, cfg, s.shardCount, k.Label(), detail), k.Rank*100+i, rp)
	}

	// first use of every catalogue key
	hash0 := map[int]uint64{}
	shard0 := map[int]int{}
	for _, i := range idx {
		vc18.Dirty(0)
		h, sh := c18iindex(s, t.Keys[i].K)
		hash0[i], shard0[i] = h, sh
	}
	if cfg.Hash == "collide" {
		for _, i := range idx {
			if hash0[i] != hash0[idx[0]] {
				d.res.Cap(fmt.Sprintf("type %s %s: the constant StringKey function does not give one hash for all keys (full collision not in force)", t.Name, cfg))
				break
			}
		}
	}

	for _, i := range mine {
		k := &t.Keys[i]
		d.res.States++
		d.res.Executions++
		refl := k.K == k.K
		failed := false
		var obs []string

		// equal keys built along other paths
		for _, j := range idx {
			if j == i || !(t.Keys[j].K == k.K) {
				continue
			}
			if shard0[j] != shard0[i] {
				repr := "different bytes in memory"
				if vc18.ReprEqual(&t.Keys[j].K, &k.K) {
					repr = "identical bytes in memory"
				}
				violate("index-path-dependent", "zero", "first-use", i, fmt.Sprintf("other = %s (== key, %s)\nindex(key) = shard %d (hash %016x), index(other) = shard %d (hash %016x): equal keys are mapped to different shards",
					t.Keys[j].Label(), repr, shard0[i], hash0[i], shard0[j], hash0[j]))
				failed = true
				break
			} else if hash0[j] != hash0[i] {
				obs = append(obs, "equal-key-other-hash-same-shard")
			}
		}

		recheck := func(when, whenText string) {
			for _, f := range append([]byte{0}, c18ifills...) {
				vc18.Dirty(f)
				h, sh := c18iindex(s, k.K)
				d.res.Transitions++
				stack := "dirty"
				if f == 0 {
					stack = "zero"
				}
				if sh != shard0[i] {
					if !refl {
						// a key with k != k (NaN inside) can never be read back whatever its shard; the property's
						// premise (keys that are ==) does not cover it: recorded, not judged
						obs = append(obs, "irreflexive-key-shard-moves")
						nk := t.Name + " " + cfg.Hash
						if !d.noted[nk] {
							d.noted[nk] = true
							d.res.Note("not judged: %s, hash=%s: index(%s) is not stable (key != key)", t.Name, cfg.Hash, k.Label())
						}
						continue
					}
					if !failed {
						violate("index-unstable", stack, when, i, fmt.Sprintf("first use: shard %d (hash %016x), stack below the call zeroed\n%s, stack below the call filled with 0x%02X: shard %d (hash %016x)",
							shard0[i], hash0[i], whenText, f, sh, h))
						failed = true
					}
				} else if h != hash0[i] {
					obs = append(obs, "hash-moves-same-shard")
				}
			}
		}
		recheck("immediately", "recomputed immediately")

		vc18.Dirty(0)
		admitted := s.Set(k.K, 7000+i, 1, 0)
		if !admitted && cfg.DK {
			vc18.Dirty(0)
			admitted = s.Set(k.K, 7000+i, 1, 0)
		}
		d.res.Transitions++
		// 10^3 operations on other keys
		var others []int
		for _, j := range idx {
			if !(t.Keys[j].K == k.K) && j != i {
				others = append(others, j)
			}
		}
		if len(others) == 0 {
			others = idx
			obs = append(obs, "single-valued-type")
		}
		for n := 0; n < d.ops; n++ {
			u := &t.Keys[others[n%len(others)]]
			vc18.Dirty(c18ifills[n%len(c18ifills)])
			switch (n / len(others)) % 5 {
			case 0:
				s.Set(u.K, n, 1, 0)
			case 1:
				s.Get(u.K)
			case 2:
				s.Set(u.K, n, 2, time.Hour)
			case 3:
				s.Delete(u.K)
			case 4:
				s.Get(u.K)
			}
			if n%97 == 96 {
				s.Wait()
			}
			d.res.Transitions++
		}
		s.Wait()
		recheck("after-ops", fmt.Sprintf("recomputed after %d operations on other keys", d.ops))
		vc18.Dirty(0)
		v, ok := s.Get(k.K)
		d.res.Transitions++
		if ok && v != 7000+i && len(others) != len(idx) && !failed {
			violate("distinct-alias", "zero", "after-ops", i, fmt.Sprintf("Get(key) = %d after Set(key,%d) and %d operations on keys != key", v, 7000+i, d.ops))
			failed = true
		}
		s.Delete(k.K)
		s.Wait()
		if !failed {
			d.res.Outcome(fmt.Sprintf("%s|%s|refl=%v admitted=%v present=%v %s", t.Class, cfg, refl, admitted, ok, strings.Join(c18iuniq(obs), ",")))
			if len(d.res.Samples) < d.res.MaxSamples && i == mine[len(mine)/2] {
				d.res.Sample(map[string]any{"type": t.Name, "cfg": cfg.String(), "key": k.Label(), "shards": s.shardCount,
					"shard_first_use": shard0[i], "hash_first_use": fmt.Sprintf("%016x", hash0[i]), "ops_between": d.ops, "still_present": ok, "notes": c18iuniq(obs)})
			}
		}
	}
}

// c18iindex keeps Store.index (and the hasher inlined into it) out of the harness frames, so that the
// slot a register-passed key is spilled to lies in the stack area vc18.Dirty controls.
//
//go:noinline
func c18iindex[K comparable](s *Store[K, int], k K) (uint64, int) { return s.index(k) }

func c18ikeys(m map[string]bool) []string {
	var out []string
	for k := range m {
		out = append(out, k)
	}
	sort.Strings(out)
	return out
}

func c18iuniq(in []string) []string {
	seen := map[string]bool{}
	var out []string
	for _, s := range in {
		if !seen[s] {
			seen[s] = true
			out = append(out, s)
		}
	}
	return out
}

func c18iall(d *c18idrv) {
	c18irun(d, vc18.Int8())
	c18irun(d, vc18.Int16())
	c18irun(d, vc18.Int32())
	c18irun(d, vc18.Int64())
	c18irun(d, vc18.Int())
	c18irun(d, vc18.NamedInt())
	c18irun(d, vc18.Uint8())
	c18irun(d, vc18.Uint16())
	c18irun(d, vc18.Uint32())
	c18irun(d, vc18.Uint64())
	c18irun(d, vc18.Uint())
	c18irun(d, vc18.Uintptr())
	c18irun(d, vc18.Bool())
	c18irun(d, vc18.Pointer())
	c18irun(d, vc18.String())
	c18irun(d, vc18.NamedString())
	c18irun(d, vc18.Array3Int32())
	c18irun(d, vc18.Array2Bool())
	c18irun(d, vc18.EmptyStruct())
	c18irun(d, vc18.StructPair32())
	c18irun(d, vc18.StructPtrWord())
	c18irun(d, vc18.StructNested())
	c18irun(d, vc18.StructPadLead())
	c18irun(d, vc18.StructPadTrail())
	c18irun(d, vc18.StructPadMid())
	c18irun(d, vc18.StructPadNest())
	c18irun(d, vc18.StructPadNestOff())
	c18irun(d, vc18.StructPadDeep())
	c18irun(d, vc18.StructPadPtr())
	c18irun(d, vc18.ArrayPadLead())
	c18irun(d, vc18.StructPadWide())
	c18irun(d, vc18.StructPadMany())
	c18irun(d, vc18.StructStrInt())
	c18irun(d, vc18.Array2String())
	c18irun(d, vc18.Float64())
	c18irun(d, vc18.Float32())
	c18irun(d, vc18.Complex128())
	c18irun(d, vc18.StructFloat())
	c18irun(d, vc18.Iface())
	c18irun(d, vc18.Chan())
}

func TestVerif_C18Index(t *testing.T) {
	env := vh.Env()
	res := vh.NewResult("C18/index", "EX-ENUM", env)
	defer res.Write()
	want := env.Params["tc"]
	if (want == "go124") != c18Go124 || want == "" {
		res.Error = fmt.Sprintf("scenario wants toolchain class %q but the binary was built by %s", want, runtime.Version())
		return
	}
	d := &c18idrv{env: env, res: res, perType: map[string]int64{}, noted: map[string]bool{}, ops: env.Int("ops", 1000)}
	if env.Thorough() {
		d.lvl = 1
	}
	if env.Replay != "" {
		d.rep = &c18ireplay{}
		if err := vh.LoadReplay(env.Replay, d.rep); err != nil {
			res.Error = err.Error()
			return
		}
		if d.rep.Tier == "thorough" {
			d.lvl = 1
		}
	}
	c18iall(d)
	res.Bounds["toolchain"] = runtime.Version()
	res.Bounds["key_types"] = d.types
	res.Bounds["catalogue_level"] = d.lvl
	res.Bounds["ops_between_index_checks"] = d.ops
	res.Bounds["cases_per_type"] = d.perType
	res.MaxDepth = d.ops + 12
	res.Note("%s: %d key types, %d (type,config,key) cases on this shard, %d store operations / index evaluations", runtime.Version(), d.types, res.States, res.Transitions)
}
