//go:build verif && vplain

package internal

import (
	"bytes"
	"context"
	"fmt"
	"os"
	"path/filepath"
	"strings"
	"sync"
	"testing"
	"time"

	"github.com/Yiling-J/theine-go/internal/vrt/vh"
)

// C19 cross-check (NOT the deciding step): the same API mixes as the C19 drivers, free-running on real
// goroutines in a `-race` build. Go's race detector watches every memory location, so it can see a race
// on a location the happens-before probes do not cover (an instrumentation gap); it only sees the
// interleavings that happen to occur, which is why it is a cross-check and the explored search decides.
// cmd/check starts this binary with GORACE=log_path=<out>.race halt_on_error=0 exitcode=0; a report
// file is a violation.

func TestVerif_C19Race(t *testing.T) {
	env := vh.Env()
	res := vh.NewResult("C19/free-running-race", "race-detector", env)
	defer res.Write()
	WriteChanSize, WriteBufferSize, StripedBufferSize = 4, 2, 1
	deadline := time.Now().Add(time.Duration(env.BudgetS*0.6) * time.Second)
	rounds := 0
	for time.Now().Before(deadline) {
		rounds++
		for mix := 0; mix < 5; mix++ {
			c19RaceRound(mix, rounds)
			res.Executions++
		}
	}
	res.States, res.Transitions = int64(rounds), res.Executions
	res.Outcome("rounds-run")
	res.Outcome(fmt.Sprintf("mixes=%d", 5))
	res.Sample(map[string]any{"rounds": rounds, "mixes": []string{"save-vs-writes", "range-vs-expiry", "views-vs-eviction", "close-vs-all", "loading"}})
	res.Cap("free-running sampling of interleavings (cross-check only)")
	// race reports written so far
	pat := os.Getenv("VERIF_OUT") + ".race*"
	files, _ := filepath.Glob(pat)
	for _, f := range files {
		b, _ := os.ReadFile(f)
		txt := string(b)
		if !strings.Contains(txt, "DATA RACE") {
			continue
		}
		var fr []string
		for _, ln := range strings.Split(txt, "\n") {
			ln = strings.TrimSpace(ln)
			if strings.HasPrefix(ln, "github.com/Yiling-J/theine-go/internal.") && len(fr) < 2 {
				name := strings.TrimPrefix(ln, "github.com/Yiling-J/theine-go/internal.")
				if i := strings.IndexByte(name, '('); i > 0 && !strings.HasPrefix(name, "(") {
					name = name[:i]
				}
				fr = append(fr, name)
			}
		}
		if len(txt) > 3000 {
			txt = txt[:3000]
		}
		res.Violate("data-race-free-running", strings.Join(fr, " <-> "), "the Go race detector reported:\n"+txt, 0, map[string]any{"report": f})
	}
}

func c19RaceRound(mix, round int) {
	s := NewStore(&StoreOptions[int, int]{MaxSize: 4, Listener: func(k, v int, r RemoveReason) {}})
	ls := NewLoadingStore(s)
	ls.Loader(func(ctx context.Context, k int) (Loaded[int], error) { return Loaded[int]{Value: k, Cost: 1}, nil })
	var wg sync.WaitGroup
	run := func(f func()) { wg.Add(1); go func() { defer wg.Done(); f() }() }
	for i := 0; i < 3; i++ {
		s.Set(i, i, 1, 0)
	}
	switch mix {
	case 0:
		run(func() { var b bytes.Buffer; _ = s.Persist(1, &b) })
		run(func() { s.Set(1, 10, 1, 0); s.Delete(2) })
		run(func() { s.Get(1); s.Get(2) })
	case 1:
		s.Set(7, 7, 1, time.Millisecond)
		run(func() { s.Range(func(k, v int) bool { return true }) })
		run(func() { s.Set(2, 20, 1, 0); s.Set(7, 70, 1, time.Second) })
		run(func() { time.Sleep(2 * time.Millisecond); s.Get(7) })
	case 2:
		run(func() { s.EstimatedSize(); s.Len(); s.Stats() })
		run(func() {
			for i := 10; i < 20; i++ {
				s.Set(i, i, 1, 0)
			}
		})
		run(func() { s.Get(1); s.Get(12) })
	case 3:
		run(func() { s.Close() })
		run(func() { s.Set(5, 5, 1, 0); s.Get(1) })
		run(func() { s.Delete(1); s.Wait() })
	case 4:
		run(func() { _, _ = ls.Get(context.Background(), 30); s.Get(30) })
		run(func() { _, _ = ls.Get(context.Background(), 30) })
		run(func() { s.Set(30, 31, 1, 0); s.Delete(30) })
	}
	wg.Wait()
	if mix != 3 {
		s.Wait()
	}
	s.Close()
}
