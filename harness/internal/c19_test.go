//go:build verif && vsched

package internal

import (
	"bytes"
	"fmt"
	"sort"
	"strings"
	"testing"

	"github.com/Yiling-J/theine-go/internal/vrt"
	"github.com/Yiling-J/theine-go/internal/vrt/vh"
)

// C19 — no data races in the default configuration (entry pool off).
//
// Engine E4-HB on E1-ICB: the instrumented build carries access probes on every field of the store's
// struct types (instr/track.go) and the scheduler runtime keeps vector clocks fed by every lock, atomic,
// channel, pool, WaitGroup, spawn and cancellation edge (rt/vrt/hb.go). On every explored schedule any
// pair of accesses to one location, at least one a write, that is not ordered by happens-before is a
// violation - in that schedule, which is replayable.

func c19Check(res *vh.Result, cfg *icCfg) func(r *icRun, x *vrt.Sched, cost int) {
	return func(r *icRun, x *vrt.Sched, cost int) {
		rp := map[string]any{"driver": cfg.Name, "choices": x.Choices()}
		for _, rc := range x.Races {
			sig := rc
			if i := strings.Index(sig, " (threads"); i >= 0 {
				sig = sig[:i]
			}
			res.Violate("data-race", c19Sig(sig), cfg.Name+": unordered conflicting accesses: "+rc+"\nhistory: "+r.history(), cost, rp)
		}
		if len(r.stuck) > 0 || x.ErrKind == "deadlock" {
			// termination is C10's business; record it as an outcome only
			res.Outcome(cfg.Name + "|stuck")
			return
		}
		var obs []string
		for _, c := range r.calls {
			if c.Client >= 0 {
				obs = append(obs, fmt.Sprintf("%d%s%v", c.Client, c.Op.Kind, c.OK))
			}
		}
		res.Outcome(cfg.Name + "|" + strings.Join(obs, ",") + "|" + fmtMap(r.final) + "|" + fmt.Sprint(len(r.h.notes)))
		if res.NOutcomes() <= 2 {
			res.Sample(map[string]any{"driver": cfg.Name, "history": r.history(), "schedule_len": len(x.Trace)})
		}
	}
}

// c19Sig drops line numbers (they move with unrelated edits) and keeps file + field + kind.
func c19Sig(s string) string {
	parts := strings.Split(s, " <-> ")
	for i, p := range parts {
		f := strings.Fields(p)
		if len(f) >= 3 {
			file := f[0]
			if j := strings.IndexByte(file, ':'); j >= 0 {
				file = file[:j]
			}
			parts[i] = file + " " + strings.Join(f[1:], " ")
		}
	}
	sort.Strings(parts)
	return strings.Join(parts, " <-> ")
}

func c19Drivers() []*icCfg {
	S := func(k int) icOp { return icOp{Kind: "set", K: k, Cost: 1} }
	T := func(k int, ttl int64) icOp { return icOp{Kind: "set", K: k, Cost: 1, TTL: ttl} }
	G := func(k int) icOp { return icOp{Kind: "get", K: k} }
	D := func(k int) icOp { return icOp{Kind: "del", K: k} }
	L := func(k int) icOp { return icOp{Kind: "lget", K: k} }
	big := hOpts{MaxSize: 10, ChanSize: 4, BufSize: 2}
	small := hOpts{MaxSize: 1, ChanSize: 4, BufSize: 2}
	tick := icOp{Kind: "tick", Arg: 2 * sec}
	const long = 3600 * sec
	H := func(k int) icOp { return icOp{Kind: "hget", K: k} }
	HD := func(k int) icOp { return icOp{Kind: "hdel", K: k} }
	W, Z := icOp{Kind: "wait"}, icOp{Kind: "settle"}
	return []*icCfg{
		{Name: "R1-save-vs-writes", O: big, Pre: []icOp{S(1), S(2)}, Scripts: [][]icOp{{{Kind: "persist"}}, {S(1), D(2)}, {G(1), G(2)}}},
		{Name: "R2-range-vs-expiry", O: big, Pre: []icOp{T(1, sec), S(2)}, Scripts: [][]icOp{{{Kind: "range"}}, {S(2), T(1, 5*sec)}, {tick}}},
		{Name: "R3-views-vs-eviction", O: small, Pre: []icOp{S(1)}, Scripts: [][]icOp{{{Kind: "est"}, {Kind: "len"}, {Kind: "stats"}}, {S(2), S(4)}, {G(1), G(2)}}},
		{Name: "R4-close-vs-all", O: big, Pre: []icOp{S(1)}, Scripts: [][]icOp{{{Kind: "close"}}, {S(2), G(1)}}},
		{Name: "R4c-close-vs-delete", O: big, Pre: []icOp{S(1)}, Scripts: [][]icOp{{{Kind: "close"}}, {D(1), S(1)}}},
		{Name: "R4b-close-vs-wait", O: big, Pre: []icOp{S(1)}, Scripts: [][]icOp{{{Kind: "close"}}, {S(2), G(1)}, {D(1), {Kind: "wait"}}}},
		// Close overlapping the once-per-second maintenance tick (which reads the closed mark and walks the wheel)
		{Name: "R4d-close-vs-tick", O: big, Pre: []icOp{T(1, sec)}, Scripts: [][]icOp{{{Kind: "close"}}, {tick}}},
		{Name: "R4e-close-vs-tick-vs-set", O: big, Pre: []icOp{T(1, sec)}, Scripts: [][]icOp{{{Kind: "close"}}, {tick}, {S(2)}}},
		// hybrid caches: the real worker goroutine (processSecondary) copying a queued entry, promotion from the
		// secondary tier, DeleteWithSecondary and Close, against writers of the same key
		{Name: "R9-hybrid-promote-vs-set", O: small, Hy: &hyIcCfg{Workers: 1, Prob: 1}, Pre: []icOp{T(1, long), T(2, long), W, Z}, Scripts: [][]icOp{{H(1)}, {T(1, long)}}},
		{Name: "R9b-hybrid-worker-vs-delete", O: small, Hy: &hyIcCfg{Workers: 1, Prob: 1}, Pre: []icOp{T(1, long), T(2, long), W}, Scripts: [][]icOp{{HD(1)}, {H(2), T(1, long)}}},
		{Name: "R9c-hybrid-close", O: small, Hy: &hyIcCfg{Workers: 1, Prob: 1}, Pre: []icOp{T(1, long), T(2, long), W}, Scripts: [][]icOp{{{Kind: "close"}}, {H(1)}}},
		{Name: "R9d-hybrid-loading", O: small, Hy: &hyIcCfg{Workers: 1, Prob: 1}, Loading: true, LoadCost: 1, LoadTTL: long, Pre: []icOp{T(1, long), T(2, long), W, Z}, Scripts: [][]icOp{{L(1)}, {T(1, long)}}},
		// the demotion fails (scripted Secondary.Set error): the worker reports the entry as lost and removes it, racing a Set of that key
		{Name: "R9g-hybrid-failed-demotion-vs-set", O: small, Hy: &hyIcCfg{Workers: 1, Prob: 1, Faults: "S1"}, Pre: []icOp{T(1, long), T(2, long), W}, Scripts: [][]icOp{{T(1, long)}, {H(2)}}},
		{Name: "R9e-hybrid-close-3", O: small, Hy: &hyIcCfg{Workers: 1, Prob: 1}, Pre: []icOp{T(1, long), T(2, long), W}, Scripts: [][]icOp{{{Kind: "close"}}, {H(1), T(3, long)}}},
		{Name: "R9f-hybrid-loading-3", O: small, Hy: &hyIcCfg{Workers: 1, Prob: 1}, Loading: true, LoadCost: 1, LoadTTL: long, Pre: []icOp{T(1, long), T(2, long), W, Z}, Scripts: [][]icOp{{L(1)}, {T(1, long)}, {L(3)}}},
		// SaveCache against expiry and eviction; a loading Get against Close and the tick
		{Name: "R1b-save-vs-tick-evict", O: small, Pre: []icOp{T(1, sec)}, Scripts: [][]icOp{{{Kind: "persist"}}, {tick}, {S(2)}}},
		{Name: "R5b-loading-vs-close-tick", O: big, Loading: true, LoadCost: 1, LoadTTL: sec, Pre: []icOp{L(2)}, Scripts: [][]icOp{{L(1)}, {{Kind: "close"}}, {tick}}},
		// a joined load, then another load on the same shard's group re-using the pooled call record
		{Name: "R5c-call-record-reuse", O: big, Loading: true, LoadCost: 1, Scripts: [][]icOp{{L(1)}, {L(1)}, {L(2)}}},
		{Name: "R5-loading", O: big, Loading: true, LoadCost: 1, Scripts: [][]icOp{{L(1), G(1)}, {L(1)}, {S(1), D(1)}}},
		{Name: "R6-update-vs-evict", O: small, Pre: []icOp{S(1)}, Scripts: [][]icOp{{S(1), S(1)}, {S(2)}, {G(1), {Kind: "range"}}}},
		// read buffer with every atomic a scheduling point and capacity 2 (build schedTrackBuf): drains, Free and refills overlap
		{Name: "R8-read-buffer", O: big, Pre: []icOp{S(1)}, Scripts: [][]icOp{{G(1), G(1)}, {G(1), G(1)}, {G(1), S(2)}}},
		// doorkeeper on, the sketch one addition short of its aging reset: whatever the reset touches must be touched under the right lock
		{Name: "R10-doorkeeper-vs-sketch-reset", O: hOpts{MaxSize: 10, ChanSize: 4, BufSize: 2, Doorkeeper: true}, Pre: []icOp{S(1), S(1), {Kind: "wait"}, {Kind: "sketch-edge"}},
			Scripts: [][]icOp{{S(2), S(2)}, {S(3), S(3)}, {G(1)}}},
		{Name: "R7-expiry-vs-ttl-update", O: big, Pre: []icOp{T(1, sec)}, Scripts: [][]icOp{{T(1, 90*sec), G(1)}, {tick}, {D(1)}}},
	}
}

func TestVerif_C19(t *testing.T) {
	env := vh.Env()
	res := vh.NewResult("C19", "E4-HB", env)
	defer res.Write()
	for _, cfg := range c19Drivers() {
		if d := env.Params["driver"]; d != "" && d != cfg.Name {
			continue
		}
		cfg.P, cfg.D = env.Int("P", 2), env.Int("D", 1)
		cfg.HB = true
		cfg.EndWait = true
		cfg.EndClose = true
		icExplore(res, env, cfg, c19Check(res, cfg))
		if res.Error != "" {
			return
		}
	}
}

var _ = bytes.NewBuffer
