//go:build verif && vsched

package internal

import (
	"fmt"
	"sort"
	"strings"
	"testing"

	"github.com/Yiling-J/theine-go/internal/vrt"
	"github.com/Yiling-J/theine-go/internal/vrt/vh"
)

// C20 — Wait is a write barrier and always returns.
//
// Drivers: client scripts of Set / Delete / Wait on distinct keys; the real maintenance
// and ticker goroutines run under the scheduler with queue capacity and batch size 2, so
// "two markers in one batch", "marker on a batch boundary" and "marker behind a full
// queue" are all reachable with 2–3 operations per client.
//
// Oracle: (1) every client finishes (a Wait that never returns shows up as a client
// parked forever once nothing else can run); (2) at the instant a Wait returns, every
// write whose call had returned before that Wait was *called* is applied: a Set's
// (key,value) is tracked by the policy or already reported to the listener, a Delete's
// victim has been reported; (3) the policy total is within MaxSize.

type c20Op struct {
	kind string // set, del, wait
	k    int
	c    int // cost of a set (0 = 1)
}

type c20Write struct {
	client, k, v int
	kind         string
	ret          int // logical time the call returned (0 = not yet)
}

type c20Run struct {
	h       *hStore
	clock   int
	writes  []*c20Write
	done    []bool
	obs     []string
	bad     []string
	maxsize int64
	stuck   []string
	waits   []c20Wait
}

type c20Wait struct{ ci, called, nnotes int }

type c20Cfg struct {
	name    string
	maxsize int64
	chanSz  int
	bufSz   int
	scripts [][]c20Op
	pre     []c20Op // sequential pre-history (not explored)
}

func c20Drivers() []c20Cfg {
	S := func(k int) c20Op { return c20Op{kind: "set", k: k} }
	D := func(k int) c20Op { return c20Op{kind: "del", k: k} }
	W := c20Op{kind: "wait"}
	E := c20Op{kind: "est"}
	G := func(k int) c20Op { return c20Op{kind: "get", k: k} }
	return []c20Cfg{
		{name: "W1-two-waiters", maxsize: 10, chanSz: 4, bufSz: 2, scripts: [][]c20Op{{S(1), W}, {S(2), W}}},
		{name: "W2-three-waiters", maxsize: 10, chanSz: 4, bufSz: 2, scripts: [][]c20Op{{S(1), W}, {W}, {S(2), W}}},
		{name: "W3-full-queue", maxsize: 10, chanSz: 2, bufSz: 2, scripts: [][]c20Op{{S(1), S(2), S(3), W}, {W}}},
		{name: "W4-delete-evict", maxsize: 1, chanSz: 2, bufSz: 2, scripts: [][]c20Op{{S(1), D(1), W}, {S(2), S(3), W}}},
		// other users of the policy lock (size poll, expiry tick, reader) while markers are in flight; batch size 4 and 8
		{name: "W5-size-poller", maxsize: 10, chanSz: 4, bufSz: 4, scripts: [][]c20Op{{S(1), W}, {E, E}, {S(2), W}}},
		{name: "W6-tick", maxsize: 10, chanSz: 4, bufSz: 4, scripts: [][]c20Op{{S(1), W}, {c20Op{kind: "tick"}}, {W}}},
		// a cost-growing Set of a key whose neighbours have been read (they sit in the protected region; read-buffer
		// capacity rewritten to 2, so the pre-history's hits reach the policy): the evictions it causes must have
		// happened when the Wait behind it returns
		{name: "W8-cost-growth", maxsize: 4, chanSz: 4, bufSz: 2, pre: []c20Op{S(1), S(2), S(3), S(4), W, G(1), G(2), G(3), G(4), G(1), G(2)},
			scripts: [][]c20Op{{{kind: "set", k: 1, c: 4}, W}, {E}}},
		{name: "W8b-cost-growth-3", maxsize: 4, chanSz: 4, bufSz: 2, pre: []c20Op{S(1), S(2), S(3), S(4), W, G(1), G(2), G(3), G(4), G(3), G(2)},
			scripts: [][]c20Op{{{kind: "set", k: 2, c: 3}, W}, {{kind: "set", k: 3, c: 2}, W}}},
		{name: "W7-size-poller-b8", maxsize: 10, chanSz: 4, bufSz: 8, scripts: [][]c20Op{{S(1), S(2), W}, {E, E}}},
	}
}

func c20Body(cfg c20Cfg) (*c20Run, func()) {
	r := &c20Run{maxsize: cfg.maxsize, done: make([]bool, len(cfg.scripts))}
	return r, func() {
		vrt.NoBranch(func() {
			r.h = newHStore(hOpts{MaxSize: cfg.maxsize, ChanSize: cfg.chanSz, BufSize: cfg.bufSz})
		})
		settle()
		do := func(ci, oi int, op c20Op) {
			switch op.kind {
			case "set":
				w := &c20Write{client: ci, k: op.k, v: 100*ci + oi + 1, kind: "set"}
				r.writes = append(r.writes, w)
				cost := int64(op.c)
				if cost == 0 {
					cost = 1
				}
				r.h.s.Set(op.k, w.v, cost, 0)
				r.clock++
				w.ret = r.clock
			case "del":
				w := &c20Write{client: ci, k: op.k, kind: "del"}
				// the value this client stored under k earlier (keys are client-private)
				for _, p := range r.writes {
					if p.client == ci && p.k == op.k && p.kind == "set" {
						w.v = p.v
					}
				}
				r.writes = append(r.writes, w)
				r.h.s.Delete(op.k)
				r.clock++
				w.ret = r.clock
			case "est":
				r.h.s.EstimatedSize() // takes the policy lock
			case "get":
				r.h.s.Get(op.k) // a hit ends in the read buffer; a full stripe is drained under the policy lock
			case "tick":
				vrt.Advance(2 * sec)
				vrt.Tick() // the maintenance ticker goroutine wakes up and takes the policy lock
			case "wait":
				r.clock++
				called := r.clock
				r.h.s.Wait()
				vrt.Quiet(func() { r.atWaitReturn(ci, called) })
			}
		}
		if len(cfg.pre) > 0 {
			vrt.NoBranch(func() {
				for oi, op := range cfg.pre {
					do(9, oi, op)
				}
			})
			settle()
		}
		for ci, sc := range cfg.scripts {
			ci, sc := ci, sc
			vrt.GoNamed(fmt.Sprintf("client%d", ci), func() {
				for oi, op := range sc {
					do(ci, oi, op)
				}
				r.done[ci] = true
			})
		}
		vrt.WaitIdle()
		r.stuck = stuckNow("client")
		vrt.Quiet(r.atEnd)
	}
}

// pendingItems peeks at the write queue (drain and refill: nobody else runs in quiet mode).
func (h *hStore) pendingItems() []WriteBufItem[int, int] {
	ch := h.s.writeChan
	n := len(ch)
	items := make([]WriteBufItem[int, int], 0, n)
	for i := 0; i < n; i++ {
		items = append(items, <-ch)
	}
	for _, it := range items {
		ch <- it
	}
	return items
}

// removalBegun: the policy has already taken the resident entry of k out (eviction or expiry under way: the
// removed mark is set before the shard lock is taken to delete the map slot). Quiet mode only.
func (h *hStore) removalBegun(k int) bool {
	for _, sh := range h.s.shards {
		if e, ok := sh.hashmap[k]; ok {
			return e.flag.IsRemoved()
		}
	}
	return false
}

// itemProcessed tells from the entry's policy-side state whether sinkWrite has handled the
// item (entry pool off: entries start with zero flags and no list links).
func itemProcessed(it WriteBufItem[int, int]) bool {
	e := it.entry
	switch it.code {
	case NEW:
		return e.meta.prev != nil || e.flag.IsRemoved() || e.flag.IsDeleted()
	case REMOVE:
		return e.flag.IsDeleted()
	}
	return true
}

func matches(it WriteBufItem[int, int], w *c20Write) bool {
	if it.entry == nil || it.entry.key != w.k {
		return false
	}
	if w.kind == "set" {
		// the value too: a later Set of the same key (W8 drivers) reuses the entry, and its event is not w's
		return (it.code == NEW || it.code == UPDATE) && it.entry.value == w.v
	}
	return it.code == REMOVE
}

func (r *c20Run) atWaitReturn(ci, called int) {
	queued := r.h.pendingItems()
	batch := r.h.s.writeBuffer
	res, pol := r.h.resident(), r.h.policyPairs()
	var seen []string
	for _, w := range r.writes {
		if w.ret == 0 || w.ret >= called {
			continue
		}
		applied := true
		why := ""
		for _, it := range queued {
			if matches(it, w) {
				applied, why = false, "its event is still in the write queue"
			}
		}
		for _, it := range batch {
			if matches(it, w) && !itemProcessed(it) {
				applied, why = false, "its event was dequeued but not yet applied"
			}
		}
		// positive evidence, so that an event that was dropped (neither queued nor in the batch) is not
		// mistaken for an applied one: a stored value the map still holds must be tracked by the policy,
		// and the victim of a Delete must have been reported
		if applied && w.kind == "set" {
			if v, ok := res[w.k]; ok && v == w.v && pol[[2]int{w.k, w.v}] == "" && !r.h.removalBegun(w.k) {
				applied, why = false, "its event is gone (not queued, not in the batch) and the policy does not track the entry the map holds"
			}
		}
		if applied && w.kind == "del" && w.v != 0 && r.h.notified(w.k, w.v) == 0 {
			applied, why = false, "its event is gone (not queued, not in the batch) and no notification for the removed value was delivered"
		}
		seen = append(seen, fmt.Sprintf("%s%d:%v", w.kind, w.k, applied))
		if !applied {
			r.bad = append(r.bad, fmt.Sprintf("client%d: Wait returned but %s(%d) by client%d, which had returned before the Wait was called, is not applied: %s", ci, w.kind, w.k, w.client, why))
		}
	}
	// (3) only when every write begun so far had returned before this Wait was called: the policy evicts entry by
	// entry (each removal takes a shard lock), so while it applies somebody else's later cost-growing Set the total
	// is legitimately above MaxSize for a moment
	settled := true
	for _, w := range r.writes {
		if w.ret == 0 || w.ret >= called {
			settled = false
		}
	}
	if ws := int64(r.h.s.policy.weightedSize); ws > r.maxsize && settled {
		r.bad = append(r.bad, fmt.Sprintf("client%d: policy total %d > MaxSize %d when Wait returned", ci, ws, r.maxsize))
	}
	r.waits = append(r.waits, c20Wait{ci, called, len(r.h.notes)})
	sort.Strings(seen)
	r.obs = append(r.obs, fmt.Sprintf("c%d[%s]", ci, strings.Join(seen, ",")))
}

// atEnd: a notification for a Delete that completed before a Wait was called must already
// have been in the listener log when that Wait returned (the log is append-only).
func (r *c20Run) atEnd() {
	all := true
	for _, d := range r.done {
		all = all && d
	}
	if all {
		// every script ends with a Wait, so at the end every write precedes a completed Wait of its own client:
		// the map and the policy must describe the same entries
		res, pol := r.h.resident(), r.h.policyPairs()
		for k, v := range res {
			if pol[[2]int{k, v}] == "" && !r.h.removalBegun(k) {
				r.bad = append(r.bad, fmt.Sprintf("at the end (every client's final Wait has returned) the map holds %d=%d but the policy does not track it", k, v))
			}
		}
		for kv := range pol {
			if v, ok := res[kv[0]]; !ok || v != kv[1] {
				r.bad = append(r.bad, fmt.Sprintf("at the end (every client's final Wait has returned) the policy still tracks %d=%d, which the map no longer holds", kv[0], kv[1]))
			}
		}
		sort.Strings(r.bad)
	}
	for _, wt := range r.waits {
		for _, w := range r.writes {
			if w.kind != "del" || w.ret == 0 || w.ret >= wt.called {
				continue
			}
			for i, n := range r.h.notes {
				if n.K == w.k && n.V == w.v && i >= wt.nnotes {
					r.bad = append(r.bad, fmt.Sprintf("client%d: notification %v for del(%d) arrived only after the Wait had returned", wt.ci, n, w.k))
				}
			}
		}
	}
}

func c20Check(res *vh.Result, cfg c20Cfg) func(r *c20Run, x *vrt.Sched, cost int) {
	return func(r *c20Run, x *vrt.Sched, cost int) {
		rp := map[string]any{"driver": cfg.name, "choices": x.Choices()}
		if x.ErrKind == "panic" {
			res.Violate("panic", firstLine(x.Err), x.Err, cost, rp)
			return
		}
		var hung []string
		for ci, d := range r.done {
			if !d {
				hung = append(hung, fmt.Sprintf("client%d", ci))
			}
		}
		if len(hung) > 0 || x.ErrKind == "deadlock" {
			res.Violate("wait-never-returns", strings.Join(r.stuck, ","),
				fmt.Sprintf("driver %s: %v never finished; parked: %v; %s", cfg.name, hung, r.stuck, x.Err), cost, rp)
		}
		for _, b := range r.bad {
			res.Violate("barrier", "write-not-applied-at-wait-return", "driver "+cfg.name+": "+b, cost, rp)
			break
		}
		sort.Strings(r.obs)
		res.Outcome(cfg.name + "|" + strings.Join(r.obs, ";") + "|" + strings.Join(hung, ","))
		if res.NOutcomes() <= 3 {
			res.Sample(map[string]any{"driver": cfg.name, "schedule_len": len(x.Trace), "observations": r.obs, "listener": fmtNotes(r.h.notes)})
		}
	}
}

func firstLine(s string) string {
	if i := strings.IndexByte(s, '\n'); i >= 0 {
		return s[:i]
	}
	return s
}

func TestVerif_C20(t *testing.T) {
	env := vh.Env()
	res := vh.NewResult("C20", "E1-ICB", env)
	defer res.Write()
	P := env.Int("P", 2)
	for _, cfg := range c20Drivers() {
		if d := env.Params["driver"]; d != "" && d != cfg.name {
			continue
		}
		cfg := cfg
		e1Run(res, env, e1Opts{P: P, D: env.Int("D", 1), Iterative: true, MaxSteps: 5000},
			func() (*c20Run, func()) { return c20Body(cfg) }, c20Check(res, cfg))
		if res.Error != "" {
			return
		}
	}
}
