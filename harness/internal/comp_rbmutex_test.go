//go:build verif && vsched

package internal

import (
	"fmt"
	"sort"
	"strings"
	"testing"

	"github.com/Yiling-J/theine-go/internal/vrt"
	"github.com/Yiling-J/theine-go/internal/vrt/vh"
	"github.com/Yiling-J/theine-go/internal/vrt/vtime"
)

// Component obligation behind the coarse builds (C01, C16, C19 …): RBMutex behaves as a reader/writer
// lock. Engine E1-SK: every atomic of rbmutex.go a scheduling point, unbounded preemptions, the search
// closed by state-key pruning.
//
// Invariant: never a writer together with a reader or another writer inside; every thread finishes
// (no deadlock, the Gosched spin in Lock is a visible wait); TryLock/TryRLock failures leave the lock usable.

type rbRun struct {
	mu       *RBMutex
	readers  int
	writers  int
	obs      []string
	finished int
}

func rbKey(r *rbRun) string {
	mu := r.mu
	var b strings.Builder
	fmt.Fprintf(&b, "b%d|", mu.rbias)
	for i := range mu.rslots {
		fmt.Fprintf(&b, "s%d,", mu.rslots[i].mu)
	}
	w, rd, ww := mu.rw.State()
	inh := int64(-1)
	if !mu.inhibitUntil.IsZero() {
		inh = int64(mu.inhibitUntil.Sub(vtime.Base))
	}
	fmt.Fprintf(&b, "|rw%v,%d,%d|in%d,%d|inh%d,now%d|", w, rd, ww, r.readers, r.writers, inh, vrt.NowNanos())
	for _, it := range rtokenPool.Items() {
		fmt.Fprintf(&b, "t%d,", it.(*RToken).slot)
	}
	obs := append([]string{}, r.obs...)
	sort.Strings(obs)
	fmt.Fprintf(&b, "|f%d|%s", r.finished, strings.Join(obs, ","))
	return b.String()
}

func rbBody(scripts [][]string, adv bool, res *vh.Result, name string) (*rbRun, func()) {
	r := &rbRun{}
	return r, func() {
		vrt.NoBranch(func() {
			r.mu = NewRBMutex()
			rtokenPool.Fingerprint = func(x any) uint64 { return uint64(x.(*RToken).slot) }
		})
		violate := func(what string) {
			res.Violate("mutual-exclusion", what, fmt.Sprintf("%s: %s (readers inside %d, writers inside %d)", name, what, r.readers, r.writers), 0,
				map[string]any{"driver": name, "choices": vrt.S.Choices()})
		}
		for ti, sc := range scripts {
			ti, sc := ti, sc
			vrt.GoNamed(fmt.Sprintf("t%d", ti), func() {
				for oi, op := range sc {
					vrt.BeginOp(oi)
					switch op {
					case "r", "tr":
						var tk *RToken
						ok := true
						if op == "r" {
							tk = r.mu.RLock()
						} else {
							ok, tk = r.mu.TryRLock()
						}
						if ok {
							if r.writers > 0 {
								violate("reader-entered-while-writer-inside")
							}
							r.readers++
							vrt.Yield("cs", "")
							r.readers--
							r.mu.RUnlock(tk)
						}
						r.obs = append(r.obs, fmt.Sprintf("%d%s%v", ti, op, ok))
					case "w", "tw":
						ok := true
						if op == "w" {
							r.mu.Lock()
						} else {
							ok = r.mu.TryLock()
						}
						if ok {
							if r.writers > 0 || r.readers > 0 {
								violate("writer-entered-while-occupied")
							}
							r.writers++
							vrt.Yield("cs", "")
							r.writers--
							r.mu.Unlock()
						}
						r.obs = append(r.obs, fmt.Sprintf("%d%s%v", ti, op, ok))
					}
				}
				r.finished++
			})
		}
		if adv {
			vrt.GoNamed("clock", func() { vrt.Advance(1000); r.finished++ })
		}
		vrt.WaitIdle()
	}
}

type rbCfg struct {
	name    string
	procs   int
	adv     bool
	scripts [][]string
}

func rbCfgs() []rbCfg {
	return []rbCfg{
		{"2r1w-s1", 1, false, [][]string{{"r", "r"}, {"r"}, {"w"}}},
		{"1r2w-s1", 1, false, [][]string{{"r"}, {"w"}, {"w"}}},
		{"2r1w-s2", 2, false, [][]string{{"r"}, {"r"}, {"w"}}},
		{"try-s1", 1, false, [][]string{{"tr", "r"}, {"tw"}, {"w"}}},
		{"try-s2", 2, false, [][]string{{"tr"}, {"tw", "r"}, {"w"}}},
		{"rebias-s1", 1, true, [][]string{{"w", "r"}, {"r", "r"}}},
		{"rebias-s2", 2, true, [][]string{{"w", "r"}, {"r"}, {"tw"}}},
	}
}

func TestVerif_RBMutex(t *testing.T) {
	env := vh.Env()
	res := vh.NewResult("C01/rbmutex", "E1-SK", env)
	defer res.Write()
	for _, cfg := range rbCfgs() {
		if d := env.Params["driver"]; d != "" && d != cfg.name {
			continue
		}
		cfg := cfg
		n := len(cfg.scripts)
		if cfg.adv {
			n++
		}
		e1Run(res, env, e1Opts{P: -1, D: -1, SK: env.Params["sk"] != "0", MaxSteps: 5000, Procs: cfg.procs,
			KeyFn: func(run any) string { return rbKey(run.(*rbRun)) }},
			func() (*rbRun, func()) { return rbBody(cfg.scripts, cfg.adv, res, cfg.name) },
			func(r *rbRun, x *vrt.Sched, cost int) {
				rp := map[string]any{"driver": cfg.name, "choices": x.Choices()}
				if x.ErrKind != "" {
					res.Violate(x.ErrKind, firstLine(x.Err), cfg.name+": "+x.Err, cost, rp)
					return
				}
				if r.finished != n {
					res.Violate("deadlock", "thread-never-finished", fmt.Sprintf("%s: %d of %d threads finished; %v", cfg.name, r.finished, n, stuckNow("t")), cost, rp)
				}
				sort.Strings(r.obs)
				res.Outcome(cfg.name + "|" + strings.Join(r.obs, ","))
				if res.NOutcomes() <= 2 {
					res.Sample(map[string]any{"driver": cfg.name, "observations": r.obs, "schedule_len": len(x.Trace)})
				}
			})
		if res.Error != "" {
			return
		}
	}
}
