//go:build verif && vsched

package internal

import (
	"errors"
	"fmt"
	"math/rand"
	"sort"
	"strconv"
	"strings"

	"github.com/Yiling-J/theine-go/internal/vrt"
	"github.com/Yiling-J/theine-go/internal/vrt/vh"
)

// ---- shared infrastructure of the hybrid-cache checks (C14, C15) ----
//
// hySec is a scripted secondary store: a map, a full call log, a per-call fault script and an
// optional "slow" mode (a scheduling point inside every call). It is the only implementation of
// SecondaryCache the hybrid checks use, so every byte that reaches or leaves the secondary tier
// is on record with its logical time.

type hyEnt struct {
	V      int
	Cost   int64
	Expire int64
}

type hySecCall struct {
	Op     string // get set del
	K, V   int
	Cost   int64
	Expire int64
	Found  bool // get: the store answered ok
	Fail   bool // the call was scripted to fail (no effect on the map)
	Step   int  // logical time supplied by the driver
	Now    int64
	EndNow int64 // get: the virtual clock when the call handed its answer back (after the slow part)
	Tid    int
	Ctx    any  // driver-supplied context (ICB: the client call on whose thread the secondary was invoked)
	Cur    bool // set: the value written is the value the shard map holds for the key at that moment; get: the shard map holds an entry for the key at that moment
}

type hySec struct {
	m    map[int]hyEnt
	log  []hySecCall
	plan map[string]string // op -> "0100": the i-th call of that op fails iff the i-th byte is '1' (default ok)
	n    map[string]int
	slow bool
	errs int // HandleAsyncError invocations
	step func() int
	ctx  func() any              // optional
	cur  func(k int) (int, bool) // optional (white-box): the value the shard map holds for k right now
}

var errHySec = errors.New("secondary store failed")

// hyParseFaults reads "S01,G1,D001" (S = Set, G = Get, D = Delete).
func hyParseFaults(s string) map[string]string {
	m := map[string]string{}
	for _, p := range strings.Split(s, ",") {
		if len(p) < 2 {
			continue
		}
		switch p[0] {
		case 'S':
			m["set"] = p[1:]
		case 'G':
			m["get"] = p[1:]
		case 'D':
			m["del"] = p[1:]
		}
	}
	return m
}

func newHySec(faults string, slow bool, step func() int) *hySec {
	return &hySec{m: map[int]hyEnt{}, plan: hyParseFaults(faults), n: map[string]int{}, slow: slow, step: step}
}

func (s *hySec) fails(op string) bool {
	i := s.n[op]
	s.n[op]++
	p := s.plan[op]
	return i < len(p) && p[i] == '1'
}

func (s *hySec) rec(c hySecCall) {
	c.Step = s.step()
	c.Now = vrt.NowNanos()
	if vrt.On() {
		c.Tid = vrt.Cur().ID
	}
	if s.ctx != nil {
		c.Ctx = s.ctx()
	}
	if s.cur != nil {
		v, ok := s.cur(c.K)
		switch c.Op {
		case "set":
			c.Cur = ok && v == c.V
		case "get":
			c.Cur = ok
		}
	}
	s.log = append(s.log, c)
}

func (s *hySec) pause(op string) {
	if s.slow {
		vrt.Yield("secondary", op)
	}
}

func (s *hySec) Get(key int) (value int, cost int64, expire int64, ok bool, err error) {
	s.pause("get")
	if s.fails("get") {
		s.rec(hySecCall{Op: "get", K: key, Fail: true})
		s.pause("get")
		return 0, 0, 0, false, errHySec
	}
	e, ok := s.m[key]
	s.rec(hySecCall{Op: "get", K: key, V: e.V, Cost: e.Cost, Expire: e.Expire, Found: ok})
	idx := len(s.log) - 1
	s.pause("get")
	s.log[idx].EndNow = vrt.NowNanos()
	if !ok {
		return 0, 0, 0, false, nil
	}
	return e.V, e.Cost, e.Expire, true, nil
}

func (s *hySec) Set(key int, value int, cost int64, expire int64) error {
	s.pause("set")
	if s.fails("set") {
		s.rec(hySecCall{Op: "set", K: key, V: value, Cost: cost, Expire: expire, Fail: true})
		s.pause("set")
		return errHySec
	}
	s.m[key] = hyEnt{value, cost, expire}
	s.rec(hySecCall{Op: "set", K: key, V: value, Cost: cost, Expire: expire})
	s.pause("set")
	return nil
}

func (s *hySec) Delete(key int) error {
	s.pause("del")
	if s.fails("del") {
		s.rec(hySecCall{Op: "del", K: key, Fail: true})
		s.pause("del")
		return errHySec
	}
	e, ok := s.m[key]
	delete(s.m, key)
	s.rec(hySecCall{Op: "del", K: key, V: e.V, Found: ok})
	s.pause("del")
	return nil
}

func (s *hySec) HandleAsyncError(err error) {
	if err != nil {
		s.errs++
	}
}

func (s *hySec) failed(op string) int {
	n := 0
	for _, c := range s.log {
		if c.Op == op && c.Fail {
			n++
		}
	}
	return n
}

func (s *hySec) String() string {
	var ks []int
	for k := range s.m {
		ks = append(ks, k)
	}
	sort.Ints(ks)
	var p []string
	for _, k := range ks {
		e := s.m[k]
		p = append(p, fmt.Sprintf("%d=%d/c%d/x%d", k, e.V, e.Cost, e.Expire))
	}
	return strings.Join(p, " ")
}

func (s *hySec) logString(from int) string {
	var p []string
	for _, c := range s.log[from:] {
		x := fmt.Sprintf("%s(%d", c.Op, c.K)
		switch c.Op {
		case "set":
			x += fmt.Sprintf("=%d,x%d", c.V, c.Expire)
		case "get":
			if c.Found {
				x += fmt.Sprintf("->%d,x%d", c.V, c.Expire)
			} else {
				x += "->miss"
			}
		}
		x += ")"
		if c.Fail {
			x += "FAIL"
		}
		p = append(p, fmt.Sprintf("%s@%d", x, c.Step))
	}
	return strings.Join(p, " ")
}

// hyCoin replaces the store's private math/rand source (Store.rg), so that the admission coin
// `s.rg.Float32()` of removeEntry becomes an enumerated choice. math/rand's Float32() is
// float32(float64(Source.Int63()) / 2^63): 0 gives 0.0 (accepted for every probability), 3<<61 gives
// 0.75 (rejected for every probability < 0.75).
type hyCoin struct {
	reject func() bool
	calls  int
	last   int // 0 none, 1 accepted, 2 rejected (consumed by the drop classifier)
}

func (c *hyCoin) Int63() int64 {
	c.calls++
	if c.reject() {
		c.last = 2
		return 3 << 61
	}
	c.last = 1
	return 0
}
func (c *hyCoin) Seed(int64) {}

func hyInstallCoin(s *Store[int, int], c *hyCoin) {
	if s.rg != nil {
		s.rg = rand.New(c)
	}
}

// hyShrinkQueue replaces the hand-off queue by one of capacity n. Must run before any worker has
// evaluated `range s.secondaryCacheBuf` (manual mode: workers have not been stepped; ICB: NewStore
// runs in a no-branch region in which the spawning thread keeps the baton).
func hyShrinkQueue(h *hStore, n int) {
	if n > 0 && h.s.secondaryCacheBuf != nil {
		h.s.secondaryCacheBuf = make(chan SecondaryCacheItem[int, int], n)
		if vrt.On() {
			vrt.NameChan(h.s.secondaryCacheBuf, "secondaryBuf")
		}
	}
}

// hyResident: the value the shard map holds for k (white-box, no scheduling point).
func hyResident(h *hStore, k int) (v int, ok bool) {
	vrt.Quiet(func() {
		_, idx := h.s.index(k)
		if e := h.s.shards[idx].hashmap[k]; e != nil {
			v, ok = e.value, true
		}
	})
	return
}

// hyQueueItems peeks at the hand-off queue (quiet mode: nobody else runs).
func hyQueueItems(s *Store[int, int]) []SecondaryCacheItem[int, int] {
	ch := s.secondaryCacheBuf
	n := len(ch)
	items := make([]SecondaryCacheItem[int, int], 0, n)
	for i := 0; i < n; i++ {
		items = append(items, <-ch)
	}
	for _, it := range items {
		ch <- it
	}
	return items
}

// hyAtQueueRecv: a worker is parked at its receive on the hand-off queue - the `range` over the
// channel, or a select that starts with that receive (a Close-aware worker loop).
func hyAtQueueRecv(t *vrt.Thread) bool {
	return (t.What == "recv" && t.Obj == "secondaryBuf") || (t.What == "select" && strings.HasPrefix(t.Obj, "recv:secondaryBuf"))
}

// ---- big-step engine: the hybrid part of bsWorld ----

type hyCfg struct {
	Workers int
	Prob    float32
	SecBuf  int    // capacity of the hand-off queue (0 = the store's own 256)
	Faults  string // fault script, see hyParseFaults
	// Sync: every client call is followed by maintenance batches and worker iterations until nothing
	// is queued ("the workers are given time to keep up"); the search is then over call sequences only.
	Sync bool
	// Fused: a client call is one action (map phase + send) unless the write queue is full.
	Fused bool
	Keys  []int // keys probed at the end of every history (C15)
}

type hyDrop struct {
	K, V  int
	Cause string // admission-coin, handoff-queue-full, from-secondary-flag, expired-in-policy ...
	Step  int
}

type hyWorld struct {
	cfg     *hyCfg
	sec     *hySec
	coin    *hyCoin
	workers []*vrt.Thread
	mask    int // coin script of the running maintenance batch: bit i set = the i-th coin rejects
	coinIdx int
	drops   []hyDrop
	span    map[*bsRec][2]int // secondary-log interval of a call's map phase
}

// hyInit runs before NewStore: attaches the scripted secondary store.
func (w *bsWorld) hyInit(o *hOpts) {
	hc := w.cfg.Hy
	hy := &hyWorld{cfg: hc, span: map[*bsRec][2]int{}}
	hy.sec = newHySec(hc.Faults, false, func() int { return w.step })
	hy.coin = &hyCoin{reject: func() bool {
		i := hy.coinIdx
		hy.coinIdx++
		return hy.mask&(1<<uint(i)) != 0
	}}
	hy.sec.cur = func(k int) (int, bool) { return hyResident(w.h, k) }
	w.hy = hy
	o.Secondary, o.Workers, o.Prob = hy.sec, hc.Workers, hc.Prob
}

// hyStart runs after the maintenance and ticker goroutines are parked: shrink the queue, install
// the coin, find the worker goroutines (spawned by NewStore right after the maintenance goroutine,
// by the controller thread) and step each to its receive on the hand-off queue.
func (w *bsWorld) hyStart(nth int) {
	hy := w.hy
	hyShrinkQueue(w.h, hy.cfg.SecBuf)
	hyInstallCoin(w.h.s, hy.coin)
	prev := w.h.onNote
	w.h.onNote = func(n hNote) {
		if n.R == EVICTED {
			// the listener runs for an EVICTED entry only when removeEntry did not hand it to the workers
			cause := "from-secondary-flag"
			switch {
			case hy.coin.last == 2:
				cause = "admission-coin"
			case len(w.h.s.secondaryCacheBuf) == cap(w.h.s.secondaryCacheBuf):
				cause = "handoff-queue-full"
			}
			hy.drops = append(hy.drops, hyDrop{n.K, n.V, cause, w.step})
		}
		hy.coin.last = 0
		if prev != nil {
			prev(n)
		}
	}
	if hy.cfg.Prob < 1 {
		// self-check of the coin encoding against this toolchain's math/rand
		acc := rand.New(&hyCoin{reject: func() bool { return false }}).Float32()
		rej := rand.New(&hyCoin{reject: func() bool { return true }}).Float32()
		if !(acc <= hy.cfg.Prob && rej > hy.cfg.Prob) {
			w.err = fmt.Sprintf("hybrid: coin encoding broken (accept %v reject %v probability %v)", acc, rej, hy.cfg.Prob)
			return
		}
	}
	ctl := vrt.Cur().ID
	for i := 0; i < hy.cfg.Workers; i++ {
		idx := nth + 1 + i
		if idx >= len(vrt.S.Threads) || vrt.S.Threads[idx].Creator != ctl || vrt.S.Threads[idx] == w.ticker {
			w.err = fmt.Sprintf("hybrid: worker goroutine %d not found", i)
			return
		}
		t := vrt.S.Threads[idx]
		t.Name = fmt.Sprintf("worker%d", i)
		if st := vrt.StepThread(t, nil); st != "blocked" || !hyAtQueueRecv(t) {
			w.err = fmt.Sprintf("hybrid: worker %d did not park at its receive: %s at %s %s", i, st, t.What, t.Obj)
			return
		}
		hy.workers = append(hy.workers, t)
	}
}

// hyRunOp executes the hybrid API calls.
func (w *bsWorld) hyRunOp(rec *bsRec) bool {
	s := w.h.s
	switch rec.Op.Kind {
	case "hget":
		v, ok, err := s.GetWithSecodary(rec.Op.K)
		rec.Got, rec.OK = v, ok
		if err != nil {
			rec.Err = err.Error()
		}
	case "hdel":
		err := s.DeleteWithSecondary(rec.Op.K)
		rec.OK = err == nil
		if err != nil {
			rec.Err = err.Error()
		}
	default:
		return false
	}
	return true
}

func (w *bsWorld) hyBeforeCall(rec *bsRec) {
	w.hy.span[rec] = [2]int{len(w.hy.sec.log), -1}
}

func (w *bsWorld) hyAfterMap(rec *bsRec) {
	sp := w.hy.span[rec]
	sp[1] = len(w.hy.sec.log)
	w.hy.span[rec] = sp
}

// hyServed reports the secondary-tier answer a call received (the last successful lookup inside it).
func (w *bsWorld) hyServed(rec *bsRec) (hySecCall, int, bool) {
	sp, ok := w.hy.span[rec]
	if !ok || sp[1] < 0 {
		return hySecCall{}, 0, false
	}
	for i := sp[1] - 1; i >= sp[0]; i-- {
		c := w.hy.sec.log[i]
		if c.Op == "get" && c.Found && !c.Fail && c.K == rec.Op.K {
			return c, i, true
		}
	}
	return hySecCall{}, 0, false
}

func (w *bsWorld) hyQueued() int { return len(w.h.s.secondaryCacheBuf) }

// hyStepWorker: one iteration of worker i (receive one item, process it, back at the receive).
func (w *bsWorld) hyStepWorker(i int) bool {
	if i >= len(w.hy.workers) || w.hyQueued() == 0 {
		return false
	}
	t := w.hy.workers[i]
	w.step++
	st := vrt.StepThread(t, hyAtQueueRecv)
	if (st != "stopped" && st != "blocked") || !hyAtQueueRecv(t) {
		w.err = fmt.Sprintf("worker%d iteration ended with %s at %s %s", i, st, t.What, t.Obj)
	}
	return true
}

// hyBatch: one maintenance batch under coin script mask.
func (w *bsWorld) hyBatch(mask int) bool {
	w.hy.mask, w.hy.coinIdx = mask, 0
	ok := w.apply("M")
	w.hy.mask, w.hy.coinIdx = 0, 0
	return ok
}

// hyQuiesce runs maintenance batches and worker iterations until nothing is queued. The first
// batch uses the coin script mask, later ones accept.
func (w *bsWorld) hyQuiesce(mask int) {
	for i := 0; i < 200 && w.err == ""; i++ {
		progressed := false
		for c, cl := range w.cl {
			if cl.t != nil && vrt.Enabled(cl.t) {
				w.apply(fmt.Sprintf("F%d", c))
				progressed = true
			}
		}
		if len(w.h.s.writeChan) > 0 {
			w.hyBatch(mask)
			mask = 0
			progressed = true
		}
		for w.err == "" && w.hyQueued() > 0 && len(w.hy.workers) > 0 {
			w.hyStepWorker(0)
			progressed = true
		}
		if !progressed {
			return
		}
	}
}

// hyApply handles the actions of hybrid configurations:
//
//	O<c>[/mask] op   client c runs a whole call (map phase, then its send if the queue has room); in
//	                 Sync mode followed by hyQuiesce(mask)
//	M<mask>          a maintenance batch whose i-th admission coin rejects iff bit i of mask is set
//	W<i>             one iteration of worker i
func (w *bsWorld) hyApply(a string) (handled, ok bool) {
	switch a[0] {
	case 'O':
		sp := strings.IndexByte(a, ' ')
		head, mask := a[1:sp], 0
		if i := strings.IndexByte(head, '/'); i >= 0 {
			mask, _ = strconv.Atoi(head[i+1:])
			head = head[:i]
		}
		c, _ := strconv.Atoi(head)
		if !w.apply(fmt.Sprintf("B%d %s", c, a[sp+1:])) {
			return true, false
		}
		if cl := w.cl[c]; cl.t != nil && w.err == "" && vrt.Enabled(cl.t) {
			w.apply(fmt.Sprintf("F%d", c))
		}
		if w.hy.cfg.Sync && w.err == "" {
			w.hyQuiesce(mask)
		}
		return true, true
	case 'M':
		if len(a) == 1 {
			return false, false
		}
		mask, _ := strconv.Atoi(a[1:])
		if len(w.h.s.writeChan) == 0 {
			return true, false
		}
		return true, w.hyBatch(mask)
	case 'W':
		i, _ := strconv.Atoi(a[1:])
		return true, w.hyStepWorker(i)
	}
	return false, false
}

func (w *bsWorld) hyCoinMasks() []int {
	if w.hy.cfg.Prob < 1 {
		return []int{0, 1, 2, 3}
	}
	return []int{0}
}

// hyEnabled lists the actions of a hybrid configuration (it replaces the generic list).
func (w *bsWorld) hyEnabled() []string {
	var r []string
	hc := w.hy.cfg
	if !hc.Sync {
		if len(w.h.s.writeChan) > 0 {
			for _, m := range w.hyCoinMasks() {
				if m == 0 {
					r = append(r, "M")
				} else {
					r = append(r, fmt.Sprintf("M%d", m))
				}
			}
		}
		if w.hyQueued() > 0 {
			// in a big step a worker iteration is atomic, so which worker takes the head item makes no
			// difference; all are offered, the canonical state merges them
			for i := range w.hy.workers {
				r = append(r, fmt.Sprintf("W%d", i))
			}
		}
		for c, cl := range w.cl {
			if cl.t != nil && vrt.Enabled(cl.t) {
				r = append(r, fmt.Sprintf("F%d", c))
			}
		}
	}
	for c, cl := range w.cl {
		if cl.t != nil || cl.used >= w.cfg.OpsPer {
			continue
		}
		if c > 0 && w.cl[c-1].used <= cl.used {
			continue
		}
		for _, op := range w.cfg.Ops {
			switch {
			case hc.Sync:
				for _, m := range w.hyCoinMasks() {
					if m == 0 {
						r = append(r, fmt.Sprintf("O%d %s", c, op))
					} else {
						r = append(r, fmt.Sprintf("O%d/%d %s", c, m, op))
					}
				}
			case hc.Fused:
				r = append(r, fmt.Sprintf("O%d %s", c, op))
			default:
				r = append(r, fmt.Sprintf("B%d %s", c, op))
			}
		}
	}
	if w.ticks < w.cfg.Ticks {
		r = append(r, "T")
	}
	if w.advs < w.cfg.MaxAdv {
		for _, d := range w.cfg.Advs {
			r = append(r, fmt.Sprintf("A%d", d))
		}
		for _, d := range w.cfg.DlAdvs {
			if _, ok := w.dlTarget(d); ok {
				r = append(r, fmt.Sprintf("D%d", d))
			}
		}
	}
	return r
}

// hyCanon renders the hybrid part of the state: secondary contents, fault-script positions, error
// count, hand-off queue (entry identities through the shared numbering), worker positions, and the
// number of values handed out (the reference model's state is a function of these).
func (w *bsWorld) hyCanon(x *bsIDs, b *strings.Builder) {
	hy := w.hy
	fmt.Fprintf(b, "|sec=%s|n=%d,%d,%d|errs=%d|hq=", hy.sec.String(), hy.sec.n["set"], hy.sec.n["get"], hy.sec.n["del"], hy.sec.errs)
	for _, it := range hyQueueItems(w.h.s) {
		fmt.Fprintf(b, "%d/%d,", x.id(it.entry), it.reason)
	}
	b.WriteString("|wk=")
	for _, t := range hy.workers {
		fmt.Fprintf(b, "%s:%s,", t.What, t.Obj)
	}
	fmt.Fprintf(b, "|nv=%d", w.nextV)
	// reference state: which keys are deleted / which value is current is part of what a future Get is judged against
	last := map[int]string{}
	done := func(end int) string {
		if end == 0 {
			return "pending"
		}
		return "done"
	}
	for _, r := range w.recs {
		switch r.Op.Kind {
		case "set":
			last[r.Op.K] = fmt.Sprintf("s%d/%s", r.V, done(r.End))
		case "hdel", "del":
			last[r.Op.K] = fmt.Sprintf("d/%s/%v", done(r.End), r.OK)
		case "lget":
			if r.Stored {
				last[r.Op.K] = fmt.Sprintf("l%d", r.V)
			}
		}
	}
	var ks []int
	for k := range last {
		ks = append(ks, k)
	}
	sort.Ints(ks)
	b.WriteString("|ref=")
	for _, k := range ks {
		fmt.Fprintf(b, "%d:%s,", k, last[k])
	}
}

// ---- reference model shared by the C14 and C15 oracles (big-step histories) ----

// hyWrite is one write to a key in linearization order (order of map phases).
type hyWrite struct {
	Kind     string // set, load, del
	V        int
	Deadline int64 // cache nanos, 0 = none
	Rec      *bsRec
	Done     int // logical step at which the call returned (0 = still in flight)
	Failed   bool
}

// hyWrites lists the writes per key. Deadline of a value: Now+TTL for a write with a TTL (reference
// rule); for a TTL-less write the deadline the store itself gave the entry at the linearization point
// (the in-memory deadline rules are C06's subject).
func hyWrites(w *bsWorld) map[int][]*hyWrite {
	m := map[int][]*hyWrite{}
	for _, r := range w.recs {
		k := r.Op.K
		switch r.Op.Kind {
		case "set":
			if r.End != 0 && !r.OK {
				continue
			}
			wr := &hyWrite{Kind: "set", V: r.V, Rec: r, Done: r.End, Deadline: r.Deadline}
			if r.Op.TTL != 0 {
				wr.Deadline = r.Now + r.Op.TTL
			}
			m[k] = append(m[k], wr)
		case "lget":
			if r.Loads > 0 && r.Stored {
				wr := &hyWrite{Kind: "load", V: r.V, Rec: r, Done: r.End, Deadline: r.Deadline}
				if w.cfg.LoadTTL != 0 {
					wr.Deadline = r.Now + w.cfg.LoadTTL
				}
				m[k] = append(m[k], wr)
			}
		case "hdel", "del":
			m[k] = append(m[k], &hyWrite{Kind: "del", Rec: r, Done: r.End, Failed: r.End != 0 && !r.OK})
		}
	}
	return m
}

// hyRefAt: the write that defines the reference value of a key for a call that began at logical
// step begin: the last write in linearization order that had returned before the call began; idx is
// its position (-1: none). Writes after idx that linearized before the reader are in flight or
// completed later: their values are acceptable as well.
func hyRefAt(ws []*hyWrite, reader *bsRec) int {
	idx := -1
	for i, x := range ws {
		if x.Rec == reader || x.Rec.Begin > reader.Begin {
			break
		}
		if x.Done != 0 && x.Done <= reader.Begin && !x.Failed {
			idx = i
		}
	}
	return idx
}

// hyFmtHist renders the client calls of a history with their results.
func hyFmtHist(w *bsWorld) string {
	var p []string
	for _, r := range w.recs {
		s := fmt.Sprintf("%s(%d", r.Op.Kind, r.Op.K)
		switch r.Op.Kind {
		case "set":
			s += fmt.Sprintf("=%d", r.V)
			if r.Op.TTL != 0 {
				s += fmt.Sprintf(",ttl=%ds", r.Op.TTL/1e9)
			}
			s += ")"
		case "hget":
			s += fmt.Sprintf(")->%d,%v", r.Got, r.OK)
		case "lget":
			s += fmt.Sprintf(")->%d", r.Got)
			if r.Loads > 0 {
				s += fmt.Sprintf("[loader ran: %d]", r.V)
			}
		default:
			s += ")"
		}
		if r.Err != "" {
			s += "!" + r.Err
		}
		p = append(p, fmt.Sprintf("%s@t=%ds", s, r.Now/1e9))
	}
	return strings.Join(p, " ; ")
}

func hyFmtDrops(d []hyDrop) string {
	var p []string
	for _, x := range d {
		p = append(p, fmt.Sprintf("%d=%d:%s", x.K, x.V, x.Cause))
	}
	return strings.Join(p, " ")
}

// hyRun is the common test body of the big-step hybrid scenarios.
func hyRun(res *vh.Result, env vh.EnvT, cfgs []*bsCfg, mk func(cfg *bsCfg) *bsSearch) {
	for _, cfg := range cfgs {
		if d := env.Params["cfg"]; d != "" && d != cfg.Name {
			continue
		}
		if d := env.Int("depth", 0); d > 0 {
			cfg.Depth = d
		}
		if d := env.Int("ops", 0); d > 0 {
			cfg.OpsPer = d
		}
		if f, ok := env.Params["faults"]; ok {
			cfg.Hy.Faults = strings.ReplaceAll(f, "+", ",")
		}
		b := mk(cfg)
		prev := res.States // bsSearch.run restarts the state count; keep the total over configurations / fault scripts
		res.States = 0
		b.run()
		res.States += prev
		res.Bounds["cfg"] = cfg.Name
		res.Bounds["depth"] = cfg.Depth
		res.Bounds["ops_per_client"] = cfg.OpsPer
		if res.Error != "" {
			return
		}
	}
}

// ---- E1-ICB: the hybrid part of the generic script driver (icb_test.go) ----

type hyIcCfg struct {
	Workers int
	Prob    float32
	SecBuf  int
	Faults  string
	Slow    bool // a scheduling point before and after the effect of every secondary call
}

type hyIcRun struct {
	sec   *hySec
	coin  *hyCoin
	drops []hyDrop
}

func (r *icRun) hyIcInit(o *hOpts) {
	hc := r.cfg.Hy
	hy := &hyIcRun{}
	hy.sec = newHySec(hc.Faults, hc.Slow, func() int { return r.clock })
	hy.sec.ctx = func() any {
		if c := r.cur[vrt.Cur().ID]; c != nil && c.Ret == 0 {
			return c
		}
		return nil
	}
	hy.sec.cur = func(k int) (int, bool) { return hyResident(r.h, k) }
	// the admission coin is an environment choice (counted against the deviation bound D)
	hy.coin = &hyCoin{reject: func() bool { return vrt.Choose("admission-coin", 2) == 1 }}
	r.hy = hy
	o.Secondary, o.Workers, o.Prob = hy.sec, hc.Workers, hc.Prob
}

func (r *icRun) hyIcStart(nthreads int) {
	hy := r.hy
	hyShrinkQueue(r.h, r.cfg.Hy.SecBuf)
	hyInstallCoin(r.h.s, hy.coin)
	for i := 0; i < r.cfg.Hy.Workers; i++ {
		if idx := nthreads + 1 + i; idx < len(vrt.S.Threads) {
			vrt.S.Threads[idx].Name = fmt.Sprintf("worker%d", i)
		}
	}
	r.h.onNote = func(n hNote) {
		if n.R == EVICTED {
			cause := "from-secondary-flag"
			switch {
			case hy.coin.last == 2:
				cause = "admission-coin"
			case len(r.h.s.secondaryCacheBuf) == cap(r.h.s.secondaryCacheBuf):
				cause = "handoff-queue-full"
			}
			hy.drops = append(hy.drops, hyDrop{n.K, n.V, cause, r.clock})
		}
		hy.coin.last = 0
	}
}

// hyIcDo: hybrid API calls and the "settle" pseudo call (run everything to quiescence without branching).
func (r *icRun) hyIcDo(c *icCall, op icOp) bool {
	s := r.h.s
	switch op.Kind {
	case "hget":
		v, ok, err := s.GetWithSecodary(op.K)
		c.Got, c.OK = v, ok
		if err != nil {
			c.Err = err.Error()
		}
	case "hdel":
		err := s.DeleteWithSecondary(op.K)
		c.OK = err == nil
		if err != nil {
			c.Err = err.Error()
		}
	case "settle":
		vrt.NoBranch(func() { vrt.WaitIdle() })
		c.OK = true
	default:
		return false
	}
	return true
}
