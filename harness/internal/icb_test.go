//go:build verif && vsched

package internal

import (
	"bytes"
	"errors"
	"fmt"
	"runtime"
	"sort"
	"strings"
	"time"

	"github.com/Yiling-J/theine-go/internal/vrt"
	"github.com/Yiling-J/theine-go/internal/vrt/vh"
)

// ---- generic E1-ICB script driver: 2-4 client threads run API scripts against the real store ----

type icOp struct {
	Kind string // set get del lget range len est stats wait close tick adv persist
	K    int
	Cost int64
	TTL  int64
	Arg  int64
}

func (o icOp) String() string {
	switch o.Kind {
	case "set":
		if o.TTL != 0 {
			return fmt.Sprintf("set(%d,c%d,ttl%d)", o.K, o.Cost, o.TTL)
		}
		return fmt.Sprintf("set(%d,c%d)", o.K, o.Cost)
	case "get", "del", "lget", "hget", "hdel":
		return fmt.Sprintf("%s(%d)", o.Kind, o.K)
	case "adv":
		return fmt.Sprintf("adv(%d)", o.Arg)
	}
	return o.Kind
}

// icCall is one recorded call: invocation and response are logical times (a global counter that
// only the running thread bumps, so it is a valid real-time order).
type icCall struct {
	Client   int
	Op       icOp
	V        int // value written (set) or produced by the loader inside this call
	Inv, Ret int // Ret == 0: the call never returned
	OK       bool
	Got      int
	Err      string
	Visited  [][2]int
	VisitAt  []int // logical time of each Range callback
	N        int
	Loaded   bool // the loader ran inside this call
	Panicked bool
	Exited   bool
	Hits     uint64
	Misses   uint64
	joined   bool // loading get that received another call's load result (set by oracles)
}

type icLoad struct {
	K, V     int
	Beg, End int
	Outcome  string // ok err panic exit
	Client   int
}

type icCfg struct {
	Name     string
	O        hOpts
	Loading  bool
	LoadCost int64
	LoadTTL  int64
	// LoadPlan[i] is the outcome of the i-th loader invocation (ok err panic exit); default ok
	LoadPlan []string
	Pre      []icOp   // sequential pre-history (not explored)
	Scripts  [][]icOp // one per client
	Post     []icOp   // run by the main thread after all clients finished (not explored)
	EndWait  bool     // Wait before the final snapshot
	EndClose bool     // Close at the very end and require every store thread to exit
	P        int
	D        int
	Procs    int
	Coarse   bool
	HB       bool
	Fresh    bool     // pool Get may return fresh objects
	Hy       *hyIcCfg // hybrid drivers: a scripted secondary store is attached (hybrid_lib_test.go)
}

type icRun struct {
	cfg          *icCfg
	h            *hStore
	calls        []*icCall
	loads        []*icLoad
	clock        int
	done         []bool
	stuck        []string
	leaked       []string
	pre          map[int]*Entry[int, int] // entry objects resident after the pre-history, by (actual) key
	leakedAtIdle []string                 // store goroutines alive when all clients had finished and Close had returned
	final        map[int]int              // resident map at the end (before Close)
	finalN       int
	est          int
	pairs        map[[2]int]string
	hits         uint64
	misses       uint64
	closed       bool
	bad          []string
	noteAt       []int           // logical time of each listener call
	km           map[int]int     // symbolic key -> actual key (1,2,4 share a shard; 3 lives in another)
	cur          map[int]*icCall // thread id -> the call it is executing
	hy           *hyIcRun        // hybrid part (nil unless cfg.Hy)
}

var errLoad = errors.New("load failed")

func (c *icCfg) planHas(out string) bool {
	for _, o := range c.LoadPlan {
		if o == out {
			return true
		}
	}
	return false
}

func (r *icRun) tick() int { r.clock++; return r.clock }

func (r *icRun) loader(client *int) func(k int) (Loaded[int], error) {
	return func(k int) (Loaded[int], error) {
		n := len(r.loads)
		ld := &icLoad{K: k, V: 5000 + n, Beg: r.tick(), Client: *client}
		r.loads = append(r.loads, ld)
		if c := r.cur[vrt.Cur().ID]; c != nil {
			c.Loaded, c.V = true, ld.V
			ld.Client = c.Client
		}
		out := "ok"
		if n < len(r.cfg.LoadPlan) {
			out = r.cfg.LoadPlan[n]
		}
		ld.Outcome = out
		vrt.Yield("loader", "") // the loader takes time: a scheduling point inside it
		ld.End = r.tick()
		switch out {
		case "err":
			return Loaded[int]{}, errLoad
		case "panic":
			panic("loader panic")
		case "panicnil":
			panic(nil)
		case "exit":
			runtime.Goexit()
		}
		return Loaded[int]{Value: ld.V, Cost: r.cfg.LoadCost, TTL: time.Duration(r.cfg.LoadTTL)}, nil
	}
}

func (r *icRun) do(client int, op icOp, nextV *int) *icCall {
	if k, ok := r.km[op.K]; ok && op.K != 0 {
		op.K = k
	}
	c := &icCall{Client: client, Op: op}
	s := r.h.s
	if op.Kind == "set" {
		*nextV++
		c.V = *nextV
	}
	r.calls = append(r.calls, c)
	if r.cur == nil {
		r.cur = map[int]*icCall{}
	}
	r.cur[vrt.Cur().ID] = c
	c.Inv = r.tick()
	finished := false
	defer func() {
		if !finished {
			// panic or Goexit travelling through the call: record and let it continue
			c.Ret = r.tick()
			if rec := recover(); rec != nil {
				if vrt.IsAbort(rec) {
					panic(rec)
				}
				c.Panicked = true
				c.Err = firstLine(fmt.Sprint(rec))
				if !strings.Contains(c.Err, "loader panic") && !(strings.Contains(c.Err, "nil") && r.cfg.planHas("panicnil")) {
					panic(rec) // not the scripted loader panic: a real crash
				}
			} else {
				c.Exited = true
			}
		}
	}()
	switch op.Kind {
	case "set":
		c.OK = s.Set(op.K, c.V, op.Cost, time.Duration(op.TTL))
	case "get":
		c.Got, c.OK = s.Get(op.K)
	case "del":
		s.Delete(op.K)
		c.OK = true
	case "lget":
		v, err := r.h.ls.Get(nil, op.K)
		c.Got, c.OK = v, err == nil
		if err != nil {
			c.Err = err.Error()
		}
	case "range":
		s.Range(func(k, v int) bool {
			c.Visited = append(c.Visited, [2]int{k, v})
			c.VisitAt = append(c.VisitAt, r.tick())
			return op.Arg == 0 || int64(len(c.Visited)) < op.Arg
		})
		c.OK = true
	case "len":
		c.N, c.OK = s.Len(), true
	case "est":
		c.N, c.OK = s.EstimatedSize(), true
	case "stats":
		st := s.Stats()
		c.Hits, c.Misses, c.OK = st.Hits(), st.Misses(), true
	case "wait":
		s.Wait()
		c.OK = true
	case "close":
		s.Close()
		c.OK = true
	case "persist":
		var buf bytes.Buffer
		err := s.Persist(1, &buf)
		c.OK, c.N = err == nil, buf.Len()
	case "tick":
		vrt.Advance(op.Arg)
		vrt.Tick()
		c.OK = true
	case "adv":
		vrt.Advance(op.Arg)
		c.OK = true
	case "sketch-edge":
		// white-box pre-history step: the next recorded addition completes the sketch's sample period (640 additions
		// by the API would do the same), so the aging reset - and whatever is tied to it - happens inside the driver
		s.policyMu.Lock()
		s.policy.sketch.Additions = s.policy.sketch.SampleSize - 1
		s.policyMu.Unlock()
		c.OK = true
	default:
		if r.hy == nil || !r.hyIcDo(c, op) {
			panic("icb: unknown op " + op.Kind)
		}
	}
	c.Ret = r.tick()
	finished = true
	return c
}

func icBody(cfg *icCfg) (*icRun, func()) {
	r := &icRun{cfg: cfg, done: make([]bool, len(cfg.Scripts))}
	return r, func() {
		nextV := 0
		curClient := -1
		nthreads := 0
		vrt.NoBranch(func() {
			o := cfg.O
			if cfg.Loading {
				o.Loader = r.loader(&curClient)
			}
			if cfg.Hy != nil {
				r.hyIcInit(&o)
			}
			nthreads = len(vrt.S.Threads)
			r.h = newHStore(o)
			if cfg.Hy != nil {
				r.hyIcStart(nthreads)
			}
			prevNote := r.h.onNote
			r.h.onNote = func(n hNote) {
				r.noteAt = append(r.noteAt, r.tick())
				if prevNote != nil {
					prevNote(n)
				}
			}
			same, other := sameShardKeys(r.h.s, 3)
			r.km = map[int]int{1: same[0], 2: same[1], 3: other, 4: same[2]}
			// shards that hold none of the driver's keys stay empty: their locks are not scheduling points
			used := map[int]bool{}
			for _, k := range r.km {
				_, idx := r.h.s.index(k)
				used[idx] = true
			}
			for i, sh := range r.h.s.shards {
				if !used[i] {
					sh.mu.rw.Quiet = true
				} else if cfg.Loading {
					sh.group.callPool.Sched = true // a record put back may be reused by the next leader at once
				}
			}
		})
		settle()
		vrt.NoBranch(func() {
			for _, op := range cfg.Pre {
				r.do(-1, op, &nextV)
			}
		})
		vrt.Quiet(func() {
			r.pre = map[int]*Entry[int, int]{}
			for _, sh := range r.h.s.shards {
				for k, e := range sh.hashmap {
					r.pre[k] = e
				}
			}
		})
		for ci, sc := range cfg.Scripts {
			ci, sc := ci, sc
			vrt.GoNamed(fmt.Sprintf("client%d", ci), func() {
				for _, op := range sc {
					curClient = ci
					r.do(ci, op, &nextV)
				}
				r.done[ci] = true
			})
		}
		vrt.WaitIdle()
		r.stuck = stuckNow("client")
		if len(r.stuck) > 0 {
			return
		}
		// store goroutines that are still alive although Close has returned and nothing can run any more
		for _, c := range r.calls {
			if c.Op.Kind == "close" && c.Ret != 0 {
				for _, t := range vrt.S.Alive() {
					if t.ID != 0 && t.ID >= nthreads && !strings.HasPrefix(t.Name, "client") {
						obj := t.Obj
						if i := strings.IndexByte(obj, '#'); i >= 0 {
							obj = obj[:i]
						}
						r.leakedAtIdle = append(r.leakedAtIdle, fmt.Sprintf("%s@%s[%s]", t.Name, t.What, obj))
					}
				}
				sort.Strings(r.leakedAtIdle)
				break
			}
		}
		vrt.NoBranch(func() {
			for _, op := range cfg.Post {
				r.do(-2, op, &nextV)
			}
			for _, c := range r.calls {
				if c.Op.Kind == "close" && c.Ret != 0 {
					r.closed = true
				}
			}
			if cfg.EndWait && !r.closed {
				r.h.s.Wait()
			}
		})
		vrt.Quiet(func() {
			r.final = r.h.resident()
			r.pairs = r.h.policyPairs()
			st := r.h.s.Stats()
			r.hits, r.misses = st.Hits(), st.Misses()
			p := r.h.s.policy
			r.est = p.window.Len() + p.slru.protected.Len() + p.slru.probation.Len()
		})
		if cfg.EndClose {
			vrt.NoBranch(func() {
				if !r.closed {
					r.h.s.Close()
				}
				vrt.WaitIdle()
			})
			for _, t := range vrt.S.Alive() {
				if t.ID != 0 && t.ID >= nthreads {
					r.leaked = append(r.leaked, fmt.Sprintf("%s@%s[%s]", t.Name, t.What, t.Obj))
				}
			}
			sort.Strings(r.leaked)
		}
	}
}

func (r *icRun) history() string {
	var s []string
	for _, c := range r.calls {
		res := ""
		switch c.Op.Kind {
		case "set":
			res = fmt.Sprintf("v%d->%v", c.V, c.OK)
		case "get", "lget", "hget":
			res = fmt.Sprintf("->%d,%v%s", c.Got, c.OK, c.Err)
			if c.Loaded {
				res += fmt.Sprintf("[loaded %d]", c.V)
			}
		case "range":
			res = fmt.Sprintf("->%v", c.Visited)
		case "len", "est":
			res = fmt.Sprintf("->%d", c.N)
		}
		s = append(s, fmt.Sprintf("c%d:%s%s@[%d,%d]", c.Client, c.Op, res, c.Inv, c.Ret))
	}
	return strings.Join(s, " ")
}

// icExplore runs the ICB exploration of cfg with oracle check.
func icExplore(res *vh.Result, env vh.EnvT, cfg *icCfg, check func(r *icRun, x *vrt.Sched, cost int)) {
	procs := cfg.Procs
	if procs == 0 {
		procs = 1
	}
	e1Run(res, env, e1Opts{P: cfg.P, D: cfg.D, Iterative: true, MaxSteps: 20000, Procs: procs, HB: cfg.HB, PoolFresh: cfg.Fresh},
		func() (*icRun, func()) { return icBody(cfg) },
		func(r *icRun, x *vrt.Sched, cost int) {
			if x.ErrKind == "panic" {
				res.Violate("panic", firstLine(x.Err), cfg.Name+": "+x.Err+"\nhistory: "+r.history(), cost, map[string]any{"driver": cfg.Name, "choices": x.Choices()})
				return
			}
			check(r, x, cost)
		})
}
