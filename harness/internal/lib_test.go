//go:build verif && vsched

package internal

import (
	"context"
	"fmt"
	"sort"
	"strings"
	"time"

	"github.com/Yiling-J/theine-go/internal/vrt"
	"github.com/Yiling-J/theine-go/internal/vrt/vh"
)

// ---- shared harness helpers for package internal (white-box) ----

type hNote struct {
	K, V int
	R    RemoveReason
}

// hStore wraps a real Store[int,int] with a recording removal listener.
type hStore struct {
	s     *Store[int, int]
	ls    *LoadingStore[int, int]
	notes []hNote
	// listener hook (may be nil): runs inside the listener call, under whatever locks the store holds
	onNote func(n hNote)
}

type hOpts struct {
	MaxSize    int64
	ChanSize   int
	BufSize    int
	Stripes    int
	Doorkeeper bool
	Pool       bool
	Cost       func(int) int64
	Loader     func(k int) (Loaded[int], error)
	Secondary  SecondaryCache[int, int]
	Workers    int
	Prob       float32
}

func newHStore(o hOpts) *hStore {
	if o.ChanSize == 0 {
		o.ChanSize = 2
	}
	if o.BufSize == 0 {
		o.BufSize = 2
	}
	if o.Stripes == 0 {
		o.Stripes = 1
	}
	WriteChanSize, WriteBufferSize, StripedBufferSize = o.ChanSize, o.BufSize, o.Stripes
	h := &hStore{}
	opts := &StoreOptions[int, int]{
		MaxSize: o.MaxSize, Doorkeeper: o.Doorkeeper, EntryPool: o.Pool, Cost: o.Cost,
		Listener: func(k, v int, r RemoveReason) {
			n := hNote{k, v, r}
			h.notes = append(h.notes, n)
			if h.onNote != nil {
				h.onNote(n)
			}
		},
		SecondaryCache: o.Secondary, Workers: o.Workers, Probability: o.Prob,
	}
	h.s = NewStore(opts)
	if vrt.On() {
		vrt.NameChan(h.s.writeChan, "writeChan")
		vrt.NameChan(h.s.waitChan, "waitChan")
		h.s.policyMu.SetName("policyMu")
		if h.s.secondaryCacheBuf != nil {
			vrt.NameChan(h.s.secondaryCacheBuf, "secondaryBuf")
		}
	}
	if o.Loader != nil {
		h.ls = NewLoadingStore(h.s)
		h.ls.Loader(func(ctx vctx, k int) (Loaded[int], error) { return o.Loader(k) })
	}
	return h
}

// settle lets the background goroutines reach their idle points without offering the
// explorer any choice (start-up interleavings are not the subject of most drivers).
func settle() {
	vrt.NoBranch(func() { vrt.WaitIdle() })
}

// sameShardKeys returns n keys that share a shard and one key of another shard.
func sameShardKeys(s *Store[int, int], n int) (same []int, other int) {
	_, want := s.index(1)
	other = -1
	for k := 1; len(same) < n || other < 0; k++ {
		_, idx := s.index(k)
		if idx == want {
			if len(same) < n {
				same = append(same, k)
			}
		} else if other < 0 {
			other = k
		}
	}
	return
}

// policyPairs lists the (key,value) pairs of the entries the policy tracks, by region.
// Quiet mode only.
func (h *hStore) policyPairs() map[[2]int]string {
	m := map[[2]int]string{}
	p := h.s.policy
	for name, l := range map[string]*List[int, int]{"W": p.window, "P": p.slru.probation, "T": p.slru.protected} {
		for e := l.Front(); e != nil; e = e.Next(l.listType) {
			m[[2]int{e.key, e.value}] = name
		}
	}
	return m
}

// resident lists key->value of the shard maps. Quiet mode only.
func (h *hStore) resident() map[int]int {
	m := map[int]int{}
	for _, sh := range h.s.shards {
		for k, e := range sh.hashmap {
			m[k] = e.value
		}
	}
	return m
}

func (h *hStore) notified(k, v int) int {
	c := 0
	for _, n := range h.notes {
		if n.K == k && n.V == v {
			c++
		}
	}
	return c
}

func fmtNotes(ns []hNote) string {
	var s []string
	for _, n := range ns {
		s = append(s, fmt.Sprintf("%d=%d/%d", n.K, n.V, n.R))
	}
	return strings.Join(s, " ")
}

func fmtMap(m map[int]int) string {
	var ks []int
	for k := range m {
		ks = append(ks, k)
	}
	sort.Ints(ks)
	var s []string
	for _, k := range ks {
		s = append(s, fmt.Sprintf("%d=%d", k, m[k]))
	}
	return strings.Join(s, " ")
}

// stuckNow describes the threads that have not finished (who, where). Call it from the
// main thread after WaitIdle, i.e. when nothing else can run.
func stuckNow(names ...string) []string {
	var r []string
	for _, t := range vrt.S.Alive() {
		if t.ID == 0 {
			continue
		}
		for _, n := range names {
			if strings.HasPrefix(t.Name, n) {
				obj := t.Obj
				if i := strings.IndexByte(obj, '#'); i >= 0 {
					obj = obj[:i] // per-execution object numbers are not part of a stable signature
				}
				r = append(r, fmt.Sprintf("%s@%s[%s]", strings.TrimRight(t.Name, "0123456789"), t.What, obj))
			}
		}
	}
	sort.Strings(r)
	return r
}

// e1 runs an E1 exploration (ICB or SK) of body-producing scenario mk and fills res.
type e1Opts struct {
	P, D      int
	SK        bool
	Iterative bool
	MaxSteps  int
	Procs     int
	PoolFresh bool
	KeyFn     func(run any) string
	RandFn    func(string) uint32
	HB        bool
}

// e1Run: mk creates the per-execution state and body; check is the oracle.
func e1Run[R any](res *vh.Result, env vh.EnvT, o e1Opts, mk func() (R, func()), check func(run R, x *vrt.Sched, cost int)) {
	var cur R
	run := func(prefix []int, visited map[uint64]struct{}) *vrt.Sched {
		r, body := mk()
		cur = r
		cfg := vrt.Config{Prefix: prefix, Visited: visited, MaxSteps: o.MaxSteps, Procs: o.Procs, PoolFresh: o.PoolFresh, RandFn: o.RandFn, HB: o.HB}
		if o.KeyFn != nil {
			cfg.KeyFn = func() string { return o.KeyFn(r) }
		}
		return vrt.Run(cfg, body)
	}
	if env.Replay != "" {
		var rp struct {
			Choices []int `json:"choices"`
		}
		if err := vh.LoadReplay(env.Replay, &rp); err != nil {
			res.Error = "replay: " + err.Error()
			return
		}
		x := run(rp.Choices, nil)
		res.Executions, res.Completed = 1, 1
		check(cur, x, 0)
		res.Note("replayed %d choices; err=%q log=%v\n%s", len(rp.Choices), x.Err, x.Log, x.TraceString())
		return
	}
	if err := vrt.SelfTest(run); err != nil {
		res.Error = err.Error()
		return
	}
	ex := &vrt.Explorer{MaxPreempt: o.P, MaxEnv: o.D, SK: o.SK, Iterative: o.Iterative, Shard: env.Shard, NShards: env.NShards, Deadline: env.Deadline, Run: run}
	ex.OnExec = func(x *vrt.Sched, cost int) bool {
		if x.ErrKind == "horizon" {
			res.Violate("horizon", "step-limit", x.Err, cost, map[string]any{"choices": x.Choices()})
			return false
		}
		check(cur, x, cost)
		return false
	}
	start := time.Now()
	ex.Explore()
	res.Executions += ex.Execs
	res.Completed += ex.Completed
	res.Pruned += ex.Pruned
	res.Transitions += ex.Points
	if ex.SK {
		res.States += ex.States
	} else {
		res.States += ex.Completed // stateless search: one terminal state per completed execution
	}
	if ex.MaxLen > res.MaxDepth {
		res.MaxDepth = ex.MaxLen
	}
	if ex.Capped != "" {
		res.Cap(fmt.Sprintf("%s after %.0fs (completed preemption bound %d)", ex.Capped, time.Since(start).Seconds(), ex.Bound))
	}
	res.Bounds["preemptions"] = o.P
	res.Bounds["env_deviations"] = o.D
	res.Bounds["completed_preemption_bound"] = ex.Bound
	res.Bounds["state_matching"] = o.SK
}

type vctx = context.Context
