//go:build verif && vsched

package internal

import (
	"fmt"
	"sort"
	"strings"
)

// ---- Wing–Gong linearizability check against a sequential map ----

type linOp struct {
	kind     string // write, del, readhit, readmiss, evict, nop
	k, v     int
	inv, ret int // ret == 0: pending forever (may take effect or not)
	desc     string
	tag      string // what kind of call produced it (violation signatures)
}

type linState map[int]int

func (s linState) key() string {
	var ks []int
	for k := range s {
		ks = append(ks, k)
	}
	sort.Ints(ks)
	var b strings.Builder
	for _, k := range ks {
		fmt.Fprintf(&b, "%d=%d,", k, s[k])
	}
	return b.String()
}

// linApply returns false if op cannot take effect in state s; otherwise it mutates a copy.
func linApply(s linState, op linOp) (linState, bool) {
	switch op.kind {
	case "write":
		n := linState{}
		for k, v := range s {
			n[k] = v
		}
		n[op.k] = op.v
		return n, true
	case "del":
		n := linState{}
		for k, v := range s {
			if k != op.k {
				n[k] = v
			}
		}
		return n, true
	case "evict":
		if v, ok := s[op.k]; ok && v == op.v {
			n := linState{}
			for k, v := range s {
				if k != op.k {
					n[k] = v
				}
			}
			return n, true
		}
		return s, true
	case "readhit":
		v, ok := s[op.k]
		return s, ok && v == op.v
	case "readmiss":
		_, ok := s[op.k]
		return s, !ok
	case "nop":
		return s, true
	}
	panic("lin: " + op.kind)
}

// linearizable searches for a total order of ops consistent with real time and the map spec.
func linearizable(init linState, ops []linOp) bool {
	n := len(ops)
	if n > 62 {
		panic("lin: too many operations")
	}
	seen := map[string]bool{}
	var rec func(done uint64, s linState) bool
	rec = func(done uint64, s linState) bool {
		if done == (uint64(1)<<n)-1 {
			return true
		}
		k := fmt.Sprintf("%x|%s", done, s.key())
		if seen[k] {
			return false
		}
		seen[k] = true
		// the earliest response among un-linearized completed ops bounds which ops may go next
		minRet := int(^uint(0) >> 1)
		for i, op := range ops {
			if done&(1<<i) == 0 && op.ret != 0 && op.ret < minRet {
				minRet = op.ret
			}
		}
		for i, op := range ops {
			if done&(1<<i) != 0 || op.inv > minRet {
				continue
			}
			if ns, ok := linApply(s, op); ok {
				if rec(done|1<<i, ns) {
					return true
				}
			}
			if op.ret == 0 {
				// a call that never returned may also never take effect
				if rec(done|1<<i, s) {
					return true
				}
			}
		}
		return false
	}
	return rec(0, init)
}
