//go:build verif && vplain

package theine

// Public-API layer, doorkeeper past its comfortable state. With Doorkeeper(true) a shard's bloom filter is not
// append-only: it is replaced by an empty, larger one when the shard's map outgrows it (first at 26 entries in a
// shard), it is wiped after more first-sight refusals than its capacity, and LoadCache fills the map without telling
// it. After any of these, resident keys are unknown to the filter. Nothing a client can observe may depend on that:
// the scenarios below put a cache into each of the three states through the exported API and then run EVERY sequence
// (to a depth) of Set / Get / Delete on two resident keys against a map.
//
//	C01 Get returns the latest value; after Delete returned the key is absent (Get and Range) until it is set again
//	C06 Set on a resident key is never refused; a Set that returned true is readable at once

import (
	"bytes"
	"fmt"
	"runtime"
	"testing"
	"time"

	"github.com/Yiling-J/theine-go/internal/vrt/vh"
)

type adkRun struct {
	c     *Cache[int, int]
	a, b  int
	nkeys int
}

func adkBuild(pre string) (*adkRun, error) {
	mk := func() (*Cache[int, int], error) {
		return NewBuilder[int, int](20000).Doorkeeper(true).Build()
	}
	admit := func(c *Cache[int, int], k int) bool {
		for i := 0; i < 3; i++ {
			if c.Set(k, k, 1) {
				return true
			}
		}
		return false
	}
	c, err := mk()
	if err != nil {
		return nil, err
	}
	r := &adkRun{c: c, a: 7, b: 8}
	switch pre {
	case "grown": // 1000 admitted keys: every shard's map outgrows its filter at least once
		for k := 1; k <= 1000; k++ {
			if !admit(c, k) {
				return nil, fmt.Errorf("key %d was not admitted by three Sets", k)
			}
		}
		r.nkeys = 1000
	case "wiped": // a and b admitted, then more first-sight refusals than any filter holds
		for _, k := range []int{r.a, r.b} {
			if !admit(c, k) {
				return nil, fmt.Errorf("key %d was not admitted by three Sets", k)
			}
		}
		for k := 100000; k < 100000+20000; k++ {
			c.Set(k, k, 1) // refused (first sight) - or admitted when the wiped filter's bits collide; either is fine here
		}
		r.nkeys = -1
	case "loaded": // contents arrive through LoadCache
		src, err := NewBuilder[int, int](20000).Build()
		if err != nil {
			return nil, err
		}
		for k := 1; k <= 200; k++ {
			src.Set(k, k, 1)
		}
		src.Wait()
		var buf bytes.Buffer
		if err := src.SaveCache(1, &buf); err != nil {
			return nil, err
		}
		src.Close()
		if err := c.LoadCache(1, &buf); err != nil {
			return nil, err
		}
		r.nkeys = 200
	default:
		return nil, fmt.Errorf("unknown pre-history %q", pre)
	}
	c.Wait()
	return r, nil
}

func TestVerif_APIDoorkeeper(t *testing.T) {
	env := vh.Env()
	prop := env.Params["prop"]
	if prop == "" {
		prop = "C01"
	}
	res := vh.NewResult(prop, "EX-ENUM", env)
	defer res.Write()
	depth := env.Int("depth", 3)
	res.Bounds["depth"] = depth
	res.Bounds["keys"] = 2
	type op struct {
		Kind string `json:"op"`
		K    int    `json:"k"` // 0 = key a, 1 = key b
	}
	alpha := []op{{"get", 0}, {"del", 0}, {"set", 0}, {"get", 1}, {"del", 1}, {"set", 1}}
	pres := []string{"grown", "wiped", "loaded"}
	run := func(pre string, ops []op) string {
		r, err := adkBuild(pre)
		if err != nil {
			res.Error = "pre-history " + pre + ": " + err.Error()
			return "error"
		}
		defer r.c.Close()
		keys := [2]int{r.a, r.b}
		ref := map[int]int{}
		for _, k := range keys {
			if v, ok := r.c.Get(k); ok && v == k {
				ref[k] = v
			} else {
				res.Error = fmt.Sprintf("pre-history %s: key %d not resident with its value (%d,%v)", pre, k, v, ok)
				return "error"
			}
		}
		viol := func(p, clause, format string, a ...any) {
			if p == prop {
				res.Violate(clause, "doorkeeper:"+pre, fmt.Sprintf("doorkeeper cache after pre-history %q, calls %v (key a=%d, b=%d): ", pre, ops, r.a, r.b)+fmt.Sprintf(format, a...), len(ops),
					map[string]any{"pre": pre, "ops": ops})
			}
		}
		nextV := 1000
		obs := ""
		for i, o := range ops {
			k := keys[o.K]
			switch o.Kind {
			case "set":
				nextV++
				_, resident := ref[k]
				ok := r.c.Set(k, nextV, 1)
				if ok {
					ref[k] = nextV
					if v, hit := r.c.Get(k); !hit || v != nextV {
						viol("C06", "set-true-not-visible", "call %d Set(%d,%d) returned true, the Get right after it returned (%d,%v)", i, k, nextV, v, hit)
					}
				} else if resident {
					viol("C06", "set-refused-on-resident-key", "call %d Set(%d,%d) on a resident key returned false", i, k, nextV)
				}
				obs += fmt.Sprintf("s%v", ok)
			case "del":
				r.c.Delete(k)
				delete(ref, k)
				obs += "d"
			case "get":
				v, hit := r.c.Get(k)
				want, live := ref[k]
				if hit && !live {
					viol("C01", "read-after-delete", "call %d Get(%d) returned %d although the key's Delete had returned and it was not set again", i, k, v)
				} else if hit && v != want {
					viol("C01", "stale-read", "call %d Get(%d) returned %d, the latest value is %d", i, k, v, want)
				} else if !hit && live {
					viol("C06", "lost-without-reason", "call %d Get(%d) missed; the key holds %d, nothing was deleted, nothing expires, the cache is far from full", i, k, want)
				}
				obs += fmt.Sprintf("g%v", hit)
			}
		}
		r.c.Wait()
		seen := map[int]int{}
		n := 0
		r.c.Range(func(k, v int) bool {
			n++
			if k == r.a || k == r.b {
				seen[k] = v
			}
			return true
		})
		for _, k := range keys {
			v, shown := seen[k]
			want, live := ref[k]
			if shown && !live {
				viol("C01", "range-after-delete", "at the end Range shows %d=%d although the key's Delete had returned", k, v)
			} else if shown && v != want {
				viol("C01", "range-stale", "at the end Range shows %d=%d, the latest value is %d", k, v, want)
			} else if !shown && live {
				viol("C06", "lost-without-reason", "at the end Range does not show key %d (value %d)", k, want)
			}
		}
		if r.nkeys > 0 {
			want := r.nkeys - 2 + len(ref)
			if l := r.c.Len(); l != want || n != want {
				viol("C06", "lost-without-reason", "at the end Len %d, Range visits %d, expected %d resident keys", l, n, want)
			}
		}
		return pre + ":" + obs
	}
	if env.Replay != "" {
		var rp struct {
			Pre string `json:"pre"`
			Ops []op   `json:"ops"`
		}
		if err := vh.LoadReplay(env.Replay, &rp); err != nil {
			res.Error = err.Error()
			return
		}
		res.Outcome(run(rp.Pre, rp.Ops))
		res.Executions++
		return
	}
	base := runtime.NumGoroutine()
	var caseNo int64
	stop := false
	var rec func(pre string, ops []op)
	rec = func(pre string, ops []op) {
		if stop || res.Error != "" {
			return
		}
		if len(ops) == depth {
			n := caseNo
			caseNo++
			if n%int64(env.NShards) == int64(env.Shard) {
				if res.Executions%16 == 0 && !env.Deadline.IsZero() && time.Now().After(env.Deadline) {
					res.Cap(fmt.Sprintf("deadline reached at case %d", n))
					stop = true
					return
				}
				res.Outcome(run(pre, ops))
				apiReap(base)
				res.Executions++
				res.Completed++
				res.MaxDepth = depth
				if res.Executions <= 2 {
					res.Sample(map[string]any{"pre": pre, "ops": fmt.Sprint(ops)})
				}
			}
			return
		}
		for _, a := range alpha {
			rec(pre, append(append([]op(nil), ops...), a))
		}
	}
	for _, pre := range pres {
		rec(pre, nil)
	}
	res.States = caseNo
}
