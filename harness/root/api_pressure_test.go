//go:build verif && vplain

package theine

// Public-API layer, part 2: the same idea as api_test.go under CAPACITY PRESSURE and over the cross product of
// cache kinds and options. MaxSize is 2 and three keys are in play, so evictions (and, for hybrid kinds, demotions
// and promotions) happen all the time; calls go through the exported wrappers, one after the other, and after every
// call the cache is brought to rest (Wait; for hybrid kinds also until the demotion worker has emptied its queue) and
// OBSERVED through the store (Range / Len / EstimatedSize - none of them touches the policy). The reference is driven
// by these observations, so no knowledge of the admission policy is needed:
//
//	C01  a Get that returns a value returns the latest value stored under the key; Range shows only latest values;
//	     a deleted key is not served (non-hybrid kinds)
//	C05  between two observations, every entry that left the cache was reported exactly once, with its last value, as
//	     REMOVED iff the call was its Delete, and nothing else was reported (non-hybrid kinds)
//	C13  the loader runs exactly when the key is not resident (non-hybrid loading kinds), and its value is returned
//	C14  hybrid: a Get never returns an older value, nor the value of a deleted key
//	C15  hybrid: a key that was stored and not deleted is always found (memory or secondary), a loading Get does not reload it
//	C16  after Wait: Len == number of observed entries <= MaxSize and EstimatedSize == their total cost
//
// Every sequence to the depth bound on every configuration; nothing sampled; sharded by case number.

import (
	"bytes"
	"context"
	"fmt"
	"os"
	"runtime"
	"runtime/pprof"
	"strings"
	"testing"
	"time"

	"github.com/Yiling-J/theine-go/internal"
	"github.com/Yiling-J/theine-go/internal/vrt/vh"
)

var apMax = 2 // MaxSize of every cache built here (param max)

type apCfg struct {
	Kind   string `json:"kind"`
	Pool   bool   `json:"pool"`
	StrKey bool   `json:"strkey"`
	DK     bool   `json:"dk"`
}

func (c apCfg) String() string {
	return fmt.Sprintf("%s pool=%v strkey=%v dk=%v", c.Kind, c.Pool, c.StrKey, c.DK)
}

type apWorld struct {
	*apiWorld
	st *internal.Store[int, int]
}

func apBuild(cfg apCfg) (*apWorld, error) {
	w := &apiWorld{loads: map[int]int{}, sec: &apiSec{m: map[int][3]int64{}}}
	b := NewBuilder[int, int](int64(apMax)).RemovalListener(w.listener).UseEntryPool(cfg.Pool)
	if cfg.StrKey {
		b = b.StringKey(func(k int) string { return fmt.Sprintf("key-%d", k) })
	}
	if cfg.DK {
		b = b.Doorkeeper(true)
	}
	loader := func(ctx context.Context, k int) (Loaded[int], error) {
		w.mu.Lock()
		w.loads[k]++
		n := w.loads[k]
		w.mu.Unlock()
		return Loaded[int]{Value: 10000 + k*100 + n, Cost: 1}, nil
	}
	var err error
	a := &apWorld{apiWorld: w}
	switch cfg.Kind {
	case "plain":
		w.plain, err = b.Build()
		if err == nil {
			a.st = w.plain.store
		}
	case "loading":
		w.loading, err = b.Loading(loader).Build()
		if err == nil {
			a.st = w.loading.store.Store
		}
	case "loading-bwl":
		w.loading, err = b.BuildWithLoader(loader)
		if err == nil {
			a.st = w.loading.store.Store
		}
	case "hybrid":
		w.hybrid, err = b.Hybrid(w.sec).Workers(1).Build()
		if err == nil {
			a.st = w.hybrid.store
		}
	case "hybrid-loading":
		w.hl, err = b.Hybrid(w.sec).Workers(1).Loading(loader).Build()
		if err == nil {
			a.st = w.hl.store.Store
		}
	case "loading-hybrid":
		w.hl, err = b.Loading(loader).Hybrid(w.sec).Build()
		if err == nil {
			a.st = w.hl.store.Store
		}
	default:
		panic("ap: kind " + cfg.Kind)
	}
	return a, err
}

// apStuck is set by the first case whose cache did not come to rest: the worker then stops enumerating (every later
// case of a tree with that defect would sit out the same long patience and the worker would die on its test timeout
// instead of reporting the violation it has found).
var apStuck bool

// rest brings the cache to rest and returns what is resident. ok=false: it did not come to rest within the (long) patience.
func (a *apWorld) rest() (map[int]int, bool) {
	a.st.Wait()
	if a.isHybrid() {
		// demoted entries stay in the map until the worker has copied them: wait until map and policy agree
		deadline := time.Now().Add(120 * time.Second)
		if apStuck {
			deadline = time.Now().Add(2 * time.Second)
		}
		for a.st.Len() != a.st.EstimatedSize() {
			if time.Now().After(deadline) {
				apStuck = true
				return nil, false
			}
			runtime.Gosched()
		}
	}
	res := map[int]int{}
	a.st.Range(func(k, v int) bool { res[k] = v; return true })
	return res, true
}

func (a *apWorld) nloads(k int) int {
	a.mu.Lock()
	defer a.mu.Unlock()
	return a.loads[k]
}

func apExec(res *vh.Result, prop string, cfg apCfg, ops []apiOp) string {
	viol := func(p, clause, sig, format string, x ...any) {
		if p != prop {
			return
		}
		d := fmt.Sprintf("cache built as [%s] with MaxSize %d, calls %v: ", cfg, apMax, ops) + fmt.Sprintf(format, x...)
		res.Violate(clause, "api-pressure:"+sig, d, len(ops), map[string]any{"cfg": cfg, "ops": ops})
	}
	a, err := apBuild(cfg)
	if err != nil {
		viol(prop, "build-fails", cfg.Kind, "the Builder refused a valid configuration: %v", err)
		return "build-error"
	}
	defer func() { a.close() }() // a closure: after a "reload" a holds another cache than the one it held here
	hybrid, loading := a.isHybrid(), a.isLoading()
	latest := map[int]int{} // key -> latest value stored and not deleted (whether or not it is still in memory)
	before, _ := a.rest()
	nnotes := 0
	nextV := 0
	var obs []string
	for i, op := range ops {
		switch op.Kind {
		case "set", "setttl":
			nextV++
			ttl := time.Duration(0)
			if op.Kind == "setttl" {
				ttl = 3 * time.Hour
			}
			if a.set(op.K, nextV, 1, ttl) {
				latest[op.K] = nextV
				obs = append(obs, "t")
			} else {
				obs = append(obs, "f")
				if !cfg.DK {
					viol("C06", "set-verdict", "cost1", "call %d %s returned false for cost 1 <= MaxSize without a doorkeeper", i, op)
				}
			}
		case "get":
			l0 := a.nloads(op.K)
			v, ok, gerr := a.get(op.K)
			ran := a.nloads(op.K) - l0
			obs = append(obs, fmt.Sprintf("%v/%d", ok, ran))
			want, live := latest[op.K]
			_, resident := before[op.K]
			switch {
			case gerr != nil:
				viol(map[bool]string{true: "C14", false: "C13"}[hybrid], "get-error", cfg.Kind, "call %d %s returned error %v", i, op, gerr)
			case loading && ran > 1:
				viol("C13", "loader-invocations", cfg.Kind, "call %d %s ran the loader %d times", i, op, ran)
			case loading && ran == 1:
				if hybrid && live {
					viol("C15", "live-key-reloaded", cfg.Kind, "call %d %s ran the loader although the key holds %d (stored, never deleted): it must be found in memory or in the secondary tier", i, op, want)
				}
				if !hybrid && resident {
					viol("C13", "loader-ran-on-resident-key", cfg.Kind, "call %d %s ran the loader although the key was resident with value %d", i, op, before[op.K])
				}
				if !ok || v != 10000+op.K*100+a.nloads(op.K) {
					viol("C13", "loaded-value", cfg.Kind, "call %d %s ran the loader but returned (%d, found=%v)", i, op, v, ok)
				}
				if ok {
					latest[op.K] = v
				}
			case ok:
				if !live || v != want {
					p, clause := "C01", "stale-or-deleted-value-served"
					if hybrid {
						p = "C14"
					}
					viol(p, clause, fmt.Sprintf("%s live=%v", cfg.Kind, live), "call %d %s returned %d; the key's latest value is %d (live=%v)", i, op, v, want, live)
				}
			default: // miss, loader not involved
				if loading {
					viol("C13", "miss-without-load", cfg.Kind, "call %d %s returned not-found and did not run the loader", i, op)
				}
				if hybrid && live {
					viol("C15", "live-key-lost", cfg.Kind, "call %d %s did not find the key although it holds %d (stored, never deleted; nothing fails, the worker keeps up): it is in neither tier", i, op, want)
				}
			}
		case "del":
			_ = a.del(op.K)
			delete(latest, op.K)
			obs = append(obs, "d")
		case "reload":
			// SaveCache, LoadCache into a fresh cache of the same configuration (sharing the secondary store of a
			// hybrid kind), Close the old one and go on with the new one. What a reload may drop is C11's subject;
			// here only what is served afterwards is judged, so the reference forgets what neither tier holds any more.
			var buf bytes.Buffer
			if err := a.save(&buf); err != nil {
				viol("C11", "save-fails", cfg.Kind, "call %d: SaveCache: %v", i, err)
				return cfg.String() + "|save-error"
			}
			nb, err := apBuild(cfg)
			if err != nil {
				return cfg.String() + "|build-error"
			}
			if hybrid {
				nb.sec.mu.Lock()
				a.sec.mu.Lock()
				for k, e := range a.sec.m {
					nb.sec.m[k] = e
				}
				a.sec.mu.Unlock()
				nb.sec.mu.Unlock()
			}
			nb.loads = a.loads
			if err := nb.load(3, &buf); err != nil {
				viol("C11", "load-fails", cfg.Kind, "call %d: LoadCache of the stream just saved: %v", i, err)
				nb.close()
				return cfg.String() + "|load-error"
			}
			a.close()
			*a = *nb
			nnotes = 0
			obs = append(obs, "r")
			now, ok := a.rest()
			if !ok {
				return cfg.String() + "|stuck"
			}
			for k := range latest {
				_, inMem := now[k]
				_, inSec := a.sec.has(k)
				if !inMem && !(hybrid && inSec) {
					delete(latest, k)
				}
			}
			before = now
		}
		after, ok := a.rest()
		if !ok {
			viol("C15", "demotion-never-completes", cfg.Kind, "after call %d %s the map kept holding more entries than the policy tracks for 120 s (a queued demotion is never carried out)", i, op)
			return cfg.String() + "|stuck"
		}
		// ---- observations after the call
		for k, v := range after {
			if lv, live := latest[k]; !live || lv != v {
				p := "C01"
				if hybrid {
					p = "C14"
				}
				viol(p, "range-shows-superseded-value", cfg.Kind, "after call %d %s Range shows %d=%d; the key's latest value is %d (live=%v)", i, op, k, v, lv, live)
			}
		}
		ln, est := a.st.Len(), a.st.EstimatedSize()
		if ln != len(after) || est != len(after) || ln > apMax {
			viol("C16", "size-views", fmt.Sprintf("%s pool=%v", cfg.Kind, cfg.Pool), "after call %d %s and Wait: Len=%d EstimatedSize=%d, Range shows %d entries (all cost 1), MaxSize %d", i, op, ln, est, len(after), apMax)
		}
		if !hybrid {
			// departures between the two observations <-> new notifications
			a.mu.Lock()
			fresh := append([]apiNote(nil), a.notes[nnotes:]...)
			nnotes = len(a.notes)
			a.mu.Unlock()
			want := map[apiNote]int{}
			for k, v := range before {
				_, still := after[k]
				// the entry left if the key is gone; an in-place update keeps the entry (no notification) and changes
				// the value the entry will be reported with
				if (op.Kind == "set" || op.Kind == "setttl") && op.K == k && obs[len(obs)-1] == "t" {
					v = latest[k]
				}
				if !still {
					r := EVICTED
					if op.Kind == "del" && op.K == k {
						r = REMOVED
					}
					want[apiNote{k, v, r}]++
				}
			}
			// an entry stored by this very call and already gone again (refused admission) is reported too
			if op.Kind == "set" || op.Kind == "setttl" || (op.Kind == "get" && loading) {
				if lv, live := latest[op.K]; live {
					if _, was := before[op.K]; !was {
						if _, is := after[op.K]; !is && obs[len(obs)-1] != "f" && !(op.Kind == "get" && strings.HasSuffix(obs[len(obs)-1], "/0")) {
							want[apiNote{op.K, lv, EVICTED}]++
						}
					}
				}
			}
			got := map[apiNote]int{}
			for _, n := range fresh {
				got[n]++
			}
			if !apNotesEqual(want, got) {
				viol("C05", "notifications", fmt.Sprintf("%s pool=%v", cfg.Kind, cfg.Pool), "call %d %s: resident before %s, after %s; the listener received %v, the departures are %v", i, op, fmtIntMap(before), fmtIntMap(after), fresh, apWant(want))
			}
		}
		before = after
	}
	return cfg.String() + "|" + strings.Join(obs, ",")
}

func apNotesEqual(a, b map[apiNote]int) bool {
	if len(a) != len(b) {
		return false
	}
	for k, v := range a {
		if b[k] != v {
			return false
		}
	}
	return true
}

func apWant(m map[apiNote]int) []apiNote {
	var r []apiNote
	for k, n := range m {
		for i := 0; i < n; i++ {
			r = append(r, k)
		}
	}
	return r
}

func apCfgs() []apCfg {
	var out []apCfg
	for _, kind := range []string{"plain", "loading", "loading-bwl", "hybrid", "hybrid-loading", "loading-hybrid"} {
		for _, pool := range []bool{false, true} {
			for _, sk := range []bool{false, true} {
				out = append(out, apCfg{Kind: kind, Pool: pool, StrKey: sk})
			}
		}
	}
	// the doorkeeper refuses first sights: only kinds whose reference can follow that (Set's verdict tells)
	out = append(out, apCfg{Kind: "plain", DK: true}, apCfg{Kind: "plain", DK: true, Pool: true}, apCfg{Kind: "hybrid", DK: true}, apCfg{Kind: "hybrid", DK: true, Pool: true})
	return out
}

var apExt bool // param ext=1: SetWithTTL and save/load/continue among the calls

func apAlphabet() []apiOp {
	var out []apiOp
	if apExt {
		out = append(out, apiOp{"setttl", 1}, apiOp{"setttl", 2}, apiOp{"reload", 0})
	}
	for _, k := range []int{1, 2, 3} {
		out = append(out, apiOp{"set", k}, apiOp{"get", k})
	}
	for _, k := range []int{1, 2} {
		out = append(out, apiOp{"del", k})
	}
	return out
}

func TestVerif_APIPressure(t *testing.T) {
	env := vh.Env()
	prop := env.Params["prop"]
	if prop == "" {
		prop = "C01"
	}
	res := vh.NewResult(prop, "EX-ENUM", env)
	defer res.Write()
	depth := env.Int("depth", 4)
	apMax = env.Int("max", 2)
	apExt = env.Int("ext", 0) == 1
	res.Bounds["depth"], res.Bounds["keys"], res.Bounds["maxsize"], res.Bounds["configurations"] = depth, 3, apMax, len(apCfgs())
	if env.Replay != "" {
		var rp struct {
			Cfg apCfg   `json:"cfg"`
			Ops []apiOp `json:"ops"`
		}
		if err := vh.LoadReplay(env.Replay, &rp); err != nil {
			res.Error = err.Error()
			return
		}
		res.Outcome(apExec(res, prop, rp.Cfg, rp.Ops))
		res.Executions++
		return
	}
	alpha := apAlphabet()
	base := runtime.NumGoroutine()
	var caseNo int64
	stop := false
	var rec func(cfg apCfg, ops []apiOp)
	rec = func(cfg apCfg, ops []apiOp) {
		if stop {
			return
		}
		if len(ops) == depth { // a sequence is judged at every step: only maximal ones are run
			n := caseNo
			caseNo++
			if n%int64(env.NShards) == int64(env.Shard) {
				if res.Executions%32 == 0 && !env.Deadline.IsZero() && time.Now().After(env.Deadline) { // every 32 cases this worker ran
					res.Cap(fmt.Sprintf("deadline reached at case %d", n))
					stop = true
					return
				}
				res.Outcome(apExec(res, prop, cfg, ops))
				apiReap(base)
				res.Executions++
				res.Completed++
				if apStuck {
					res.Cap(fmt.Sprintf("case %d never came to rest (reported as a violation where the property covers it); enumeration stopped there", n))
					stop = true
				}
				res.MaxDepth = depth
				if res.Executions <= 2 {
					res.Sample(map[string]any{"cfg": cfg.String(), "ops": fmt.Sprint(ops)})
				}
			}
			return
		}
		for _, a := range alpha {
			rec(cfg, append(append([]apiOp(nil), ops...), a))
		}
	}
	// each property looks at the kinds its clauses speak about
	relevant := func(kind string) bool {
		hybrid := strings.Contains(kind, "hybrid")
		loading := strings.Contains(kind, "loading")
		switch prop {
		case "C14", "C15":
			return hybrid
		case "C13":
			return loading
		case "C01", "C05", "C16":
			return !hybrid
		case "C06":
			return kind == "plain" || kind == "hybrid"
		}
		return true
	}
	ncfg := 0
	for _, cfg := range apCfgs() {
		if f := env.Params["cfg"]; f != "" && !strings.Contains(cfg.String(), strings.ReplaceAll(f, "+", " ")) {
			continue
		}
		if !relevant(cfg.Kind) {
			continue
		}
		ncfg++
		rec(cfg, nil)
	}
	res.Bounds["configurations"] = ncfg
	res.States = caseNo
	var ms runtime.MemStats
	runtime.ReadMemStats(&ms)
	if os.Getenv("VERIF_GOROUTINES") != "" {
		var b bytes.Buffer
		pprof.Lookup("goroutine").WriteTo(&b, 1)
		x := b.String()
		if len(x) > 6000 {
			x = x[:6000]
		}
		res.Note("goroutine profile: %s", x)
	}
	res.Note("worker memory at the end: heap in use %d MiB, sys %d MiB, total allocated %d MiB, goroutines %d", ms.HeapInuse>>20, ms.Sys>>20, ms.TotalAlloc>>20, runtime.NumGoroutine())
}
