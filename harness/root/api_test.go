//go:build verif && vplain

package theine

// Public-API layer (engine EX-ENUM / E2-BFS at the API): every property is stated over the exported
// caches, but the store-level harnesses build internal.Store themselves. This driver closes the gap
// between the two: for every cache kind the Builder can produce, every option combination of a small
// catalogue and EVERY sequence (to a depth) of exported calls on two keys, a fresh real cache built through
// the exported Builder runs the sequence and every observation is compared with a plain map that is
// updated by the same calls. Capacity is large (nothing is evicted, nothing expires: TTLs are hours), so
// the reference is exact and the run is deterministic although the cache's goroutines are real: every
// asynchronous effect that is compared (notifications, sizes) is read after Wait.
//
// It is registered as one scenario of several properties (param prop=Cxx selects the clauses that are
// reported): the wrappers and the option wiring are part of what each of them promises.
//
//	C01 values returned by Get / Range, absence after Delete
//	C05 one REMOVED notification per deleted entry, none for anything else
//	C06 Set's verdict (cost rule, cost function) and visibility of the stored value
//	C10 calls after Close return
//	C11 SaveCache / LoadCache through the wrappers reproduces the contents
//	C13 loader runs exactly on misses, errors are returned and not cached, Loaded fields are passed on
//	C14 hybrid Get reaches the secondary tier, hybrid Delete removes the secondary copy
//	C16 Len / EstimatedSize / Stats agree with the history

import (
	"bytes"
	"context"
	"errors"
	"fmt"
	"runtime"
	"sort"
	"strconv"
	"strings"
	"sync"
	"testing"
	"time"

	"github.com/Yiling-J/theine-go/internal/vrt/vh"
)

const apiMax = 100

type apiCfg struct {
	Kind   string `json:"kind"`   // plain | loading | loading-bwl | hybrid | hybrid-loading | loading-hybrid
	CostFn bool   `json:"costfn"` // Builder.Cost installed
	Pool   bool   `json:"pool"`   // UseEntryPool
	StrKey bool   `json:"strkey"` // StringKey installed (an equality-respecting key -> string function)
	DK     bool   `json:"dk"`     // Doorkeeper (plain kind only: the first Set of an unseen key may be refused)
}

func (c apiCfg) String() string {
	return fmt.Sprintf("%s costfn=%v pool=%v strkey=%v dk=%v", c.Kind, c.CostFn, c.Pool, c.StrKey, c.DK)
}

type apiOp struct {
	Kind string `json:"op"` // set set0 setttl get del
	K    int    `json:"k"`
}

func (o apiOp) String() string { return fmt.Sprintf("%s(%d)", o.Kind, o.K) }

type apiNote struct {
	K, V int
	R    RemoveReason
}

// apiSec is the secondary tier of the hybrid kinds: a locked map with a call log.
type apiSec struct {
	mu  sync.Mutex
	m   map[int][3]int64 // value, cost, expire
	log []string
}

func (s *apiSec) Get(k int) (int, int64, int64, bool, error) {
	s.mu.Lock()
	defer s.mu.Unlock()
	e, ok := s.m[k]
	s.log = append(s.log, fmt.Sprintf("get(%d)=%v", k, ok))
	return int(e[0]), e[1], e[2], ok, nil
}
func (s *apiSec) Set(k int, v int, cost int64, expire int64) error {
	s.mu.Lock()
	defer s.mu.Unlock()
	s.m[k] = [3]int64{int64(v), cost, expire}
	s.log = append(s.log, fmt.Sprintf("set(%d,%d)", k, v))
	return nil
}
func (s *apiSec) Delete(k int) error {
	s.mu.Lock()
	defer s.mu.Unlock()
	delete(s.m, k)
	s.log = append(s.log, fmt.Sprintf("del(%d)", k))
	return nil
}
func (s *apiSec) HandleAsyncError(err error) {}
func (s *apiSec) has(k int) (int, bool) {
	s.mu.Lock()
	defer s.mu.Unlock()
	e, ok := s.m[k]
	return int(e[0]), ok
}

// apiWorld: one real cache (whatever kind) behind a uniform face, plus what the harness owns.
type apiWorld struct {
	cfg     apiCfg
	plain   *Cache[int, int]
	loading *LoadingCache[int, int]
	hybrid  *HybridCache[int, int]
	hl      *HybridLoadingCache[int, int]
	sec     *apiSec
	mu      sync.Mutex
	notes   []apiNote
	loads   map[int]int // loader invocations per key
	nextV   int
}

var errAPILoad = errors.New("api: loader failure")

func apiCost(v int) int64 {
	if v%7 == 0 {
		return apiMax + 100 // can never fit
	}
	return int64(v%3 + 1)
}

func (w *apiWorld) listener(k, v int, r RemoveReason) {
	w.mu.Lock()
	w.notes = append(w.notes, apiNote{k, v, r})
	w.mu.Unlock()
}

// loader: the first invocation for a key fails, later ones return a fresh value with an explicit cost 2 and no TTL.
func (w *apiWorld) loader(ctx context.Context, k int) (Loaded[int], error) {
	w.mu.Lock()
	w.loads[k]++
	n := w.loads[k]
	w.mu.Unlock()
	if n == 1 {
		return Loaded[int]{}, errAPILoad
	}
	return Loaded[int]{Value: 10000 + k*100 + n, Cost: 2, TTL: 0}, nil
}

func apiBuild(cfg apiCfg) (*apiWorld, error) {
	w := &apiWorld{cfg: cfg, loads: map[int]int{}, sec: &apiSec{m: map[int][3]int64{}}}
	b := NewBuilder[int, int](apiMax).RemovalListener(w.listener).UseEntryPool(cfg.Pool)
	if cfg.CostFn {
		b = b.Cost(apiCost)
	}
	if cfg.StrKey {
		b = b.StringKey(func(k int) string { return "key-" + strconv.Itoa(k) })
	}
	if cfg.DK {
		b = b.Doorkeeper(true)
	}
	var err error
	switch cfg.Kind {
	case "plain":
		w.plain, err = b.Build()
	case "loading":
		w.loading, err = b.Loading(w.loader).Build()
	case "loading-bwl":
		w.loading, err = b.BuildWithLoader(w.loader)
	case "hybrid":
		w.hybrid, err = b.Hybrid(w.sec).Workers(1).Build()
	case "hybrid-loading":
		w.hl, err = b.Hybrid(w.sec).Workers(1).Loading(w.loader).Build()
	case "loading-hybrid":
		w.hl, err = b.Loading(w.loader).Hybrid(w.sec).Build()
	default:
		panic("api: kind " + cfg.Kind)
	}
	return w, err
}

func (w *apiWorld) isLoading() bool { return w.loading != nil || w.hl != nil }
func (w *apiWorld) isHybrid() bool  { return w.hybrid != nil || w.hl != nil }

func (w *apiWorld) set(k, v int, cost int64, ttl time.Duration) bool {
	switch {
	case w.plain != nil:
		if ttl == 0 {
			return w.plain.Set(k, v, cost)
		}
		return w.plain.SetWithTTL(k, v, cost, ttl)
	case w.loading != nil:
		if ttl == 0 {
			return w.loading.Set(k, v, cost)
		}
		return w.loading.SetWithTTL(k, v, cost, ttl)
	case w.hybrid != nil:
		if ttl == 0 {
			return w.hybrid.Set(k, v, cost)
		}
		return w.hybrid.SetWithTTL(k, v, cost, ttl)
	default:
		if ttl == 0 {
			return w.hl.Set(k, v, cost)
		}
		return w.hl.SetWithTTL(k, v, cost, ttl)
	}
}

// get returns (value, found, error).
func (w *apiWorld) get(k int) (int, bool, error) {
	switch {
	case w.plain != nil:
		v, ok := w.plain.Get(k)
		return v, ok, nil
	case w.loading != nil:
		v, err := w.loading.Get(context.Background(), k)
		return v, err == nil, err
	case w.hybrid != nil:
		return w.hybrid.Get(k)
	default:
		v, err := w.hl.Get(context.Background(), k)
		return v, err == nil, err
	}
}

func (w *apiWorld) del(k int) error {
	switch {
	case w.plain != nil:
		w.plain.Delete(k)
	case w.loading != nil:
		w.loading.Delete(k)
	case w.hybrid != nil:
		return w.hybrid.Delete(k)
	default:
		return w.hl.Delete(k)
	}
	return nil
}

func (w *apiWorld) save(buf *bytes.Buffer) error {
	switch {
	case w.plain != nil:
		return w.plain.SaveCache(3, buf)
	case w.loading != nil:
		return w.loading.SaveCache(3, buf)
	case w.hybrid != nil:
		return w.hybrid.SaveCache(3, buf)
	default:
		return w.hl.SaveCache(3, buf)
	}
}

func (w *apiWorld) load(version uint64, buf *bytes.Buffer) error {
	switch {
	case w.plain != nil:
		return w.plain.LoadCache(version, buf)
	case w.loading != nil:
		return w.loading.LoadCache(version, buf)
	case w.hybrid != nil:
		return w.hybrid.LoadCache(version, buf)
	default:
		return w.hl.LoadCache(version, buf)
	}
}

func (w *apiWorld) close() {
	switch {
	case w.plain != nil:
		w.plain.Close()
	case w.loading != nil:
		w.loading.Close()
	case w.hybrid != nil:
		w.hybrid.Close()
	default:
		w.hl.Close()
	}
}

// views: only the plain and loading wrappers export them.
func (w *apiWorld) views() (rng map[int]int, ln, est int, st Stats, ok bool) {
	rng = map[int]int{}
	switch {
	case w.plain != nil:
		w.plain.Wait()
		w.plain.Range(func(k, v int) bool { rng[k] = v; return true })
		return rng, w.plain.Len(), w.plain.EstimatedSize(), w.plain.Stats(), true
	case w.loading != nil:
		w.loading.Wait()
		w.loading.Range(func(k, v int) bool { rng[k] = v; return true })
		return rng, w.loading.Len(), w.loading.EstimatedSize(), w.loading.Stats(), true
	}
	return nil, 0, 0, Stats{}, false
}

type apiRef struct {
	val    map[int]int
	cost   map[int]int64
	ttl    map[int]bool
	expect []apiNote
	hits   uint64
	misses uint64
}

type apiRun struct {
	res  *vh.Result
	prop string
	cfg  apiCfg
	ops  []apiOp
	bad  bool
	lref map[int]int // loader invocations the reference expects, per key
}

func (r *apiRun) viol(prop, clause, sig, format string, a ...any) {
	r.bad = true
	if prop != r.prop {
		return
	}
	d := fmt.Sprintf("cache built as [%s], calls %v: ", r.cfg, r.ops) + fmt.Sprintf(format, a...)
	r.res.Violate(clause, "api:"+sig, d, len(r.ops), map[string]any{"cfg": r.cfg, "ops": r.ops})
}

func fmtIntMap(m map[int]int) string {
	var ks []int
	for k := range m {
		ks = append(ks, k)
	}
	sort.Ints(ks)
	var s []string
	for _, k := range ks {
		s = append(s, fmt.Sprintf("%d=%d", k, m[k]))
	}
	return "{" + strings.Join(s, " ") + "}"
}

// apiExec runs one sequence on a fresh cache and judges it; returns an outcome string.
func apiExec(res *vh.Result, prop string, cfg apiCfg, ops []apiOp) string {
	r := &apiRun{res: res, prop: prop, cfg: cfg, ops: ops}
	w, err := apiBuild(cfg)
	if err != nil {
		r.viol(prop, "build-fails", cfg.Kind, "the Builder refused a valid configuration: %v", err)
		return "build-error"
	}
	ref := &apiRef{val: map[int]int{}, cost: map[int]int64{}, ttl: map[int]bool{}}
	// the hybrid kinds start with key 2 living in the secondary tier only
	if w.isHybrid() {
		_ = w.sec.Set(2, 777, 1, 0)
		w.sec.log = nil
	}
	var obs []string
	dkSeen := map[int]bool{}
	for i, op := range ops {
		switch op.Kind {
		case "set", "set0", "setttl":
			w.nextV++
			v := w.nextV
			cost, ttl := int64(1), time.Duration(0)
			if op.Kind == "set0" {
				cost = 0
			}
			if op.Kind == "setttl" {
				ttl = 2 * time.Hour
			}
			eff := cost
			if cost == 0 {
				eff = 1
				if cfg.CostFn {
					eff = apiCost(v)
				}
			}
			want := eff <= apiMax
			got := w.set(op.K, v, cost, ttl)
			obs = append(obs, fmt.Sprint(got))
			if _, present := ref.val[op.K]; cfg.DK && want && !present && !dkSeen[op.K] {
				// doorkeeper: the first insertion of a key the filter has not seen is refused (or, on a filter collision,
				// accepted): either verdict is right, and the key counts as seen from now on
				dkSeen[op.K] = true
				want = got
			}
			if got != want {
				r.viol("C06", "set-verdict", fmt.Sprintf("%s costfn=%v want=%v", op.Kind, cfg.CostFn, want),
					"call %d %s with value %d (cost argument %d, effective cost %d, MaxSize %d) returned %v", i, op, v, cost, eff, apiMax, got)
			}
			if got {
				ref.val[op.K], ref.cost[op.K] = v, eff
				if ttl != 0 {
					ref.ttl[op.K] = true
				}
			}
		case "get":
			v, ok, err := w.get(op.K)
			obs = append(obs, fmt.Sprintf("%d/%v/%v", v, ok, err != nil))
			want, present := ref.val[op.K]
			switch {
			case present:
				ref.hits++
				if !ok || v != want || err != nil {
					r.viol("C01", "wrong-read", "present", "call %d %s returned (%d, found=%v, err=%v); the key holds %d", i, op, v, ok, err, want)
					if !ok {
						r.viol("C06", "stored-value-unreadable", "present", "call %d %s did not find the value %d stored by an accepted Set", i, op, want)
					}
				}
			default:
				ref.misses++
				sv, inSec := w.sec.has(op.K)
				switch {
				case w.isHybrid() && inSec:
					if !ok || v != sv || err != nil {
						r.viol("C14", "secondary-not-consulted", cfg.Kind, "call %d %s returned (%d, found=%v, err=%v); the key is absent from memory and the secondary tier holds %d", i, op, v, ok, err, sv)
					} else {
						ref.val[op.K], ref.cost[op.K] = sv, 1
					}
				case w.isLoading():
					w.mu.Lock()
					n := w.loads[op.K]
					w.mu.Unlock()
					// the reference counts invocations itself: a miss invokes the loader exactly once
					exp := r.loaderCalls(op.K) + 1
					if n != exp {
						r.viol("C13", "loader-invocations", cfg.Kind, "call %d %s missed; the loader has now run %d times for the key, expected %d (once per miss)", i, op, n, exp)
					}
					r.noteLoad(op.K)
					if exp == 1 {
						if err == nil || !errors.Is(err, errAPILoad) {
							r.viol("C13", "loader-error-lost", cfg.Kind, "call %d %s: the loader failed, the call returned (%d, err=%v)", i, op, v, err)
						}
					} else {
						wantV := 10000 + op.K*100 + exp
						if err != nil || v != wantV {
							r.viol("C13", "loaded-value", cfg.Kind, "call %d %s: the loader returned %d, the call returned (%d, err=%v)", i, op, wantV, v, err)
						} else {
							ref.val[op.K], ref.cost[op.K] = wantV, 2
						}
					}
				default:
					if ok || err != nil {
						r.viol("C01", "wrong-read", "absent", "call %d %s returned (%d, found=%v, err=%v); the key is absent (never set, or deleted)", i, op, v, ok, err)
					}
				}
			}
		case "del":
			err := w.del(op.K)
			obs = append(obs, fmt.Sprint(err != nil))
			if v, ok := ref.val[op.K]; ok {
				ref.expect = append(ref.expect, apiNote{op.K, v, REMOVED})
			}
			delete(ref.val, op.K)
			delete(ref.cost, op.K)
			delete(ref.ttl, op.K)
			if w.isHybrid() {
				if sv, inSec := w.sec.has(op.K); inSec || err != nil {
					r.viol("C14", "secondary-copy-survives-delete", cfg.Kind, "call %d %s returned err=%v; the secondary tier still holds %d for the key", i, op, err, sv)
				}
			}
		}
	}
	// --- epilogue: views (after Wait), notifications, round trip, Close
	if rng, ln, est, st, ok := w.views(); ok {
		if fmtIntMap(rng) != fmtIntMap(ref.val) {
			r.viol("C01", "range-differs", "final", "Range shows %s, the calls leave %s", fmtIntMap(rng), fmtIntMap(ref.val))
		}
		var sum int64
		for _, c := range ref.cost {
			sum += c
		}
		if ln != len(ref.val) || int64(est) != sum {
			r.viol("C16", "size-views", fmt.Sprintf("costfn=%v", cfg.CostFn), "after Wait: Len=%d EstimatedSize=%d; the calls leave %d entries of total cost %d", ln, est, len(ref.val), sum)
		}
		if st.Hits() != ref.hits || st.Misses() != ref.misses {
			r.viol("C16", "stats", cfg.Kind, "Stats reports hits=%d misses=%d; the calls made %d hits and %d misses", st.Hits(), st.Misses(), ref.hits, ref.misses)
		}
		w.mu.Lock()
		got := append([]apiNote(nil), w.notes...)
		w.mu.Unlock()
		if apiNotes(got) != apiNotes(ref.expect) {
			r.viol("C05", "notifications", cfg.Kind, "after Wait the listener has received %s; the calls deleted %s", apiNotes(got), apiNotes(ref.expect))
		}
	}
	// SaveCache writes what the policy tracks; the hybrid wrappers export no Wait, so the harness drains their
	// write queue through the store (white-box, same package) before saving - otherwise the comparison would
	// depend on how far the maintenance goroutine happens to have got
	switch {
	case w.hybrid != nil:
		w.hybrid.store.Wait()
	case w.hl != nil:
		w.hl.store.Wait()
	}
	var buf bytes.Buffer
	if err := w.save(&buf); err != nil {
		r.viol("C11", "save-fails", cfg.Kind, "SaveCache: %v", err)
	} else {
		saved := append([]byte(nil), buf.Bytes()...)
		if len(ops) == 1 {
			w2, _ := apiBuild(cfg)
			if err := w2.load(4, bytes.NewBuffer(saved)); !errors.Is(err, VersionMismatch) {
				r.viol("C11", "version-not-checked", cfg.Kind, "LoadCache with another version returned %v", err)
			}
			w2.close()
		}
		w3, _ := apiBuild(cfg)
		if err := w3.load(3, bytes.NewBuffer(saved)); err != nil {
			r.viol("C11", "load-fails", cfg.Kind, "LoadCache of the stream just saved: %v", err)
		} else {
			back := map[int]int{}
			if rng, _, _, _, ok := w3.views(); ok {
				back = rng
			} else {
				for k := range ref.val {
					// hybrid wrappers have no Range: read the keys back (memory first; the secondary tier of w3 is empty)
					if v, ok, _ := w3.get(k); ok {
						back[k] = v
					}
				}
			}
			if fmtIntMap(back) != fmtIntMap(ref.val) {
				r.viol("C11", "round-trip-differs", cfg.Kind, "saved %s, a fresh cache of the same configuration loaded %s", fmtIntMap(ref.val), fmtIntMap(back))
			}
		}
		w3.close()
	}
	w.close()
	done := make(chan struct{})
	go func() {
		defer close(done)
		defer func() { recover() }()
		w.set(1, 1, 1, 0)
		if !w.isLoading() {
			w.get(1)
		}
		_ = w.del(1)
		w.close()
	}()
	select {
	case <-done:
	case <-time.After(120 * time.Second):
		r.viol("C10", "call-after-close-hangs", cfg.Kind, "Set / Get / Delete / Close issued after Close had returned did not come back within 120 s")
	}
	if r.bad {
		obs = append(obs, "BAD")
	}
	return cfg.String() + "|" + strings.Join(obs, ",")
}

func (r *apiRun) loaderCalls(k int) int { return r.lref[k] }
func (r *apiRun) noteLoad(k int) {
	if r.lref == nil {
		r.lref = map[int]int{}
	}
	r.lref[k]++
}

// apiReap lets the goroutines of the caches that were just closed run to their exit. The workers run with
// GOMAXPROCS=1 and the driver loop hardly ever blocks, so without this the closed stores pile up behind goroutines
// that have not been scheduled yet (gigabytes per worker).
func apiReap(base int) {
	for i := 0; runtime.NumGoroutine() > base+4 && i < 10000; i++ {
		runtime.Gosched()
	}
}

func apiNotes(ns []apiNote) string {
	var s []string
	for _, n := range ns {
		s = append(s, fmt.Sprintf("%d=%d/%d", n.K, n.V, n.R))
	}
	sort.Strings(s)
	return "[" + strings.Join(s, " ") + "]"
}

func apiCfgs() []apiCfg {
	var out []apiCfg
	for _, kind := range []string{"plain", "loading", "loading-bwl", "hybrid", "hybrid-loading", "loading-hybrid"} {
		// one option at a time (they do not interact in the wrappers), plus none
		out = append(out, apiCfg{Kind: kind}, apiCfg{Kind: kind, CostFn: true}, apiCfg{Kind: kind, Pool: true}, apiCfg{Kind: kind, StrKey: true})
	}
	out = append(out, apiCfg{Kind: "plain", DK: true})
	return out
}

func apiAlphabet() []apiOp {
	var out []apiOp
	for _, kind := range []string{"set", "get", "del", "set0", "setttl"} {
		for _, k := range []int{1, 2} {
			out = append(out, apiOp{kind, k})
		}
	}
	return out
}

func TestVerif_API(t *testing.T) {
	env := vh.Env()
	prop := env.Params["prop"]
	if prop == "" {
		prop = "C01"
	}
	res := vh.NewResult(prop, "EX-ENUM", env)
	defer res.Write()
	depth := env.Int("depth", 3)
	res.Bounds["depth"] = depth
	res.Bounds["keys"] = 2
	res.Bounds["configurations"] = len(apiCfgs())
	if env.Replay != "" {
		var rp struct {
			Cfg apiCfg  `json:"cfg"`
			Ops []apiOp `json:"ops"`
		}
		if err := vh.LoadReplay(env.Replay, &rp); err != nil {
			res.Error = err.Error()
			return
		}
		res.Outcome(apiExec(res, prop, rp.Cfg, rp.Ops))
		res.Executions++
		return
	}
	alpha := apiAlphabet()
	base := runtime.NumGoroutine()
	var caseNo int64
	stop := false
	var rec func(cfg apiCfg, ops []apiOp)
	rec = func(cfg apiCfg, ops []apiOp) {
		if stop {
			return
		}
		if len(ops) > 0 {
			n := caseNo
			caseNo++
			if n%int64(env.NShards) == int64(env.Shard) {
				if res.Executions%32 == 0 && !env.Deadline.IsZero() && time.Now().After(env.Deadline) { // every 32 cases this worker ran
					res.Cap(fmt.Sprintf("deadline reached at case %d", n))
					stop = true
					return
				}
				r := apiExec(res, prop, cfg, ops)
				apiReap(base)
				res.Outcome(r)
				res.Executions++
				res.Completed++
				if len(ops) > res.MaxDepth {
					res.MaxDepth = len(ops)
				}
				if res.Executions <= 2 {
					res.Sample(map[string]any{"cfg": cfg.String(), "ops": fmt.Sprint(ops), "observed": r})
				}
			}
		}
		if len(ops) == depth {
			return
		}
		for _, a := range alpha {
			rec(cfg, append(append([]apiOp(nil), ops...), a))
		}
	}
	for _, cfg := range apiCfgs() {
		rec(cfg, nil)
	}
	res.States = caseNo
}
