//go:build verif && vplain

package theine

// C18 key identity, black-box half: for every key type of the catalogue (rt/vrt/vc18), every
// configuration (hash source x doorkeeper x stack contents) and every ORDERED pair (x,y) of catalogue
// keys, a fresh real cache built through the public Builder executes
//
//	Set(x,v1); Get(y); Set(y,v2); Get(x); Get(y); Len(); Delete(x); Get(y); Get(x)
//
// and each observation is compared with what x==y (Go's own ==) dictates. A second phase per
// (type, configuration) crowds all catalogue keys into a cache of capacity 3 and checks that no key
// ever reads another key's value and that Range never shows two entries with equal keys.
// Nothing is sampled; cases are numbered and sharded by case number.

import (
	"context"
	"errors"
	"fmt"
	"runtime"
	"strings"
	"sync"
	"testing"
	"time"

	"github.com/Yiling-J/theine-go/internal/vrt/vc18"
	"github.com/Yiling-J/theine-go/internal/vrt/vh"
)

type c18cfg struct {
	Hash  string `json:"hash"`  // natural | collide (StringKey returns a constant) | strkey (equality-respecting StringKey)
	DK    bool   `json:"dk"`    // doorkeeper
	Stack string `json:"stack"` // zero: stack below the caller zeroed before every API call; dirty: filled with a varying byte
}

func (c c18cfg) String() string { return fmt.Sprintf("hash=%s dk=%v stack=%s", c.Hash, c.DK, c.Stack) }

type c18replay struct {
	Type  string `json:"type"`
	Cfg   c18cfg `json:"cfg"`
	Phase string `json:"phase"` // pair | crowd
	X     int    `json:"x"`     // catalogue indexes
	Y     int    `json:"y"`
	XLbl  string `json:"x_label"`
	YLbl  string `json:"y_label"`
	Tier  string `json:"tier"`
	Go    string `json:"go"`
}

type c18drv struct {
	env     vh.EnvT
	res     *vh.Result
	rep     *c18replay
	lvl     int
	caseNo  int64
	stop    bool
	types   int
	perType map[string]int64
}

var c18fills = []byte{0xA5, 0x5A, 0xFF, 0x3C, 0xC3, 0x0F, 0xF0, 0x99}

// take decides whether this worker runs the case (sharding, replay filter, deadline).
func (d *c18drv) take(typ string, cfg c18cfg, phase string, x, y int) bool {
	if d.stop {
		return false
	}
	if d.rep != nil {
		return d.rep.Type == typ && d.rep.Cfg == cfg && d.rep.Phase == phase && d.rep.X == x && d.rep.Y == y
	}
	n := d.caseNo
	d.caseNo++
	if n%int64(d.env.NShards) != int64(d.env.Shard) {
		return false
	}
	if (n/int64(d.env.NShards))%64 == 0 && !d.env.Deadline.IsZero() && time.Now().After(d.env.Deadline) { // every 64 cases of this shard
		d.res.Cap(fmt.Sprintf("deadline reached at case %d (type %s)", n, typ))
		d.stop = true
		return false
	}
	return true
}

func c18cfgs[K comparable](d *c18drv, t *vc18.Type[K]) []c18cfg {
	var hs []string
	if c18Go124 || t.Pre124 {
		hs = append(hs, "natural")
	}
	hs = append(hs, "collide")
	if t.StrKey != nil {
		hs = append(hs, "strkey")
	}
	var out []c18cfg
	for _, h := range hs {
		for _, dk := range []bool{false, true} {
			for _, st := range []string{"zero", "dirty"} {
				out = append(out, c18cfg{h, dk, st})
			}
		}
	}
	return out
}

func c18build[K comparable](t *vc18.Type[K], cfg c18cfg, size int64) *Cache[K, int] {
	b := NewBuilder[K, int](size)
	if cfg.DK {
		b.Doorkeeper(true)
	}
	switch cfg.Hash {
	case "collide":
		b.StringKey(func(K) string { return "c18-every-key-the-same" })
	case "strkey":
		b.StringKey(t.StrKey)
	}
	c, err := b.Build()
	if err != nil {
		panic(err)
	}
	return c
}

func c18run[K comparable](d *c18drv, t vc18.Type[K]) {
	if only := d.env.Params["type"]; only != "" && !strings.Contains(t.Name, only) {
		return
	}
	if d.rep != nil && d.rep.Type != t.Name {
		return
	}
	var idx []int
	for i := range t.Keys {
		if t.Keys[i].Lvl <= d.lvl {
			idx = append(idx, i)
		}
	}
	d.types++
	before := d.res.States
	for _, cfg := range c18cfgs(d, &t) {
		for _, xi := range idx {
			for _, yi := range idx {
				if d.take(t.Name, cfg, "pair", xi, yi) {
					c18pair(d, &t, cfg, xi, yi)
				}
			}
		}
		if d.take(t.Name, cfg, "crowd", -1, -1) {
			c18crowd(d, &t, cfg, idx)
		}
		if !cfg.DK && cfg.Stack == "zero" {
			for _, xi := range idx {
				for _, yi := range idx {
					if t.Keys[xi].K != t.Keys[yi].K && t.Keys[xi].K == t.Keys[xi].K && t.Keys[yi].K == t.Keys[yi].K && d.take(t.Name, cfg, "fault", xi, yi) {
						c18fault(d, &t, cfg, xi, yi)
					}
					if t.Keys[xi].K == t.Keys[xi].K && t.Keys[yi].K == t.Keys[yi].K && d.take(t.Name, cfg, "hybrid-pair", xi, yi) {
						c18hybridPair(d, &t, cfg, xi, yi)
					}
				}
			}
		}
	}
	d.perType[t.Name] = d.res.States - before
}

func (d *c18drv) violate(clause, step string, cost int, typ, class string, cfg c18cfg, repr string, rp c18replay, detail string) {
	phase := "pair"
	if strings.HasPrefix(step, "crowd") {
		phase = "crowd"
	}
	if strings.HasPrefix(step, "fault") {
		phase = "fault"
	}
	if strings.HasPrefix(step, "hybrid") {
		phase = "hybrid-pair"
	}
	_ = repr
	sig := fmt.Sprintf("class=%s hash=%s dk=%v stack=%s phase=%s", class, cfg.Hash, cfg.DK, cfg.Stack, phase)
	rp.Tier, rp.Go = d.env.Tier, runtime.Version()
	d.res.Violate(clause, sig, "toolchain "+runtime.Version()+", key type "+typ+", "+cfg.String()+"\n"+detail, cost, rp)
}

const c18v1, c18v2 = 1001, 2002

func c18pair[K comparable](d *c18drv, t *vc18.Type[K], cfg c18cfg, xi, yi int) {
	x, y := &t.Keys[xi], &t.Keys[yi]
	eq := x.K == y.K
	xr, yr := x.K == x.K, y.K == y.K // false for NaN-carrying keys
	repr := "differ"
	if vc18.ReprEqual(&x.K, &y.K) {
		repr = "same"
	}
	rp := c18replay{Type: t.Name, Cfg: cfg, Phase: "pair", X: xi, Y: yi, XLbl: x.Label(), YLbl: y.Label()}
	cost := (x.Rank+y.Rank)*100 + xi + yi
	if xi != yi {
		cost += 50
	}
	d.res.States++
	d.res.Executions++
	var log []string
	fail := func(clause, step, what string) {
		detail := fmt.Sprintf("x = %s\ny = %s\nx==y: %v   identical bytes in memory: %v   size %d, padding %v, register-passed %v\nops: %s\nVIOLATED at step %s: %s",
			x.Label(), y.Label(), eq, repr == "same", t.Size, t.HasPad, t.RegABI, strings.Join(log, "; "), step, what)
		d.violate(clause, step, cost, t.Name, t.Class, cfg, repr, rp, detail)
	}
	c := c18build(t, cfg, 1000)
	defer func() {
		if r := recover(); r != nil {
			fail("panic", "any", fmt.Sprint("panic: ", r))
		}
		c.Close()
	}()
	calls := 0
	prep := func() {
		if cfg.Stack == "dirty" {
			vc18.Dirty(c18fills[calls%len(c18fills)])
		} else {
			vc18.Dirty(0)
		}
		calls++
		d.res.Transitions++
	}
	set := func(name string, k *vc18.Key[K], v int) bool {
		max := 1
		if cfg.DK {
			max = 4 // the doorkeeper drops the first Set of an unseen hash: that is not this property's business
		}
		for i := 1; i <= max; i++ {
			prep()
			ok := c.Set(k.K, v, 1)
			log = append(log, fmt.Sprintf("Set(%s,%d)=%v", name, v, ok))
			if ok {
				return true
			}
		}
		return false
	}
	get := func(name string, k *vc18.Key[K]) string {
		prep()
		v, ok := c.Get(k.K)
		r := "miss"
		if ok {
			r = fmt.Sprint(v)
		}
		log = append(log, fmt.Sprintf("Get(%s)=%s", name, r))
		return r
	}
	outcome := func(s string) {
		d.res.Outcome(fmt.Sprintf("%s|%s|eq=%v refl=%v%v|%s", t.Class, cfg, eq, xr, yr, s))
		if len(d.res.Samples) < d.res.MaxSamples && xi != yi && eq {
			d.res.Sample(map[string]any{"type": t.Name, "cfg": cfg.String(), "x": x.Label(), "y": y.Label(), "x==y": eq, "ops": strings.Join(log, "; ")})
		}
	}
	s1, s2 := fmt.Sprint(c18v1), fmt.Sprint(c18v2)

	// 1
	if !set("x", x, c18v1) {
		outcome("x never admitted")
		return
	}
	// 2
	g := get("y", y)
	if eq && g != s1 {
		fail("equal-miss", "2", "Get(y) after Set(x,1001) gave "+g+", expected 1001 because x==y")
		return
	}
	if !eq && g != "miss" {
		fail("distinct-alias", "2", "Get(y) after Set(x,1001) gave "+g+", expected a miss because x!=y")
		return
	}
	// 3
	if !set("y", y, c18v2) {
		outcome("y never admitted")
		return
	}
	// 4
	g = get("x", x)
	switch {
	case eq && g == s1:
		fail("equal-stale", "4", "Get(x) after Set(y,2002) still gives 1001 although x==y: the second Set went to a different entry")
		return
	case eq && g != s2:
		fail("equal-miss", "4", "Get(x) after Set(y,2002) gave "+g+", expected 2002 because x==y")
		return
	case !eq && xr && g == s2:
		fail("distinct-alias", "4", "Get(x) gives y's value 2002 although x!=y")
		return
	case !eq && xr && g != s1:
		fail("equal-miss", "4", "Get(x) gave "+g+" after Set(x,1001) and a Set of a different key, expected 1001")
		return
	case !xr && g != "miss":
		fail("distinct-alias", "4", "Get(x) hit ("+g+") although x!=x")
		return
	}
	// 5
	g = get("y", y)
	if yr && g != s2 {
		fail("equal-miss", "5", "Get(y) after Set(y,2002) gave "+g+", expected 2002")
		return
	}
	if !yr && g != "miss" {
		fail("distinct-alias", "5", "Get(y) hit ("+g+") although y!=y")
		return
	}
	// 6
	prep()
	n := c.Len()
	log = append(log, fmt.Sprintf("Len()=%d", n))
	if eq && n != 1 {
		fail("equal-duplicate", "6", fmt.Sprintf("Len()=%d after Set(x), Set(y) with x==y: two entries for one key", n))
		return
	}
	if !eq && n != 2 {
		fail("distinct-merged", "6", fmt.Sprintf("Len()=%d after Set(x), Set(y) with x!=y, expected 2", n))
		return
	}
	// 7
	prep()
	c.Delete(x.K)
	log = append(log, "Delete(x)")
	g = get("y", y)
	if eq && g != "miss" {
		fail("equal-delete-miss", "7", "Get(y) after Delete(x) gave "+g+" although x==y")
		return
	}
	if !eq && yr && g != s2 {
		// whose entry did Delete(x) remove? x still readable -> it removed y's (aliasing); x gone -> y is
		// simply not reachable through itself any more
		if gx := get("x", x); xr && gx != "miss" {
			fail("distinct-alias", "7", "after Delete(x): Get(y) gave "+g+" and Get(x) still gives "+gx+": Delete(x) removed y's entry although x!=y")
		} else {
			fail("equal-miss", "7", "Get(y) gave "+g+" after Set(y,2002) and the Delete of a different key, expected 2002")
		}
		return
	}
	// 8
	g = get("x", x)
	if g != "miss" {
		fail("equal-delete-miss", "8", "Get(x) after Delete(x) gave "+g)
		return
	}
	outcome(strings.Join(log, ";"))
}

// c18Sec: a secondary tier over a Go map whose Get panics once for one key (a fault in user code).
type c18Sec[K comparable] struct {
	mu    sync.Mutex
	m     map[K]int
	armed *K
}

func (s *c18Sec[K]) Get(k K) (int, int64, int64, bool, error) {
	s.mu.Lock()
	defer s.mu.Unlock()
	if s.armed != nil && *s.armed == k {
		s.armed = nil
		panic("c18: secondary tier fault")
	}
	v, ok := s.m[k]
	return v, 1, 0, ok, nil
}
func (s *c18Sec[K]) Set(k K, v int, cost int64, expire int64) error {
	s.mu.Lock()
	defer s.mu.Unlock()
	s.m[k] = v
	return nil
}
func (s *c18Sec[K]) Delete(k K) error {
	s.mu.Lock()
	defer s.mu.Unlock()
	delete(s.m, k)
	return nil
}
func (s *c18Sec[K]) HandleAsyncError(error) {}

// c18fault: the two-tier cache, two different keys whose values live in the secondary tier only; the
// lookup of x faults inside the secondary tier (the caller recovers, as a request handler would);
// afterwards y and then x are looked up: each must be answered with its own value. The shared
// per-shard lookup record must not carry one key's answer over to the other.
func c18fault[K comparable](d *c18drv, t *vc18.Type[K], cfg c18cfg, xi, yi int) {
	x, y := &t.Keys[xi], &t.Keys[yi]
	rp := c18replay{Type: t.Name, Cfg: cfg, Phase: "fault", X: xi, Y: yi, XLbl: x.Label(), YLbl: y.Label()}
	cost := (x.Rank+y.Rank)*100 + xi + yi + 60
	d.res.States++
	d.res.Executions++
	var log []string
	fail := func(clause, what string) {
		detail := fmt.Sprintf("two-tier cache, x = %s\ny = %s\nops: %s\nVIOLATED: %s", x.Label(), y.Label(), strings.Join(log, "; "), what)
		d.violate(clause, "fault", cost, t.Name, t.Class, cfg, "", rp, detail)
	}
	sec := &c18Sec[K]{m: map[K]int{x.K: c18v1, y.K: c18v2}}
	b := NewBuilder[K, int](1000)
	switch cfg.Hash {
	case "collide":
		b.StringKey(func(K) string { return "c18-every-key-the-same" })
	case "strkey":
		b.StringKey(t.StrKey)
	}
	c, err := b.Hybrid(sec).Workers(1).Build()
	if err != nil {
		panic(err)
	}
	defer c.Close()
	get := func(name string, k *vc18.Key[K]) (r string) {
		vc18.Dirty(0)
		d.res.Transitions++
		defer func() {
			if p := recover(); p != nil {
				r = "panic"
			}
			log = append(log, fmt.Sprintf("Get(%s)=%s", name, r))
		}()
		v, ok, err := c.Get(k.K)
		switch {
		case err != nil:
			return "error"
		case ok:
			return fmt.Sprint(v)
		}
		return "miss"
	}
	sec.armed = &x.K
	log = append(log, "secondary tier armed to fault once on x")
	g0 := get("x", x)
	if g0 != "panic" && g0 != "error" && g0 != fmt.Sprint(c18v1) {
		fail("distinct-alias", "the faulting Get(x) gave "+g0)
		return
	}
	if g := get("y", y); g != fmt.Sprint(c18v2) {
		fail(map[bool]string{true: "distinct-alias", false: "equal-miss"}[g == fmt.Sprint(c18v1)], "Get(y) after the recovered fault on x gave "+g+", expected y's own value 2002")
		return
	}
	if g := get("x", x); g != fmt.Sprint(c18v1) {
		fail(map[bool]string{true: "distinct-alias", false: "equal-miss"}[g == fmt.Sprint(c18v2)], "Get(x) after the recovered fault gave "+g+", expected x's own value 1001 (2002 is y's)")
		return
	}
	if g := get("y", y); g != fmt.Sprint(c18v2) {
		fail("distinct-alias", "second Get(y) gave "+g)
		return
	}
	d.res.Outcome(fmt.Sprintf("%s|%s|fault|%s", t.Class, cfg, strings.Join(log, ";")))
}

// c18hybridPair: the pair protocol (Set x; Get y; Set y; Get x) on the two-tier kinds, built the two ways the exported
// builder offers (Builder.Hybrid and Builder.Hybrid().Loading()): the option wiring of those paths - the StringKey
// function above all - is part of what "equal keys address the same entry" promises there.
func c18hybridPair[K comparable](d *c18drv, t *vc18.Type[K], cfg c18cfg, xi, yi int) {
	x, y := &t.Keys[xi], &t.Keys[yi]
	eq := x.K == y.K
	for _, kind := range []string{"hybrid", "hybrid-loading"} {
		rp := c18replay{Type: t.Name, Cfg: cfg, Phase: "hybrid-pair", X: xi, Y: yi, XLbl: x.Label(), YLbl: y.Label()}
		cost := (x.Rank+y.Rank)*100 + xi + yi + 70
		d.res.States++
		d.res.Executions++
		var log []string
		fail := func(clause, what string) {
			detail := fmt.Sprintf("%s cache built through the exported builder, x = %s\ny = %s\nx==y: %v\nops: %s\nVIOLATED: %s", kind, x.Label(), y.Label(), eq, strings.Join(log, "; "), what)
			d.violate(clause, "hybrid:"+kind, cost, t.Name, t.Class, cfg, "", rp, detail)
		}
		sec := &c18Sec[K]{m: map[K]int{}}
		b := NewBuilder[K, int](1000)
		switch cfg.Hash {
		case "collide":
			b.StringKey(func(K) string { return "c18-every-key-the-same" })
		case "strkey":
			b.StringKey(t.StrKey)
		}
		var set func(k K, v int) bool
		var get func(k K) (int, bool)
		var closeFn func()
		if kind == "hybrid" {
			c, err := b.Hybrid(sec).Workers(1).Build()
			if err != nil {
				panic(err)
			}
			set = func(k K, v int) bool { return c.Set(k, v, 1) }
			get = func(k K) (int, bool) { v, ok, _ := c.Get(k); return v, ok }
			closeFn = c.Close
		} else {
			c, err := b.Hybrid(sec).Workers(1).Loading(func(ctx context.Context, k K) (Loaded[int], error) {
				return Loaded[int]{}, errors.New("c18: not loadable")
			}).Build()
			if err != nil {
				panic(err)
			}
			set = func(k K, v int) bool { return c.Set(k, v, 1) }
			get = func(k K) (int, bool) { v, err := c.Get(context.Background(), k); return v, err == nil }
			closeFn = c.Close
		}
		step := func(name string, k *vc18.Key[K], want int, hit bool) bool {
			vc18.Dirty(0)
			d.res.Transitions++
			v, ok := get(k.K)
			log = append(log, fmt.Sprintf("Get(%s)=%d,%v", name, v, ok))
			if ok != hit || (hit && v != want) {
				clause := "equal-miss"
				if !eq {
					clause = "distinct-alias"
				}
				fail(clause, fmt.Sprintf("Get(%s) gave (%d,%v), expected (%d,%v)", name, v, ok, want, hit))
				return false
			}
			return true
		}
		func() {
			defer closeFn()
			vc18.Dirty(0)
			log = append(log, fmt.Sprintf("Set(x,%d)=%v", c18v1, set(x.K, c18v1)))
			if !step("y", y, c18v1, eq) {
				return
			}
			vc18.Dirty(0)
			log = append(log, fmt.Sprintf("Set(y,%d)=%v", c18v2, set(y.K, c18v2)))
			want := c18v1
			if eq {
				want = c18v2
			}
			if !step("x", x, want, true) {
				return
			}
			d.res.Outcome(fmt.Sprintf("%s|%s|hybrid-pair|%s|%v", t.Class, cfg, kind, eq))
		}()
	}
}

// c18crowd: capacity 3, all catalogue keys competing (in the collide configurations: one shard, one
// set of sketch counters, one set of doorkeeper bits), three rounds of Sets; afterwards no key may read
// another class's value, and Range must not show two entries whose keys are equal.
func c18crowd[K comparable](d *c18drv, t *vc18.Type[K], cfg c18cfg, idx []int) {
	rp := c18replay{Type: t.Name, Cfg: cfg, Phase: "crowd", X: -1, Y: -1}
	d.res.States++
	d.res.Executions++
	cls := map[int]int{} // catalogue index -> representative index of its == class
	for a, i := range idx {
		cls[i] = i
		for _, j := range idx[:a] {
			if t.Keys[j].K == t.Keys[i].K {
				cls[i] = cls[j]
				break
			}
		}
	}
	fail := func(clause, step, what string) {
		d.violate(clause, step, 5000, t.Name, t.Class, cfg, "n/a", rp, fmt.Sprintf("crowd of %d keys, capacity 3\nVIOLATED: %s", len(idx), what))
	}
	c := c18build(t, cfg, 3)
	defer func() {
		if r := recover(); r != nil {
			fail("panic", "crowd", fmt.Sprint("panic: ", r))
		}
		c.Close()
	}()
	calls := 0
	prep := func() {
		if cfg.Stack == "dirty" {
			vc18.Dirty(c18fills[calls%len(c18fills)])
		} else {
			vc18.Dirty(0)
		}
		calls++
		d.res.Transitions++
	}
	for round := 0; round < 3; round++ {
		for _, i := range idx {
			prep()
			c.Set(t.Keys[i].K, 5000+cls[i], 1)
		}
		prep()
		c.Wait()
	}
	hits := 0
	for _, i := range idx {
		prep()
		v, ok := c.Get(t.Keys[i].K)
		if !ok {
			continue
		}
		hits++
		if v != 5000+cls[i] {
			fail("distinct-alias", "crowd-get", fmt.Sprintf("Get(%s) = %d, the value of %s; expected %d or a miss",
				t.Keys[i].Label(), v, c18lbl(t, v-5000), 5000+cls[i]))
			return
		}
	}
	seen := map[int]int{}
	bad := ""
	prep()
	c.Range(func(k K, v int) bool {
		for _, i := range idx {
			if t.Keys[i].K == k {
				if v != 5000+cls[i] {
					bad = fmt.Sprintf("Range shows key %s with value %d (belongs to %s)", t.Keys[i].Label(), v, c18lbl(t, v-5000))
				}
				seen[cls[i]]++
				break
			}
		}
		return true
	})
	if bad != "" {
		fail("distinct-alias", "crowd-range", bad)
		return
	}
	for r, n := range seen {
		if n > 1 && t.Keys[r].K == t.Keys[r].K {
			fail("equal-duplicate", "crowd-range", fmt.Sprintf("Range shows %d entries whose keys all equal %s", n, t.Keys[r].Label()))
			return
		}
	}
	d.res.Outcome(fmt.Sprintf("%s|%s|crowd hits=%d range=%d", t.Class, cfg, hits, len(seen)))
}

func c18lbl[K comparable](t *vc18.Type[K], i int) string {
	if i >= 0 && i < len(t.Keys) {
		return t.Keys[i].Label()
	}
	return fmt.Sprintf("nobody (%d)", i)
}

func c18all(d *c18drv) {
	c18run(d, vc18.Int8())
	c18run(d, vc18.Int16())
	c18run(d, vc18.Int32())
	c18run(d, vc18.Int64())
	c18run(d, vc18.Int())
	c18run(d, vc18.NamedInt())
	c18run(d, vc18.Uint8())
	c18run(d, vc18.Uint16())
	c18run(d, vc18.Uint32())
	c18run(d, vc18.Uint64())
	c18run(d, vc18.Uint())
	c18run(d, vc18.Uintptr())
	c18run(d, vc18.Bool())
	c18run(d, vc18.Pointer())
	c18run(d, vc18.String())
	c18run(d, vc18.NamedString())
	c18run(d, vc18.Array3Int32())
	c18run(d, vc18.Array2Bool())
	c18run(d, vc18.EmptyStruct())
	c18run(d, vc18.StructPair32())
	c18run(d, vc18.StructPtrWord())
	c18run(d, vc18.StructNested())
	c18run(d, vc18.StructPadLead())
	c18run(d, vc18.StructPadTrail())
	c18run(d, vc18.StructPadMid())
	c18run(d, vc18.StructPadNest())
	c18run(d, vc18.StructPadNestOff())
	c18run(d, vc18.StructPadDeep())
	c18run(d, vc18.StructPadPtr())
	c18run(d, vc18.ArrayPadLead())
	c18run(d, vc18.StructPadWide())
	c18run(d, vc18.StructPadMany())
	c18run(d, vc18.StructStrInt())
	// outside the pre-1.24 claim: there only the StringKey configurations run (see c18cfgs)
	c18run(d, vc18.Array2String())
	c18run(d, vc18.Float64())
	c18run(d, vc18.Float32())
	c18run(d, vc18.Complex128())
	c18run(d, vc18.StructFloat())
	c18run(d, vc18.Iface())
	c18run(d, vc18.Chan())
}

func TestVerif_C18Pairs(t *testing.T) {
	env := vh.Env()
	res := vh.NewResult("C18/pairs", "EX-ENUM", env)
	defer res.Write()
	want := env.Params["tc"]
	if (want == "go124") != c18Go124 || want == "" {
		res.Error = fmt.Sprintf("scenario wants toolchain class %q but the binary was built by %s", want, runtime.Version())
		return
	}
	d := &c18drv{env: env, res: res, perType: map[string]int64{}}
	if env.Thorough() {
		d.lvl = 1
	}
	if env.Replay != "" {
		d.rep = &c18replay{}
		if err := vh.LoadReplay(env.Replay, d.rep); err != nil {
			res.Error = err.Error()
			return
		}
		if d.rep.Tier == "thorough" {
			d.lvl = 1
		}
	}
	c18all(d)
	res.Bounds["toolchain"] = runtime.Version()
	res.Bounds["key_types"] = d.types
	res.Bounds["catalogue_level"] = d.lvl
	res.Bounds["cases_per_type"] = d.perType
	res.MaxDepth = 13
	res.Note("%s: %d key types, %d cases (ordered pairs + crowds) on this shard, %d API calls", runtime.Version(), d.types, res.States, res.Transitions)
}
