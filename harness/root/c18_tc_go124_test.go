//go:build verif && vplain && go1.24

package theine

// c18Go124: built by a Go 1.24+ toolchain (hasher = maphash.Comparable).
const c18Go124 = true
