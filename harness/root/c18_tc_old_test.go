//go:build verif && vplain && !go1.24

package theine

// c18Go124: built by a toolchain before Go 1.24 (hasher = xxh3 over the key's memory).
const c18Go124 = false
