// Package instr is the source instrumenter: it rewrites the packages of
// github.com/Yiling-J/theine-go so that every synchronisation operation goes through the
// scheduler runtime vrt (see DESIGN.md §2.1). It never touches /repo: the output is a
// directory of generated files plus overlay entries for `go build -overlay`.
package instr

import (
	"bytes"
	"fmt"
	"go/ast"
	"go/build"
	"go/importer"
	"go/parser"
	"go/printer"
	"go/token"
	"go/types"
	"os"
	"path/filepath"
	"reflect"
	"sort"
	"strconv"
	"strings"
)

const Module = "github.com/Yiling-J/theine-go"
const VrtPath = Module + "/internal/vrt"

var importMap = map[string]string{
	"sync":        VrtPath + "/vsync",
	"sync/atomic": VrtPath + "/vatomic",
	"time":        VrtPath + "/vtime",
	"context":     VrtPath + "/vcontext",
	"runtime":     VrtPath + "/vruntime",
}

// Options of one instrumentation run.
type Options struct {
	Coarse map[string]bool   // base file names whose atomics are not scheduling points
	Consts map[string]string // "file.go:name" -> replacement literal for a constant
	Track  *TrackSpec        // happens-before access probes (nil = off)
	Tags   []string
}

type TrackSpec struct {
	Types map[string]bool // named struct types whose fields are tracked
	Maps  map[string]bool // "Type.field" map fields whose index/range/delete are accesses
	// Slices: "Type.field" slice fields whose ELEMENTS are shared state (the backing array is one location):
	// element stores/loads through the field or through a local copy of its header, append, range, and
	// handing the slice to a call
	Slices map[string]bool
}

type Result struct {
	Unprobed []string          // tracked-field selectors without an access probe (diagnostics)
	Files    map[string]string // original absolute path -> generated path
	Stats    map[string]int
	Warnings []string
}

type rw struct {
	fset     *token.FileSet
	info     *types.Info
	n        int
	usedVrt  bool
	usedUns  bool
	stats    map[string]int
	track    *TrackSpec
	file     string
	errs     []string
	unprobed []string
}

func id(s string) *ast.Ident                           { return ast.NewIdent(s) }
func sel(p, n string) ast.Expr                         { return &ast.SelectorExpr{X: id(p), Sel: id(n)} }
func call(fn ast.Expr, args ...ast.Expr) *ast.CallExpr { return &ast.CallExpr{Fun: fn, Args: args} }
func (r *rw) fresh(p string) string                    { r.n++; return fmt.Sprintf("__v%s%d", p, r.n) }

var (
	exprT = reflect.TypeOf((*ast.Expr)(nil)).Elem()
	stmtT = reflect.TypeOf((*ast.Stmt)(nil)).Elem()
	nodeT = reflect.TypeOf((*ast.Node)(nil)).Elem()
)

// rewrite returns the replacement of n (n itself when unchanged), children first.
func (r *rw) rewrite(n ast.Node) ast.Node {
	if n == nil || reflect.ValueOf(n).IsNil() {
		return n
	}
	// pre-order special forms
	switch x := n.(type) {
	case *ast.SelectStmt:
		return r.selectStmt(x)
	case *ast.AssignStmt:
		if len(x.Lhs) == 2 && len(x.Rhs) == 1 {
			if u, ok := unparen(x.Rhs[0]).(*ast.UnaryExpr); ok && u.Op == token.ARROW {
				r.usedVrt = true
				r.stats["recv2"]++
				x.Rhs[0] = call(sel("vrt", "Recv2"), r.rewrite(u.X).(ast.Expr))
				for i := range x.Lhs {
					x.Lhs[i] = r.rewrite(x.Lhs[i]).(ast.Expr)
				}
				return x
			}
		}
	case *ast.ValueSpec:
		if len(x.Names) == 2 && len(x.Values) == 1 {
			if u, ok := unparen(x.Values[0]).(*ast.UnaryExpr); ok && u.Op == token.ARROW {
				r.usedVrt = true
				r.stats["recv2"]++
				x.Values[0] = call(sel("vrt", "Recv2"), r.rewrite(u.X).(ast.Expr))
				return x
			}
		}
	case *ast.RangeStmt:
		if r.isChan(x.X) {
			return r.rangeChan(x)
		}
	}
	r.children(n)
	// post-order
	switch x := n.(type) {
	case *ast.UnaryExpr:
		if x.Op == token.ARROW {
			r.usedVrt = true
			r.stats["recv"]++
			return call(sel("vrt", "Recv"), x.X)
		}
	case *ast.SendStmt:
		r.usedVrt = true
		r.stats["send"]++
		return &ast.ExprStmt{X: call(sel("vrt", "Send"), x.Chan, x.Value)}
	case *ast.GoStmt:
		r.usedVrt = true
		r.stats["go"]++
		var pre []ast.Stmt
		for i, a := range x.Call.Args {
			if !pureArg(a) {
				tmp := r.fresh("a")
				pre = append(pre, &ast.AssignStmt{Lhs: []ast.Expr{id(tmp)}, Tok: token.DEFINE, Rhs: []ast.Expr{a}})
				x.Call.Args[i] = id(tmp)
			}
		}
		spawn := &ast.ExprStmt{X: call(sel("vrt", "Go"), &ast.FuncLit{
			Type: &ast.FuncType{Params: &ast.FieldList{}},
			Body: &ast.BlockStmt{List: []ast.Stmt{&ast.ExprStmt{X: x.Call}}},
		})}
		if len(pre) == 0 {
			return spawn
		}
		return &ast.BlockStmt{List: append(pre, spawn)}
	case *ast.CallExpr:
		if f, ok := x.Fun.(*ast.Ident); ok && f.Name == "close" && len(x.Args) == 1 && r.isBuiltin(f) {
			r.usedVrt = true
			r.stats["close"]++
			return call(sel("vrt", "Close"), x.Args[0])
		}
	}
	return n
}

func unparen(e ast.Expr) ast.Expr {
	for {
		p, ok := e.(*ast.ParenExpr)
		if !ok {
			return e
		}
		e = p.X
	}
}

func pureArg(e ast.Expr) bool {
	switch x := e.(type) {
	case *ast.Ident, *ast.BasicLit:
		return true
	case *ast.SelectorExpr:
		return pureArg(x.X)
	}
	return false
}

func (r *rw) isBuiltin(f *ast.Ident) bool {
	if r.info == nil {
		return true
	}
	if o, ok := r.info.Uses[f]; ok {
		_, b := o.(*types.Builtin)
		return b
	}
	return true
}

func (r *rw) isChan(e ast.Expr) bool {
	if r.info == nil {
		return false
	}
	tv, ok := r.info.Types[e]
	if !ok || tv.Type == nil {
		return false
	}
	_, is := tv.Type.Underlying().(*types.Chan)
	return is
}

// children rewrites every child node of n in place (reflection over the ast structs).
func (r *rw) children(n ast.Node) {
	v := reflect.ValueOf(n)
	if v.Kind() != reflect.Ptr || v.Elem().Kind() != reflect.Struct {
		return
	}
	s := v.Elem()
	for i := 0; i < s.NumField(); i++ {
		f := s.Field(i)
		if !f.CanSet() {
			continue
		}
		switch f.Kind() {
		case reflect.Interface, reflect.Ptr:
			if f.IsNil() || !f.Type().Implements(nodeT) {
				continue
			}
			// do not descend into Obj / Scope back pointers
			if f.Type() == reflect.TypeOf((*ast.Object)(nil)) || f.Type() == reflect.TypeOf((*ast.Scope)(nil)) {
				continue
			}
			child := f.Interface().(ast.Node)
			nn := r.rewrite(child)
			if nn != child {
				nv := reflect.ValueOf(nn)
				if !nv.Type().AssignableTo(f.Type()) {
					r.errs = append(r.errs, fmt.Sprintf("%s: cannot place %T where %s is required", r.file, nn, f.Type()))
					continue
				}
				f.Set(nv)
			}
		case reflect.Slice:
			et := f.Type().Elem()
			if !(et.Kind() == reflect.Interface || et.Kind() == reflect.Ptr) || !et.Implements(nodeT) {
				continue
			}
			for j := 0; j < f.Len(); j++ {
				e := f.Index(j)
				if e.IsNil() {
					continue
				}
				child := e.Interface().(ast.Node)
				nn := r.rewrite(child)
				if nn != child {
					nv := reflect.ValueOf(nn)
					if !nv.Type().AssignableTo(et) {
						r.errs = append(r.errs, fmt.Sprintf("%s: cannot place %T in slice of %s", r.file, nn, et))
						continue
					}
					e.Set(nv)
				}
			}
		}
	}
}

// for v := range ch { body }  =>  for { v, ok := vrt.Recv2(ch); if !ok { break }; body }
// (a `continue` in body still re-enters the loop head, as in the original)
func (r *rw) rangeChan(x *ast.RangeStmt) ast.Stmt {
	r.usedVrt = true
	r.stats["rangechan"]++
	ch := r.rewrite(x.X).(ast.Expr)
	body := r.rewrite(x.Body).(*ast.BlockStmt)
	okv := r.fresh("ok")
	var key ast.Expr = id("_")
	tok := token.DEFINE
	if x.Key != nil {
		key = x.Key
		if x.Tok == token.ASSIGN {
			tok = token.ASSIGN
		}
	}
	var recv ast.Stmt
	if tok == token.ASSIGN {
		// v = range ch with pre-declared v: declare ok separately
		recv = &ast.BlockStmt{} // unreachable in this code base; keep simple and loud
		r.errs = append(r.errs, r.file+": range over channel with '=' is not supported")
	} else {
		recv = &ast.AssignStmt{Lhs: []ast.Expr{key, id(okv)}, Tok: token.DEFINE, Rhs: []ast.Expr{call(sel("vrt", "Recv2"), ch)}}
	}
	brk := &ast.IfStmt{Cond: &ast.UnaryExpr{Op: token.NOT, X: id(okv)}, Body: &ast.BlockStmt{List: []ast.Stmt{&ast.BranchStmt{Tok: token.BREAK}}}}
	list := append([]ast.Stmt{recv, brk}, body.List...)
	return &ast.ForStmt{Body: &ast.BlockStmt{List: list}}
}

// select { case <-a: A; case v := <-b: B; case c <- x: C; default: D }
// =>
// { c0 := vrt.RecvCase(a); c1 := vrt.RecvCase(b); c2 := vrt.SendCase(c, x)
//
//	switch vrt.Select(hasDefault, c0, c1, c2) { case 0: A; case 1: v := c1.V; B; case 2: C; default: D } }
//
// `break` inside a select arm leaves the select; inside the generated switch it leaves the
// switch — the same target. Labeled breaks are untouched.
func (r *rw) selectStmt(s *ast.SelectStmt) ast.Stmt {
	r.usedVrt = true
	r.stats["select"]++
	var pre []ast.Stmt
	var cases []ast.Stmt
	var args []ast.Expr
	hasDefault := "false"
	idx := 0
	for _, c := range s.Body.List {
		cc := c.(*ast.CommClause)
		var body []ast.Stmt
		for _, st := range cc.Body {
			body = append(body, r.rewrite(st).(ast.Stmt))
		}
		if cc.Comm == nil {
			hasDefault = "true"
			cases = append(cases, &ast.CaseClause{List: nil, Body: body})
			continue
		}
		name := r.fresh("c")
		var mk ast.Expr
		var bind []ast.Stmt
		switch cm := cc.Comm.(type) {
		case *ast.SendStmt:
			mk = call(sel("vrt", "SendCase"), r.rewrite(cm.Chan).(ast.Expr), r.rewrite(cm.Value).(ast.Expr))
		case *ast.ExprStmt:
			u := unparen(cm.X).(*ast.UnaryExpr)
			mk = call(sel("vrt", "RecvCase"), r.rewrite(u.X).(ast.Expr))
		case *ast.AssignStmt:
			u := unparen(cm.Rhs[0]).(*ast.UnaryExpr)
			mk = call(sel("vrt", "RecvCase"), r.rewrite(u.X).(ast.Expr))
			rhs := []ast.Expr{&ast.SelectorExpr{X: id(name), Sel: id("V")}}
			if len(cm.Lhs) == 2 {
				rhs = append(rhs, &ast.SelectorExpr{X: id(name), Sel: id("OK")})
			}
			bind = append(bind, &ast.AssignStmt{Lhs: cm.Lhs, Tok: cm.Tok, Rhs: rhs})
			for _, l := range cm.Lhs { // silence "declared and not used"
				if li, ok := l.(*ast.Ident); ok && li.Name != "_" && cm.Tok == token.DEFINE {
					bind = append(bind, &ast.AssignStmt{Lhs: []ast.Expr{id("_")}, Tok: token.ASSIGN, Rhs: []ast.Expr{id(li.Name)}})
				}
			}
		}
		pre = append(pre, &ast.AssignStmt{Lhs: []ast.Expr{id(name)}, Tok: token.DEFINE, Rhs: []ast.Expr{mk}})
		args = append(args, id(name))
		cases = append(cases, &ast.CaseClause{
			List: []ast.Expr{&ast.BasicLit{Kind: token.INT, Value: strconv.Itoa(idx)}},
			Body: append(bind, body...),
		})
		idx++
	}
	if hasDefault == "false" {
		// vrt.Select always returns a case index here; the default clause keeps the switch a
		// terminating statement when the original select was one (all arms return)
		cases = append(cases, &ast.CaseClause{List: nil, Body: []ast.Stmt{
			&ast.ExprStmt{X: call(id("panic"), &ast.BasicLit{Kind: token.STRING, Value: strconv.Quote("vrt.Select: no case fired")})},
		}})
	}
	sw := &ast.SwitchStmt{
		Tag:  call(sel("vrt", "Select"), append([]ast.Expr{id(hasDefault)}, args...)...),
		Body: &ast.BlockStmt{List: cases},
	}
	return &ast.BlockStmt{List: append(pre, sw)}
}

// Package instruments the non-test Go files of the package in dir that the current
// toolchain would compile, writing the results under outDir.
func Package(dir, outDir string, opts Options) (*Result, error) {
	res := &Result{Files: map[string]string{}, Stats: map[string]int{}}
	ctx := build.Default
	ctx.BuildTags = append(ctx.BuildTags, opts.Tags...)
	bp, err := ctx.ImportDir(dir, 0)
	if err != nil {
		return nil, fmt.Errorf("import %s: %w", dir, err)
	}
	fset := token.NewFileSet()
	var files []*ast.File
	var names []string
	for _, n := range bp.GoFiles {
		f, err := parser.ParseFile(fset, filepath.Join(dir, n), nil, parser.SkipObjectResolution)
		if err != nil {
			return nil, err
		}
		files = append(files, f)
		names = append(names, n)
	}
	info := &types.Info{
		Types:      map[ast.Expr]types.TypeAndValue{},
		Uses:       map[*ast.Ident]types.Object{},
		Defs:       map[*ast.Ident]types.Object{},
		Selections: map[*ast.SelectorExpr]*types.Selection{},
	}
	cwd, _ := os.Getwd()
	if err := os.Chdir(dir); err != nil {
		return nil, err
	}
	conf := types.Config{Importer: importer.ForCompiler(fset, "source", nil), Error: func(err error) {
		res.Warnings = append(res.Warnings, "typecheck: "+err.Error())
	}}
	_, _ = conf.Check(bp.ImportPath, fset, files, info)
	_ = os.Chdir(cwd)
	if len(res.Warnings) > 0 {
		return res, fmt.Errorf("type check of %s failed: %s", dir, strings.Join(res.Warnings, "; "))
	}
	if err := os.MkdirAll(outDir, 0o755); err != nil {
		return nil, err
	}
	for i, f := range files {
		name := names[i]
		r := &rw{fset: fset, info: info, stats: res.Stats, track: opts.Track, file: name}
		for k, v := range opts.Consts {
			parts := strings.SplitN(k, ":", 2)
			if parts[0] == name {
				if !replaceConst(f, parts[1], v) {
					return nil, fmt.Errorf("const %s not found in %s", parts[1], name)
				}
			}
		}
		if r.track != nil {
			r.trackFile(f)
			res.Unprobed = append(res.Unprobed, r.unprobed...)
		}
		for j, d := range f.Decls {
			f.Decls[j] = r.rewrite(d).(ast.Decl)
		}
		if len(r.errs) > 0 {
			return nil, fmt.Errorf("instrument %s: %s", name, strings.Join(r.errs, "; "))
		}
		coarse := opts.Coarse[name]
		for _, im := range f.Imports {
			p, _ := strconv.Unquote(im.Path.Value)
			if np, ok := importMap[p]; ok {
				if p == "sync/atomic" && coarse {
					np = VrtPath + "/vatomicq"
				}
				if im.Name == nil {
					im.Name = id(p[strings.LastIndex(p, "/")+1:])
				}
				im.Path.Value = strconv.Quote(np)
				res.Stats["import:"+p]++
			}
		}
		var extra []ast.Spec
		if r.usedVrt {
			extra = append(extra, &ast.ImportSpec{Name: id("vrt"), Path: &ast.BasicLit{Kind: token.STRING, Value: strconv.Quote(VrtPath)}})
		}
		if r.usedUns && !imports(f, "unsafe") {
			extra = append(extra, &ast.ImportSpec{Name: id("unsafe"), Path: &ast.BasicLit{Kind: token.STRING, Value: strconv.Quote("unsafe")}})
		}
		if len(extra) > 0 {
			f.Decls = append([]ast.Decl{&ast.GenDecl{Tok: token.IMPORT, Lparen: 1, Specs: extra}}, f.Decls...)
		}
		f.Comments = nil
		f.Doc = nil
		var b bytes.Buffer
		cfg := printer.Config{Mode: printer.UseSpaces | printer.TabIndent | printer.SourcePos, Tabwidth: 8}
		if err := cfg.Fprint(&b, fset, f); err != nil {
			return nil, fmt.Errorf("print %s: %w", name, err)
		}
		src := b.Bytes()
		if err := verify(name, src); err != nil {
			return nil, err
		}
		out := filepath.Join(outDir, name)
		if err := os.WriteFile(out, src, 0o644); err != nil {
			return nil, err
		}
		res.Files[filepath.Join(dir, name)] = out
	}
	// files the toolchain ignores stay ignored: nothing to do. Record what was seen.
	sort.Strings(names)
	return res, nil
}

func imports(f *ast.File, path string) bool {
	for _, im := range f.Imports {
		if p, _ := strconv.Unquote(im.Path.Value); p == path {
			return true
		}
	}
	return false
}

func replaceConst(f *ast.File, name, val string) bool {
	found := false
	for _, d := range f.Decls {
		gd, ok := d.(*ast.GenDecl)
		if !ok || gd.Tok != token.CONST {
			continue
		}
		for _, sp := range gd.Specs {
			vs := sp.(*ast.ValueSpec)
			for i, n := range vs.Names {
				if n.Name == name && i < len(vs.Values) {
					vs.Values[i] = &ast.BasicLit{Kind: token.INT, Value: val, ValuePos: vs.Values[i].Pos()}
					found = true
				}
			}
		}
	}
	return found
}

// verify re-parses the output and fails if any construct escaped the scheduler.
func verify(name string, src []byte) error {
	fset := token.NewFileSet()
	f, err := parser.ParseFile(fset, name, src, 0)
	if err != nil {
		return fmt.Errorf("generated %s does not parse: %w", name, err)
	}
	var bad []string
	ast.Inspect(f, func(n ast.Node) bool {
		switch x := n.(type) {
		case *ast.SendStmt:
			bad = append(bad, "send statement")
		case *ast.SelectStmt:
			bad = append(bad, "select statement")
		case *ast.GoStmt:
			bad = append(bad, "go statement")
		case *ast.UnaryExpr:
			if x.Op == token.ARROW {
				bad = append(bad, "receive expression")
			}
		}
		return true
	})
	for _, im := range f.Imports {
		p, _ := strconv.Unquote(im.Path.Value)
		if _, ok := importMap[p]; ok {
			bad = append(bad, "import "+p)
		}
		if p == "math/rand" || p == "math/rand/v2" {
			// allowed: seeded PRNG (s.rg) is deterministic; Fastrand is replaced wholesale
		}
	}
	if len(bad) > 0 {
		return fmt.Errorf("instrumenter left un-scheduled constructs in %s: %s", name, strings.Join(bad, ", "))
	}
	return nil
}

// FastrandFile is the replacement of internal/xruntime/rand_1.22.go.
const FastrandFile = `//go:build go1.22

package xruntime

import (
	"math/rand/v2"

	"` + VrtPath + `"
)

func Fastrand() uint32 {
	if vrt.On() {
		return vrt.Rand("fastrand")
	}
	return rand.Uint32()
}
`
