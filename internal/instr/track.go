package instr

import (
	"fmt"
	"go/ast"
	"go/token"
	"go/types"
	"strconv"
)

// Happens-before access probes (DESIGN.md §3.5).
//
// For every simple statement, the plain reads and writes of fields of the tracked struct types
// that the statement performs unconditionally are announced to the monitor by calls inserted in
// front of the statement:
//
//	vrt.R(unsafe.Pointer(&x.f), "file.go:123 Type.f")      vrt.W(…)
//	vrt.MR(unsafe.Pointer(&x.m), …) / vrt.MW(…)            map contents (index, range, len, delete, assignment)
//
// The probe set is deliberately an UNDER-approximation, so that the monitor never reports an access
// that does not happen: operands that are evaluated conditionally (right operands of && and ||, `if`
// conditions with an init statement, `else if` / `for` / `case` headers - right operands of && and || get in-place probes, see condOperands), operands behind a call that
// may synchronise before they are evaluated, non-addressable operands and operands whose base expression
// has side effects are not probed. Fields of sync / sync/atomic types are never plain accesses.

// DefaultTrack is the tracking set of DESIGN.md §3.5.
func DefaultTrack() *TrackSpec {
	t := &TrackSpec{Types: map[string]bool{}, Maps: map[string]bool{}, Slices: map[string]bool{}}
	for _, n := range []string{"Entry", "MetaData", "Flag", "Shard", "Store", "LoadingStore", "TinyLfu", "Slru", "List", "TimerWheel",
		"CountMinSketch", "PolicyBuffers", "call", "Group", "RBMutex", "Clock", "SecondaryCacheItem"} {
		t.Types[n] = true
	}
	t.Maps["Shard.hashmap"] = true
	t.Maps["Group.m"] = true
	t.Slices["PolicyBuffers.Returned"] = true
	t.Slices["CountMinSketch.Table"] = true // policy lock
	t.Slices["Store.writeBuffer"] = true    // the policy goroutine's own batch
	return t
}

type probe struct {
	fn   string // R, W, MR, MW, SR, SW
	expr ast.Expr
	site string
	data bool // SR/SW: the location is the backing array of the slice expr (unsafe.SliceData), not &expr
}

type tracker struct {
	probed map[ast.Expr]bool
	r      *rw
	fields map[*types.Var]string // origin field var -> "Type.field"
	maps   map[*types.Var]bool
	slices map[*types.Var]bool
	alias  map[types.Object]string // local variable holding (a re-slicing of) a tracked slice field's header
}

func (r *rw) trackFile(f *ast.File) {
	if r.info == nil || r.track == nil {
		return
	}
	tk := &tracker{probed: map[ast.Expr]bool{}, r: r, fields: map[*types.Var]string{}, maps: map[*types.Var]bool{},
		slices: map[*types.Var]bool{}, alias: map[types.Object]string{}}
	// collect the field objects of the tracked named struct types declared in this package
	seen := map[*types.Package]bool{}
	for _, obj := range r.info.Defs {
		if obj == nil || obj.Pkg() == nil || seen[obj.Pkg()] {
			continue
		}
		seen[obj.Pkg()] = true
		sc := obj.Pkg().Scope()
		for _, name := range sc.Names() {
			tn, ok := sc.Lookup(name).(*types.TypeName)
			if !ok || !r.track.Types[name] {
				continue
			}
			st, ok := tn.Type().Underlying().(*types.Struct)
			if !ok {
				continue
			}
			for i := 0; i < st.NumFields(); i++ {
				fv := st.Field(i)
				if syncType(fv.Type()) {
					continue
				}
				tk.fields[fv] = name + "." + fv.Name()
				if r.track.Maps[name+"."+fv.Name()] {
					tk.maps[fv] = true
				}
				if r.track.Slices[name+"."+fv.Name()] {
					tk.slices[fv] = true
				}
			}
		}
	}
	if len(tk.fields) == 0 {
		return
	}
	// coverage statistics: how many selector expressions denote a tracked field at all
	ast.Inspect(f, func(n ast.Node) bool {
		if se, ok := n.(*ast.SelectorExpr); ok {
			if fv, _ := tk.fieldOf(se); fv != nil {
				r.stats["track:field-selectors"]++
			}
		}
		return true
	})
	for _, d := range f.Decls {
		if fd, ok := d.(*ast.FuncDecl); ok && fd.Body != nil {
			tk.condOperands(fd.Body)
			tk.block(fd.Body)
		}
	}
	// which tracked-field selectors got no probe (diagnostics; many are legitimately not accesses:
	// address-of operands, receivers of pointer methods on embedded struct values)
	ast.Inspect(f, func(n ast.Node) bool {
		if se, ok := n.(*ast.SelectorExpr); ok {
			if fv, name := tk.fieldOf(se); fv != nil && !tk.probed[se] {
				pos := r.fset.Position(se.Pos())
				r.unprobed = append(r.unprobed, fmt.Sprintf("%s:%d %s", r.file, pos.Line, name))
			}
		}
		return true
	})
}

// condOperands gives the right operands of && and || their probes IN PLACE: `a && Y` becomes
// `a && (vrt.Rt(&f1, site) && vrt.Rt(&f2, site) && (Y))` where f1, f2 are the tracked fields Y reads unconditionally
// (the operands nested in Y's own right operands are handled by their own rewriting). The probes run after `a`, before
// Y and only when Y is evaluated, so - unlike statement-level probes - they need no under-approximation. Y with more than
// one real call is left alone (evaluation order of its operands relative to the calls is not fixed), as for statements.
// All probe sets are computed on the original tree before anything is rewritten.
func (tk *tracker) condOperands(body *ast.BlockStmt) {
	type job struct {
		b  *ast.BinaryExpr
		ps []probe
	}
	var jobs []job
	ast.Inspect(body, func(n ast.Node) bool {
		b, ok := n.(*ast.BinaryExpr)
		if !ok || (b.Op != token.LAND && b.Op != token.LOR) {
			return true
		}
		if tk.calls(b.Y) > 1 {
			return true
		}
		var ps []probe
		for _, p := range tk.reads(b.Y) {
			if p.fn == "R" && !p.data {
				ps = append(ps, p)
			}
		}
		if len(ps) > 0 {
			jobs = append(jobs, job{b, ps})
		}
		return true
	})
	for _, j := range jobs {
		var e ast.Expr = &ast.ParenExpr{X: j.b.Y}
		for i := len(j.ps) - 1; i >= 0; i-- {
			p := j.ps[i]
			tk.probed[p.expr] = true
			tk.r.usedVrt, tk.r.usedUns = true, true
			tk.r.stats["probe:Rt"]++
			rt := call(sel("vrt", "Rt"), call(sel("unsafe", "Pointer"), &ast.UnaryExpr{Op: token.AND, X: p.expr}),
				&ast.BasicLit{Kind: token.STRING, Value: strconv.Quote(p.site)})
			e = &ast.BinaryExpr{X: rt, Op: token.LAND, Y: e}
		}
		j.b.Y = &ast.ParenExpr{X: e}
	}
}

// isRt: a call of the probe vrt.Rt inserted by condOperands (it has no type information).
func isRt(e *ast.CallExpr) bool {
	if fs, ok := e.Fun.(*ast.SelectorExpr); ok && fs.Sel.Name == "Rt" {
		if id, ok := fs.X.(*ast.Ident); ok && id.Name == "vrt" {
			return true
		}
	}
	return false
}

func syncType(t types.Type) bool {
	for {
		if p, ok := t.(*types.Pointer); ok {
			t = p.Elem()
			continue
		}
		break
	}
	if n, ok := t.(*types.Named); ok && n.Obj().Pkg() != nil {
		switch n.Obj().Pkg().Path() {
		case "sync", "sync/atomic":
			return true
		}
	}
	if a, ok := t.(*types.Array); ok {
		return syncType(a.Elem())
	}
	return false
}

// block instruments the statements of a block in place.
func (tk *tracker) block(b *ast.BlockStmt) {
	if b == nil {
		return
	}
	b.List = tk.list(b.List)
}

func (tk *tracker) list(in []ast.Stmt) []ast.Stmt {
	var out []ast.Stmt
	for _, s := range in {
		s = tk.normalize(s)
		ps := tk.stmt(s, true)
		for _, p := range ps {
			out = append(out, tk.emit(p))
		}
		out = append(out, s)
	}
	return out
}

// normalize rewrites, without changing behaviour, statement forms whose conditions offer no place for a
// probe, and only where the condition reads a tracked field:
//
//	if init; cond {A} else ...      =>  { init; if cond {A} else ... }      (same scopes: the block stands for the if's implicit one)
//	... else if [init;] cond {B}    =>  ... else { [init;] if cond {B} }
//	for [init]; cond; [post] {A}    =>  for [init]; ; [post] { if !(cond) { break }; A }   (cond is evaluated at the same points)
func (tk *tracker) normalize(s ast.Stmt) ast.Stmt {
	switch x := s.(type) {
	case *ast.IfStmt:
		for e := x; e != nil; {
			next, _ := e.Else.(*ast.IfStmt)
			if next != nil && tk.tracked(next.Cond) {
				e.Else = &ast.BlockStmt{Lbrace: next.Pos(), List: []ast.Stmt{next}, Rbrace: next.End()}
				tk.r.stats["track:else-if-unfolded"]++
				break // the inner if is normalized when the new block is processed
			}
			e = next
		}
		if x.Init != nil && tk.tracked(x.Cond) {
			init := x.Init
			x.Init = nil
			tk.r.stats["track:if-init-unfolded"]++
			return &ast.BlockStmt{Lbrace: x.Pos(), List: []ast.Stmt{init, x}, Rbrace: x.End()}
		}
	case *ast.ForStmt:
		if x.Cond != nil && tk.tracked(x.Cond) {
			guard := &ast.IfStmt{If: x.Cond.Pos(), Cond: &ast.UnaryExpr{Op: token.NOT, X: &ast.ParenExpr{X: x.Cond}},
				Body: &ast.BlockStmt{List: []ast.Stmt{&ast.BranchStmt{Tok: token.BREAK}}}}
			x.Cond = nil
			x.Body.List = append([]ast.Stmt{guard}, x.Body.List...)
			tk.r.stats["track:for-cond-unfolded"]++
		}
	}
	return s
}

// tracked: does evaluating e read a tracked field at a place a probe could describe?
func (tk *tracker) tracked(e ast.Expr) bool {
	return e != nil && len(tk.reads(e)) > 0
}

func (tk *tracker) emit(p probe) ast.Stmt {
	tk.probed[p.expr] = true
	tk.r.usedVrt, tk.r.usedUns = true, true
	tk.r.stats["probe:"+p.fn]++
	var addr ast.Expr = &ast.UnaryExpr{Op: token.AND, X: p.expr}
	if p.data {
		addr = call(sel("unsafe", "SliceData"), p.expr)
	}
	return &ast.ExprStmt{X: call(sel("vrt", p.fn),
		call(sel("unsafe", "Pointer"), addr),
		&ast.BasicLit{Kind: token.STRING, Value: strconv.Quote(p.site)})}
}

// stmt returns the probes to put in front of s and instruments nested blocks.
// top tells whether a statement can be put in front of s (false for else-if).
func (tk *tracker) stmt(s ast.Stmt, top bool) []probe {
	var ps []probe
	add := func(p []probe) {
		if top {
			ps = append(ps, p...)
		}
	}
	switch x := s.(type) {
	case *ast.BlockStmt:
		tk.block(x)
	case *ast.LabeledStmt:
		// a probe in front of the label is executed on fall-through only; keep it simple: inner blocks only
		tk.stmt(x.Stmt, false)
	case *ast.ExprStmt:
		add(tk.reads(x.X))
		{
			var sp []probe
			tk.sliceReads(x.X, &sp)
			add(sp)
		}
		tk.funcLits(x) // func() {...}() and calls that take a function literal
	case *ast.SendStmt:
		add(tk.reads(x.Chan))
		add(tk.reads(x.Value))
	case *ast.IncDecStmt:
		add(tk.reads(x.X))
		add(tk.writes(x.X))
		{
			var sp []probe
			tk.sliceWrites(x.X, nil, &sp)
			add(sp)
		}
	case *ast.AssignStmt:
		if tk.calls(x) > 1 {
			tk.funcLits(x)
			break
		}
		for _, e := range x.Rhs {
			add(tk.reads(e))
		}
		for _, e := range x.Lhs {
			if x.Tok != token.ASSIGN && x.Tok != token.DEFINE {
				add(tk.reads(e)) // op-assignment reads the target too
			}
			add(tk.writes(e))
		}
		{
			var sp []probe
			for _, e := range x.Rhs {
				tk.sliceReads(e, &sp)
			}
			for i, e := range x.Lhs {
				var rhs ast.Expr
				if len(x.Rhs) == len(x.Lhs) {
					rhs = x.Rhs[i]
				}
				tk.sliceWrites(e, rhs, &sp)
				if ix, ok := unparen(e).(*ast.IndexExpr); ok {
					tk.sliceReads(ix.Index, &sp)
				}
			}
			add(sp)
			if len(x.Rhs) == len(x.Lhs) {
				for i, e := range x.Lhs {
					tk.noteAlias(e, x.Rhs[i])
				}
			}
		}
		tk.funcLits(x)
	case *ast.ReturnStmt:
		if tk.calls(x) <= 1 {
			for _, e := range x.Results {
				add(tk.reads(e))
			}
		}
		tk.funcLits(x)
	case *ast.DeferStmt:
		add(tk.callOperands(x.Call))
		tk.funcLits(x)
	case *ast.GoStmt:
		add(tk.callOperands(x.Call))
		tk.funcLits(x)
	case *ast.IfStmt:
		if x.Init == nil {
			add(tk.reads(x.Cond))
		} else {
			add(tk.stmtNoBlocks(x.Init))
		}
		tk.funcLits(x.Cond)
		tk.block(x.Body)
		switch e := x.Else.(type) {
		case *ast.BlockStmt:
			tk.block(e)
		case *ast.IfStmt:
			tk.stmt(e, false)
		}
	case *ast.ForStmt:
		tk.block(x.Body)
	case *ast.RangeStmt:
		add(tk.reads(x.X))
		if x.Value != nil { // ranging with an index only loads no element
			if b, name := tk.sliceOf(x.X); b != nil {
				add([]probe{{"SR", b, tk.site(x.X, name, "range"), true}})
			}
		}
		if ms := tk.mapOf(x.X); ms != nil {
			add([]probe{*ms})
		}
		tk.block(x.Body)
	case *ast.SwitchStmt:
		if x.Init == nil && x.Tag != nil {
			add(tk.reads(x.Tag))
		}
		for _, c := range x.Body.List {
			cc := c.(*ast.CaseClause)
			cc.Body = tk.list(cc.Body)
		}
	case *ast.TypeSwitchStmt:
		for _, c := range x.Body.List {
			cc := c.(*ast.CaseClause)
			cc.Body = tk.list(cc.Body)
		}
	case *ast.SelectStmt:
		for _, c := range x.Body.List {
			cc := c.(*ast.CommClause)
			cc.Body = tk.list(cc.Body)
		}
	case *ast.DeclStmt:
		if gd, ok := x.Decl.(*ast.GenDecl); ok && tk.calls(x) <= 1 {
			for _, sp := range gd.Specs {
				if vs, ok := sp.(*ast.ValueSpec); ok {
					for _, v := range vs.Values {
						add(tk.reads(v))
					}
				}
			}
		}
		tk.funcLits(x)
	}
	return ps
}

func (tk *tracker) stmtNoBlocks(s ast.Stmt) []probe {
	switch s.(type) {
	case *ast.AssignStmt, *ast.ExprStmt, *ast.IncDecStmt:
		return tk.stmt(s, true)
	}
	return nil
}

// funcLits instruments the bodies of function literals inside n.
func (tk *tracker) funcLits(n ast.Node) {
	ast.Inspect(n, func(c ast.Node) bool {
		if fl, ok := c.(*ast.FuncLit); ok {
			tk.block(fl.Body)
			return false
		}
		return true
	})
}

// calls counts the call expressions of a statement that are not builtins / conversions /
// function literals' bodies: with more than one, the evaluation order of the remaining operands
// relative to the calls is not fixed, and the statement is left alone.
func (tk *tracker) calls(n ast.Node) int {
	c := 0
	ast.Inspect(n, func(x ast.Node) bool {
		switch e := x.(type) {
		case *ast.FuncLit:
			return false
		case *ast.CallExpr:
			if isRt(e) {
				return false // an inserted probe: neither a call of the program nor anything to look into
			}
			if !tk.pureCall(e) && !tk.atomicCall(e) {
				c++
			}
		}
		return true
	})
	return c
}

// atomicCall: a sync/atomic operation. It is not "pure", but for probe placement it does not count as a
// call that may reorder the statement's plain operands: the order in which Go evaluates a plain operand
// and a call in one statement is unspecified, so a plain read that is only race-free if it happens after
// an atomic load of the same statement is a race under an allowed evaluation order anyway.
func (tk *tracker) atomicCall(e *ast.CallExpr) bool {
	fs, ok := unparen(e.Fun).(*ast.SelectorExpr)
	if !ok {
		return false
	}
	if id, ok := fs.X.(*ast.Ident); ok {
		if pn, ok := tk.r.info.Uses[id].(*types.PkgName); ok && pn.Imported().Path() == "sync/atomic" {
			return true
		}
	}
	if tv, ok := tk.r.info.Types[fs.X]; ok && tv.Type != nil {
		t := tv.Type
		if p, ok := t.(*types.Pointer); ok {
			t = p.Elem()
		}
		if n, ok := t.(*types.Named); ok && n.Obj().Pkg() != nil && n.Obj().Pkg().Path() == "sync/atomic" {
			return true
		}
	}
	return false
}

func (tk *tracker) pureCall(e *ast.CallExpr) bool {
	if isRt(e) {
		return true
	}
	if tv, ok := tk.r.info.Types[e.Fun]; ok && tv.IsType() {
		return true // conversion
	}
	if id, ok := unparen(e.Fun).(*ast.Ident); ok {
		if _, b := tk.r.info.Uses[id].(*types.Builtin); b {
			return true
		}
	}
	return false
}

// callOperands: receiver chain and arguments of a deferred / spawned call are evaluated now.
func (tk *tracker) callOperands(c *ast.CallExpr) []probe {
	if tk.calls(c) > 1 {
		return nil
	}
	return tk.reads(c)
}

// side-effect free base expressions only
func (tk *tracker) pure(e ast.Expr) bool {
	switch x := e.(type) {
	case *ast.Ident:
		return true
	case *ast.BasicLit:
		return true
	case *ast.ParenExpr:
		return tk.pure(x.X)
	case *ast.SelectorExpr:
		return tk.pure(x.X)
	case *ast.StarExpr:
		return tk.pure(x.X)
	case *ast.IndexExpr:
		return tk.pure(x.X) && tk.pure(x.Index)
	case *ast.BinaryExpr:
		return tk.pure(x.X) && tk.pure(x.Y)
	case *ast.UnaryExpr:
		return x.Op != token.ARROW && tk.pure(x.X)
	case *ast.CallExpr:
		if tk.pureCall(x) {
			for _, a := range x.Args {
				if !tk.pure(a) {
					return false
				}
			}
			return true
		}
	}
	return false
}

func (tk *tracker) fieldOf(s *ast.SelectorExpr) (*types.Var, string) {
	selx, ok := tk.r.info.Selections[s]
	if !ok || selx.Kind() != types.FieldVal {
		return nil, ""
	}
	fv, ok := selx.Obj().(*types.Var)
	if !ok {
		return nil, ""
	}
	o := fv.Origin()
	if name, ok := tk.fields[o]; ok {
		return o, name
	}
	return nil, ""
}

func (tk *tracker) site(e ast.Expr, name, kind string) string {
	p := tk.r.fset.Position(e.Pos())
	return fmt.Sprintf("%s:%d %s %s", tk.r.file, p.Line, name, kind)
}

func (tk *tracker) addressable(e ast.Expr) bool {
	tv, ok := tk.r.info.Types[e]
	return ok && tv.Addressable()
}

func refLike(t types.Type) bool {
	switch t.Underlying().(type) {
	case *types.Pointer, *types.Map, *types.Chan, *types.Slice, *types.Interface, *types.Signature:
		return true
	}
	return false
}

// reads collects the unconditional plain reads in expression e (evaluated as an rvalue).
func (tk *tracker) reads(e ast.Expr) []probe {
	var ps []probe
	tk.walk(e, true, &ps)
	return ps
}

// walk visits e; asValue says whether e's own value is loaded (false: only its address is formed).
func (tk *tracker) walk(e ast.Expr, asValue bool, ps *[]probe) {
	switch x := e.(type) {
	case nil:
	case *ast.ParenExpr:
		tk.walk(x.X, asValue, ps)
	case *ast.SelectorExpr:
		if fv, name := tk.fieldOf(x); fv != nil {
			if asValue && tk.pure(x.X) && tk.addressable(x) {
				*ps = append(*ps, probe{fn: "R", expr: x, site: tk.site(x, name, "read")})
			}
			// the base: a struct value embedded in its parent is only address arithmetic
			tk.walkBase(x.X, ps)
			return
		}
		if _, isSel := tk.r.info.Selections[x]; isSel {
			tk.walkBase(x.X, ps)
			return
		}
		// qualified identifier (pkg.Name)
	case *ast.StarExpr:
		tk.walk(x.X, true, ps)
	case *ast.UnaryExpr:
		if x.Op == token.AND {
			tk.walk(x.X, false, ps) // address taken: the operand itself is not loaded
			return
		}
		tk.walk(x.X, true, ps)
	case *ast.BinaryExpr:
		tk.walk(x.X, true, ps)
		if x.Op == token.LAND || x.Op == token.LOR {
			return // right operand is conditional
		}
		tk.walk(x.Y, true, ps)
	case *ast.IndexExpr:
		if m := tk.mapOf(x.X); m != nil && asValue {
			*ps = append(*ps, *m)
		}
		tk.walk(x.X, true, ps)
		tk.walk(x.Index, true, ps)
	case *ast.SliceExpr:
		tk.walk(x.X, true, ps)
		tk.walk(x.Low, true, ps)
		tk.walk(x.High, true, ps)
	case *ast.TypeAssertExpr:
		tk.walk(x.X, true, ps)
	case *ast.CompositeLit:
		for _, el := range x.Elts {
			if kv, ok := el.(*ast.KeyValueExpr); ok {
				tk.walk(kv.Value, true, ps)
			} else {
				tk.walk(el, true, ps)
			}
		}
	case *ast.KeyValueExpr:
		tk.walk(x.Value, true, ps)
	case *ast.CallExpr:
		if tk.pureCall(x) {
			if id, ok := unparen(x.Fun).(*ast.Ident); ok && len(x.Args) > 0 {
				switch id.Name {
				case "len":
					if m := tk.mapOf(x.Args[0]); m != nil {
						*ps = append(*ps, *m)
					}
				case "delete":
					if m := tk.mapOf(x.Args[0]); m != nil {
						w := *m
						w.fn = "MW"
						*ps = append(*ps, w)
					}
				}
			}
			for _, a := range x.Args {
				tk.walk(a, true, ps)
			}
			return
		}
		// method call: the receiver expression is loaded only if it is reference-like
		if fs, ok := unparen(x.Fun).(*ast.SelectorExpr); ok {
			if selx, ok := tk.r.info.Selections[fs]; ok && selx.Kind() == types.MethodVal {
				rt := tk.r.info.Types[fs.X].Type
				tk.walk(fs.X, rt != nil && refLike(rt), ps)
			} else {
				tk.walk(x.Fun, true, ps)
			}
		} else {
			tk.walk(x.Fun, true, ps)
		}
		for _, a := range x.Args {
			tk.walk(a, true, ps)
		}
	case *ast.FuncLit:
		// body instrumented separately
	}
}

// walkBase handles the X of X.f: if X denotes a struct VALUE (not a pointer), forming &X.f loads nothing
// of X itself; if X is a pointer, the pointer is loaded.
func (tk *tracker) walkBase(x ast.Expr, ps *[]probe) {
	t := tk.r.info.Types[x].Type
	if t == nil {
		return
	}
	if _, isPtr := t.Underlying().(*types.Pointer); isPtr {
		tk.walk(x, true, ps)
		return
	}
	tk.walk(x, false, ps)
}

// mapOf returns the map-content probe for e if e is a tracked map field.
func (tk *tracker) mapOf(e ast.Expr) *probe {
	s, ok := unparen(e).(*ast.SelectorExpr)
	if !ok {
		return nil
	}
	fv, name := tk.fieldOf(s)
	if fv == nil || !tk.maps[fv] || !tk.pure(s.X) || !tk.addressable(s) {
		return nil
	}
	return &probe{fn: "MR", expr: s, site: tk.site(s, name, "map-read")}
}

// sliceOf: e (possibly re-sliced / parenthesised) is a tracked slice field or a local alias of one; returns the
// expression whose backing array is the location, and the field's name.
func (tk *tracker) sliceOf(e ast.Expr) (ast.Expr, string) {
	for {
		switch x := e.(type) {
		case *ast.ParenExpr:
			e = x.X
			continue
		case *ast.SliceExpr:
			e = x.X
			continue
		}
		break
	}
	switch x := e.(type) {
	case *ast.SelectorExpr:
		if fv, name := tk.fieldOf(x); fv != nil && tk.slices[fv] && tk.pure(x.X) {
			return x, name
		}
	case *ast.Ident:
		if obj := tk.r.info.ObjectOf(x); obj != nil {
			if name, ok := tk.alias[obj]; ok {
				return x, name
			}
		}
	}
	return nil, ""
}

// elemOf: e is X[i] or X[i].f... with X a tracked slice: the element access.
func (tk *tracker) elemOf(e ast.Expr) (ast.Expr, string) {
	for {
		switch x := e.(type) {
		case *ast.ParenExpr:
			e = x.X
			continue
		case *ast.SelectorExpr:
			if _, isField := tk.r.info.Selections[x]; isField {
				e = x.X
				continue
			}
		case *ast.IndexExpr:
			return tk.sliceOf(x.X)
		}
		return nil, ""
	}
}

// sliceReads: element loads, range, append sources and call arguments that hand a tracked slice on.
func (tk *tracker) sliceReads(n ast.Node, ps *[]probe) {
	if n == nil || len(tk.slices) == 0 {
		return
	}
	ast.Inspect(n, func(c ast.Node) bool {
		switch x := c.(type) {
		case *ast.FuncLit:
			return false
		case *ast.IndexExpr:
			if b, name := tk.sliceOf(x.X); b != nil {
				*ps = append(*ps, probe{"SR", b, tk.site(x, name, "elem-read"), true})
			}
		case *ast.CallExpr:
			if tk.pureCall(x) {
				if id, ok := unparen(x.Fun).(*ast.Ident); ok && (id.Name == "len" || id.Name == "cap") {
					return false // the header only
				}
				return true
			}
			for _, a := range x.Args {
				if b, name := tk.sliceOf(a); b != nil {
					*ps = append(*ps, probe{"SR", b, tk.site(a, name, "elems-passed-to-call"), true})
				}
			}
		}
		return true
	})
}

// sliceWrites: element stores of an assignment target, and append into a tracked slice.
func (tk *tracker) sliceWrites(lhs ast.Expr, rhs ast.Expr, ps *[]probe) {
	if len(tk.slices) == 0 {
		return
	}
	if lhs != nil {
		if b, name := tk.elemOf(lhs); b != nil {
			*ps = append(*ps, probe{"SW", b, tk.site(lhs, name, "elem-write"), true})
		}
	}
	if c, ok := unparen(rhs).(*ast.CallExpr); ok && rhs != nil {
		if id, ok := unparen(c.Fun).(*ast.Ident); ok && id.Name == "append" && tk.pureCall(c) && len(c.Args) > 0 {
			if b, name := tk.sliceOf(c.Args[0]); b != nil {
				*ps = append(*ps, probe{"SW", b, tk.site(c, name, "append"), true})
			}
		}
	}
}

// noteAlias records `local := x.f` / `local = x.f[:0]` for a tracked slice field (after the statement's own probes).
func (tk *tracker) noteAlias(lhs, rhs ast.Expr) {
	id, ok := lhs.(*ast.Ident)
	if !ok || id.Name == "_" {
		return
	}
	obj := tk.r.info.ObjectOf(id)
	if obj == nil {
		return
	}
	if _, name := tk.sliceOf(rhs); name != "" {
		tk.alias[obj] = name
	} else {
		delete(tk.alias, obj)
	}
}

// writes collects the plain writes performed by assigning to e.
func (tk *tracker) writes(e ast.Expr) []probe {
	var ps []probe
	switch x := unparen(e).(type) {
	case *ast.SelectorExpr:
		if fv, name := tk.fieldOf(x); fv != nil {
			if tk.pure(x.X) && tk.addressable(x) {
				ps = append(ps, probe{fn: "W", expr: x, site: tk.site(x, name, "write")})
				if tk.maps[fv] {
					ps = append(ps, probe{fn: "MW", expr: x, site: tk.site(x, name, "map-replace")})
				}
			}
			tk.walkBase(x.X, &ps)
			return ps
		}
		tk.walkBase(x.X, &ps)
	case *ast.IndexExpr:
		if m := tk.mapOf(x.X); m != nil {
			w := *m
			w.fn, w.site = "MW", tk.site(x.X, "", "map-write")
			if s, ok := unparen(x.X).(*ast.SelectorExpr); ok {
				if _, name := tk.fieldOf(s); name != "" {
					w.site = tk.site(x.X, name, "map-write")
				}
			}
			ps = append(ps, w)
		}
		tk.walk(x.X, true, &ps)
		tk.walk(x.Index, true, &ps)
	case *ast.StarExpr:
		tk.walk(x.X, true, &ps)
	}
	return ps
}
