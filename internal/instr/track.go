package instr

import "go/ast"

// trackFile inserts happens-before access probes (built with C19).
func (r *rw) trackFile(f *ast.File) {}

// DefaultTrack is the tracking set of DESIGN.md §3.5.
func DefaultTrack() *TrackSpec { return &TrackSpec{Types: map[string]bool{}, Maps: map[string]bool{}} }
