//go:build verif

package vrt

import (
	"fmt"
	"reflect"
)

// Channels stay real Go channels (types in the code under test do not change). The
// scheduler decides enabledness from len/cap, a closed side table and, for unbuffered
// channels, a rendezvous table; the real operation is then performed by the only
// running thread and cannot block.

type chanState struct {
	name    string
	closed  bool
	senders []*pendingSend // parked senders on an unbuffered channel
	hb      any            // per-channel vector clocks (HB monitor)
	// unbuffered channels: threads blocked in a select (or plain receive) that offers a
	// send / receive on this channel, in arrival order (Go's wait queues are FIFO)
	selSend []*selWait
	selRecv []*selWait
}

// selWait is one thread's offer on an unbuffered channel while it is blocked.
type selWait struct {
	t   *Thread
	idx int // case index in its select (-1: plain receive)
	val any // value offered (send offers)
}

// forcedCase is set on a blocked thread by the counterpart that completed the rendezvous.
type forcedCase struct {
	idx int
	val any
}

func dropWait(l []*selWait, t *Thread) []*selWait {
	out := l[:0]
	for _, w := range l {
		if w.t != t {
			out = append(out, w)
		}
	}
	return out
}

func firstOther(l []*selWait, t *Thread) *selWait {
	for _, w := range l {
		if w.t != t && w.t.forced == nil {
			return w
		}
	}
	return nil
}

type pendingSend struct {
	val   any
	taken bool
	vc    []uint32
}

var chans = map[any]*chanState{}

func resetChans() { chans = map[any]*chanState{} }

func st(ch any) *chanState {
	c := chans[ch]
	if c == nil {
		c = &chanState{}
		chans[ch] = c
	}
	return c
}

// NameChan gives a channel a stable name for stop conditions and diagnostics.
// Both directions of the same channel share the name.
func NameChan[T any](ch chan T, name string) {
	st(any(ch)).name = name
	st(any((<-chan T)(ch))).name = name
}

func chanName(ch any) string {
	if c := chans[ch]; c != nil && c.name != "" {
		return c.name
	}
	return ObjName(fmt.Sprintf("%T", ch), ch)
}

// NoteClosed records that a channel obtained elsewhere (ctx.Done()) is now closed.
func NoteClosed(ch any) { st(ch).closed = true }

func active() bool { return S != nil && S.on }

func Close[T any](ch chan T) {
	if !active() {
		close(ch)
		return
	}
	Yield("close", chanName(any(ch)))
	st(any(ch)).closed = true
	st(any((<-chan T)(ch))).closed = true
	close(ch)
	hbRelease(any(ch))
}

func isClosed[C ~chan T | ~<-chan T, T any](ch C) bool {
	if c := chans[any(ch)]; c != nil && c.closed {
		return true
	}
	return false
}

func Send[T any](ch chan T, v T) {
	if !active() {
		ch <- v
		return
	}
	name := chanName(any(ch))
	cur := S.cur
	cur.Pending = any(v) // visible to manual-mode harnesses while the thread is parked in front of the send
	defer func() { cur.Pending = nil }()
	if cap(ch) > 0 {
		Block("send", name, func() bool { return len(ch) < cap(ch) || isClosed(ch) })
		hbSend(any(ch))
		ch <- v // panics if closed, as in Go
		return
	}
	// unbuffered rendezvous: park the value, wait until a receiver has taken it
	c := st(any(ch))
	p := &pendingSend{val: v}
	hbPark(p)
	c.senders = append(c.senders, p)
	Block("send0", name, func() bool { return p.taken })
}

func recvReady[C ~chan T | ~<-chan T, T any](ch C) bool {
	if cap(ch) > 0 {
		return len(ch) > 0 || isClosed(ch)
	}
	c := chans[any(ch)]
	if c == nil {
		return false
	}
	return len(c.senders) > 0 || c.closed || firstOther(c.selSend, S.cur) != nil
}

func doRecv[C ~chan T | ~<-chan T, T any](ch C) (T, bool) {
	if cap(ch) > 0 {
		if len(ch) > 0 {
			v := <-ch
			hbRecv(any(ch))
			return v, true
		}
		hbAcquire(any(ch))
		var z T
		return z, false
	}
	c := st(any(ch))
	if len(c.senders) > 0 {
		p := c.senders[0]
		c.senders = c.senders[1:]
		p.taken = true
		hbTake(p)
		return p.val.(T), true
	}
	if w := firstOther(c.selSend, S.cur); w != nil {
		// rendezvous with a thread blocked in a select that offers a send on this channel
		w.t.forced = &forcedCase{idx: w.idx}
		hbHandOff(w.t, S.cur)
		return w.val.(T), true
	}
	hbAcquire(any(ch))
	var z T
	return z, false
}

func Recv2[C ~chan T | ~<-chan T, T any](ch C) (T, bool) {
	if !active() {
		v, ok := <-ch
		return v, ok
	}
	if cap(ch) == 0 {
		c := st(any(ch))
		cur := S.cur
		c.selRecv = append(c.selRecv, &selWait{t: cur, idx: -1})
		Block("recv", chanName(any(ch)), func() bool { return cur.forced != nil || recvReady(ch) })
		c.selRecv = dropWait(c.selRecv, cur)
		if f := cur.forced; f != nil {
			cur.forced = nil
			hbAcquire(any(ch))
			return f.val.(T), true
		}
		return doRecv(ch)
	}
	Block("recv", chanName(any(ch)), func() bool { return recvReady(ch) })
	return doRecv(ch)
}

func Recv[C ~chan T | ~<-chan T, T any](ch C) T {
	v, _ := Recv2(ch)
	return v
}

// Case is one arm of a select.
type Case interface {
	ready() bool
	fire()
	sendVal() (any, bool) // the value a send case offers
	register(idx int)     // unbuffered channels: announce the offer while blocked
	unregister()
	force(f *forcedCase)       // the counterpart completed the rendezvous for this case
	rcase() reflect.SelectCase // free-running: the real operation
	rset(v reflect.Value, ok bool)
	name() string
}

type RecvC[C ~chan T | ~<-chan T, T any] struct {
	ch C
	V  T
	OK bool
}

func RecvCase[C ~chan T | ~<-chan T, T any](c C) *RecvC[C, T] { return &RecvC[C, T]{ch: c} }
func (r *RecvC[C, T]) ready() bool                            { return recvReady(r.ch) }
func (r *RecvC[C, T]) fire()                                  { r.V, r.OK = doRecv(r.ch) }
func (r *RecvC[C, T]) name() string                           { return "recv:" + chanName(any(r.ch)) }
func (r *RecvC[C, T]) sendVal() (any, bool)                   { return nil, false }
func (r *RecvC[C, T]) register(idx int) {
	if cap(r.ch) == 0 {
		c := st(any(r.ch))
		c.selRecv = append(c.selRecv, &selWait{t: S.cur, idx: idx})
	}
}
func (r *RecvC[C, T]) unregister() {
	if cap(r.ch) == 0 {
		c := st(any(r.ch))
		c.selRecv = dropWait(c.selRecv, S.cur)
	}
}
func (r *RecvC[C, T]) force(f *forcedCase) { r.V, r.OK = f.val.(T), true; hbAcquire(any(r.ch)) }
func (r *RecvC[C, T]) rcase() reflect.SelectCase {
	return reflect.SelectCase{Dir: reflect.SelectRecv, Chan: reflect.ValueOf(r.ch)}
}
func (r *RecvC[C, T]) rset(v reflect.Value, ok bool) {
	r.OK = ok
	if ok {
		r.V = v.Interface().(T)
	}
}

type SendC[T any] struct {
	ch chan T
	v  T
}

func SendCase[T any](c chan T, v T) *SendC[T] { return &SendC[T]{ch: c, v: v} }
func (s *SendC[T]) ready() bool {
	if cap(s.ch) > 0 {
		return len(s.ch) < cap(s.ch)
	}
	c := chans[any(s.ch)]
	return c != nil && firstOther(c.selRecv, S.cur) != nil
}
func (s *SendC[T]) fire() {
	hbSend(any(s.ch))
	if cap(s.ch) > 0 {
		s.ch <- s.v
		return
	}
	// unbuffered: hand the value to the first blocked receiver; it completes with that case
	w := firstOther(st(any(s.ch)).selRecv, S.cur)
	w.t.forced = &forcedCase{idx: w.idx, val: any(s.v)}
	hbHandOff(S.cur, w.t)
}
func (s *SendC[T]) sendVal() (any, bool) { return any(s.v), true }
func (s *SendC[T]) register(idx int) {
	if cap(s.ch) == 0 {
		c := st(any(s.ch))
		c.selSend = append(c.selSend, &selWait{t: S.cur, idx: idx, val: any(s.v)})
	}
}
func (s *SendC[T]) unregister() {
	if cap(s.ch) == 0 {
		c := st(any(s.ch))
		c.selSend = dropWait(c.selSend, S.cur)
	}
}
func (s *SendC[T]) force(f *forcedCase) {}
func (s *SendC[T]) name() string        { return "send:" + chanName(any(s.ch)) }
func (s *SendC[T]) rcase() reflect.SelectCase {
	return reflect.SelectCase{Dir: reflect.SelectSend, Chan: reflect.ValueOf(s.ch), Send: reflect.ValueOf(&s.v).Elem()}
}
func (s *SendC[T]) rset(v reflect.Value, ok bool) {}

// Select returns the index of the fired case, or -1 for default. When several cases are
// ready the tie-break is an enumerated environment choice (Go flips a coin).
func Select(hasDefault bool, cases ...Case) int {
	if !active() {
		// free-running (conformance build): the real select, through reflection
		rc := make([]reflect.SelectCase, 0, len(cases)+1)
		for _, c := range cases {
			rc = append(rc, c.rcase())
		}
		if hasDefault {
			rc = append(rc, reflect.SelectCase{Dir: reflect.SelectDefault})
		}
		i, v, ok := reflect.Select(rc)
		if i == len(cases) {
			return -1
		}
		cases[i].rset(v, ok)
		return i
	}
	names := ""
	for i, c := range cases {
		if i > 0 {
			names += ","
		}
		names += c.name()
	}
	cur := S.cur
	if hasDefault {
		Yield("select-default", names)
	} else {
		for i, c := range cases {
			c.register(i)
			if v, ok := c.sendVal(); ok && cur.Pending == nil {
				cur.Pending = v // visible to manual-mode harnesses while parked in front of the send
			}
		}
		defer func() { cur.Pending = nil }()
		Block("select", names, func() bool {
			if cur.forced != nil {
				return true
			}
			for _, c := range cases {
				if c.ready() {
					return true
				}
			}
			return false
		})
		for _, c := range cases {
			c.unregister()
		}
		if f := cur.forced; f != nil {
			cur.forced = nil
			cases[f.idx].force(f)
			return f.idx
		}
	}
	var rdy []int
	for i, c := range cases {
		if c.ready() {
			rdy = append(rdy, i)
		}
	}
	if len(rdy) == 0 {
		return -1
	}
	k := 0
	if len(rdy) > 1 {
		k = Choose("select-tie:"+names, len(rdy))
	}
	cases[rdy[k]].fire()
	return rdy[k]
}
