//go:build verif

package vrt

import (
	"fmt"
	"time"
)

// Explorer enumerates schedules by stateless depth-first search with replay:
// run(prefix) replays the prefix and then takes choice 0 everywhere; every later point
// of the finished execution spawns one child per alternative whose deviation cost stays
// within the bounds.
type Explorer struct {
	MaxPreempt int  // preemption bound (<0: unbounded, only sensible with SK)
	MaxEnv     int  // bound on non-default environment answers (<0: unbounded)
	Iterative  bool // iterate the preemption bound 0..MaxPreempt (fewest-deviation counterexample first)
	SK         bool // state-key pruning through a visited set (Config.KeyFn must be set by Run)
	Shard      int
	NShards    int
	Deadline   time.Time
	MaxExecs   int64

	// Run performs one execution. visited is nil unless SK.
	Run func(prefix []int, visited map[uint64]struct{}) *Sched
	// OnExec is the oracle, called for every execution that ran to its end (not pruned).
	// Returning true stops the search.
	OnExec func(x *Sched, cost int) bool

	Execs     int64
	Completed int64
	Pruned    int64
	Points    int64
	MaxLen    int
	States    int64
	Capped    string // non-empty if a cap (deadline / max execs) cut the search
	Bound     int    // highest preemption bound fully completed (-1 none)
	Stopped   bool
	visited   map[uint64]struct{}
}

func (e *Explorer) costOf(tr []Point, upto int) (pre, env int) {
	for j := 0; j < upto; j++ {
		p := tr[j]
		if p.Chosen == 0 {
			continue
		}
		if p.Kind == PEnv {
			env++
		} else if p.RunOK {
			pre++
		}
	}
	return
}

type work struct {
	prefix []int
}

// Explore runs the search. It returns false if it was stopped by the oracle.
func (e *Explorer) Explore() bool {
	if e.NShards <= 0 {
		e.NShards = 1
	}
	e.Bound = -1
	if e.SK {
		e.visited = map[uint64]struct{}{}
	}
	if e.Iterative && e.MaxPreempt >= 0 && !e.SK {
		for b := 0; b <= e.MaxPreempt; b++ {
			if !e.explore(b, b) {
				return false
			}
			if e.Capped != "" {
				return true
			}
			e.Bound = b
		}
		return true
	}
	ok := e.explore(e.MaxPreempt, -1)
	if ok && e.Capped == "" {
		e.Bound = e.MaxPreempt
	}
	return ok
}

// explore visits every execution with preemption cost <= bound; when exact >= 0 only
// executions whose cost equals exact are counted and handed to the oracle (the cheaper
// ones were handled by an earlier iteration).
func (e *Explorer) explore(bound, exact int) bool {
	var stack []work
	first := true
	stack = append(stack, work{})
	for len(stack) > 0 {
		w := stack[len(stack)-1]
		stack = stack[:len(stack)-1]
		if e.Capped == "" {
			if !e.Deadline.IsZero() && time.Now().After(e.Deadline) {
				e.Capped = "deadline"
			} else if e.MaxExecs > 0 && e.Execs >= e.MaxExecs {
				e.Capped = "max-execs"
			}
		}
		if e.Capped != "" {
			return true
		}
		x := e.Run(w.prefix, e.visited)
		if x.ErrKind == "divergence" {
			panic(fmt.Sprintf("vrt: nondeterminism escaped the scheduler: %s (prefix %v)", x.Err, w.prefix))
		}
		tr := x.Trace
		pre, env := e.costOf(tr, len(tr))
		isRoot := first
		first = false
		mine := !isRoot || e.Shard == 0
		if mine && (exact < 0 || pre == exact) {
			e.Execs++
			e.Points += int64(len(tr))
			if len(tr) > e.MaxLen {
				e.MaxLen = len(tr)
			}
			e.States += int64(x.NewKeys)
			if x.Pruned {
				e.Pruned++
			} else {
				e.Completed++
				if e.OnExec != nil && e.OnExec(x, pre) {
					e.Stopped = true
					return false
				}
			}
		}
		_ = env
		// children
		cp, ce := e.costOf(tr, len(w.prefix))
		idx := 0
		var kids []work
		for i := len(w.prefix); i < len(tr); i++ {
			p := tr[i]
			if p.N > 1 {
				dp, de := 0, 0
				if p.Kind == PEnv {
					de = 1
				} else if p.RunOK {
					dp = 1
				}
				okp := bound < 0 || cp+dp <= bound
				oke := e.MaxEnv < 0 || ce+de <= e.MaxEnv
				if okp && oke {
					for alt := 1; alt < p.N; alt++ {
						if isRoot && idx%e.NShards != e.Shard {
							idx++
							continue
						}
						idx++
						np := make([]int, i+1)
						for j := 0; j < i; j++ {
							np[j] = tr[j].Chosen
						}
						np[i] = alt
						kids = append(kids, work{prefix: np})
					}
				}
			}
			// the default choice at point i is part of every later child's prefix
			if p.Chosen != 0 {
				if p.Kind == PEnv {
					ce++
				} else if p.RunOK {
					cp++
				}
			}
		}
		// deepest first keeps the stack small; order is irrelevant for coverage
		for k := len(kids) - 1; k >= 0; k-- {
			stack = append(stack, kids[k])
		}
	}
	return true
}

// SelfTest runs the default schedule twice and reports a difference in trace or log.
func SelfTest(run func(prefix []int, visited map[uint64]struct{}) *Sched) error {
	a := run(nil, nil)
	b := run(a.Choices(), nil)
	if len(a.Trace) != len(b.Trace) {
		return fmt.Errorf("determinism self-test: trace lengths differ %d vs %d (%s / %s)", len(a.Trace), len(b.Trace), a.Err, b.Err)
	}
	for i := range a.Trace {
		if a.Trace[i] != b.Trace[i] {
			return fmt.Errorf("determinism self-test: point %d differs %+v vs %+v", i, a.Trace[i], b.Trace[i])
		}
	}
	if len(a.Log) != len(b.Log) {
		return fmt.Errorf("determinism self-test: log lengths differ")
	}
	for i := range a.Log {
		if a.Log[i] != b.Log[i] {
			return fmt.Errorf("determinism self-test: log line %d differs %q vs %q", i, a.Log[i], b.Log[i])
		}
	}
	return nil
}
