//go:build verif

package vrt

import "unsafe"

// happens-before monitor (filled in by hbmon.go once C19 is built)
type hbState struct{}

func newHB() *hbState                                   { return &hbState{} }
func (h *hbState) newThread(s *Sched, t *Thread, c int) {}

func hbSend(ch any)         {}
func hbRecv(ch any)         {}
func hbAcquire(ch any)      {}
func hbRelease(ch any)      {}
func hbPark(p *pendingSend) {}
func hbTake(p *pendingSend) {}

// HBAcquire / HBRelease are called by the lock / pool / waitgroup models.
func HBAcquire(obj any) {}
func HBRelease(obj any) {}

// AtomicLoad / AtomicStore / AtomicRMW are called by the atomic shims after their yield.
func AtomicLoad(p unsafe.Pointer)  {}
func AtomicStore(p unsafe.Pointer) {}
func AtomicRMW(p unsafe.Pointer)   {}

// R / W are the access probes inserted by the instrumenter in tracking mode.
func R(p unsafe.Pointer, site string) {}
func W(p unsafe.Pointer, site string) {}
