//go:build verif

package vrt

import (
	"fmt"
	"sort"
	"unsafe"
)

// Happens-before monitor (DESIGN.md §3.5). It is fed by the shims (synchronisation edges) and
// by the access probes the instrumenter inserts in tracking mode. Under the cooperative scheduler
// Go's own race detector is blind (every hand-off is a happens-before edge); this monitor only sees
// the edges the program itself creates, so "no data race" becomes an invariant of every explored
// schedule. All edges err on the side of MORE ordering (joins instead of replacement), so a reported
// pair is unordered under any reading of the Go memory model; a missed edge could only hide a race.

type vclock []uint32

func (v vclock) get(i int) uint32 {
	if i < len(v) {
		return v[i]
	}
	return 0
}

func (v *vclock) join(o vclock) {
	for len(*v) < len(o) {
		*v = append(*v, 0)
	}
	for i, x := range o {
		if x > (*v)[i] {
			(*v)[i] = x
		}
	}
}

func (v vclock) clone() vclock { return append(vclock(nil), v...) }

type hbAccess struct {
	tid  int
	clk  uint32
	site string
}

type hbCell struct {
	w     hbAccess
	hasW  bool
	reads []hbAccess
	keep  unsafe.Pointer // keeps the object alive so its address is not reused within the execution
}

type hbState struct {
	cells  map[uintptr]*hbCell
	objs   map[any]*vclock  // locks, pools, waitgroups, closed channels, atomics (by address)
	queues map[any][]vclock // buffered channels: one clock per queued item
	seen   map[string]bool
}

func newHB() *hbState {
	return &hbState{cells: map[uintptr]*hbCell{}, objs: map[any]*vclock{}, queues: map[any][]vclock{}, seen: map[string]bool{}}
}

func (h *hbState) newThread(s *Sched, t *Thread, creator int) {
	if creator >= 0 && creator < len(s.Threads) {
		p := s.Threads[creator]
		t.VC = vclock(p.VC).clone()
		hbTick(p)
	}
	for len(t.VC) <= t.ID {
		t.VC = append(t.VC, 0)
	}
	t.VC[t.ID] = 1
}

func hbTick(t *Thread) {
	for len(t.VC) <= t.ID {
		t.VC = append(t.VC, 0)
	}
	t.VC[t.ID]++
}

func hbOn() (*Sched, *hbState) {
	s := S
	if s == nil || !s.on || s.hb == nil || s.aborted {
		return nil, nil
	}
	return s, s.hb
}

func (h *hbState) obj(k any) *vclock {
	v := h.objs[k]
	if v == nil {
		v = &vclock{}
		h.objs[k] = v
	}
	return v
}

// release: everything the current thread did so far happens before a later acquire of k.
func hbRel(k any) {
	s, h := hbOn()
	if h == nil {
		return
	}
	t := s.cur
	h.obj(k).join(t.VC)
	hbTick(t)
}

func hbAcq(k any) {
	s, h := hbOn()
	if h == nil {
		return
	}
	t := s.cur
	if v := h.objs[k]; v != nil {
		(*vclock)(&t.VC).join(*v)
	}
}

func hbSend(ch any) {
	s, h := hbOn()
	if h == nil {
		return
	}
	t := s.cur
	h.queues[ch] = append(h.queues[ch], vclock(t.VC).clone())
	hbTick(t)
}

func hbRecv(ch any) {
	s, h := hbOn()
	if h == nil {
		return
	}
	q := h.queues[ch]
	if len(q) == 0 {
		return // item put there by the environment (ticker)
	}
	(*vclock)(&s.cur.VC).join(q[0])
	h.queues[ch] = q[1:]
}

func hbAcquire(ch any) { hbAcq(ch) }
func hbRelease(ch any) { hbRel(ch) }

func hbPark(p *pendingSend) {
	s, h := hbOn()
	if h == nil {
		return
	}
	p.vc = vclock(s.cur.VC).clone()
	hbTick(s.cur)
}

func hbTake(p *pendingSend) {
	s, h := hbOn()
	if h == nil {
		return
	}
	(*vclock)(&s.cur.VC).join(p.vc)
}

// hbHandOff: a rendezvous completed on behalf of a blocked thread: from's past happens before to's future.
func hbHandOff(from, to *Thread) {
	s, h := hbOn()
	if h == nil || s == nil {
		return
	}
	(*vclock)(&to.VC).join(from.VC)
	hbTick(from)
}

// HBAcquire / HBRelease are called by the lock / pool / waitgroup models.
func HBAcquire(obj any) { hbAcq(obj) }
func HBRelease(obj any) { hbRel(obj) }

// Atomics synchronise: an atomic operation that observes the effect of an earlier one is ordered after it.
func AtomicLoad(p unsafe.Pointer)  { hbAcq(uintptr(p)) }
func AtomicStore(p unsafe.Pointer) { hbRel(uintptr(p)) }
func AtomicRMW(p unsafe.Pointer)   { hbAcq(uintptr(p)); hbRel(uintptr(p)) }

func (h *hbState) cell(p unsafe.Pointer, tag uintptr) *hbCell {
	k := uintptr(p)<<1 | tag
	c := h.cells[k]
	if c == nil {
		c = &hbCell{keep: p}
		h.cells[k] = c
	}
	return c
}

func (s *Sched) race(a hbAccess, akind string, b hbAccess, bkind string) {
	x, y := a.site+" ["+akind+"]", b.site+" ["+bkind+"]"
	pair := []string{x, y}
	sort.Strings(pair)
	key := pair[0] + " <-> " + pair[1]
	if s.hb.seen[key] {
		return
	}
	s.hb.seen[key] = true
	s.Races = append(s.Races, fmt.Sprintf("%s <-> %s (threads %s / %s)", pair[0], pair[1], s.tname(a.tid), s.tname(b.tid)))
}

func (s *Sched) tname(id int) string {
	if id < len(s.Threads) {
		n := s.Threads[id].Name
		if n == "" {
			n = "store-goroutine"
		}
		return n
	}
	return "?"
}

func hbRead(p unsafe.Pointer, site string, tag uintptr) {
	s, h := hbOn()
	if h == nil || s.quiet > 0 {
		return
	}
	t := s.cur
	c := h.cell(p, tag)
	if c.hasW && c.w.tid != t.ID && c.w.clk > vclock(t.VC).get(c.w.tid) {
		s.race(c.w, "write", hbAccess{t.ID, 0, site}, "read")
	}
	me := hbAccess{t.ID, vclock(t.VC).get(t.ID), site}
	for i := range c.reads {
		if c.reads[i].tid == t.ID {
			c.reads[i] = me
			return
		}
	}
	c.reads = append(c.reads, me)
}

func hbWrite(p unsafe.Pointer, site string, tag uintptr) {
	s, h := hbOn()
	if h == nil || s.quiet > 0 {
		return
	}
	t := s.cur
	c := h.cell(p, tag)
	me := hbAccess{t.ID, vclock(t.VC).get(t.ID), site}
	if c.hasW && c.w.tid != t.ID && c.w.clk > vclock(t.VC).get(c.w.tid) {
		s.race(c.w, "write", me, "write")
	}
	for _, r := range c.reads {
		if r.tid != t.ID && r.clk > vclock(t.VC).get(r.tid) {
			s.race(r, "read", me, "write")
		}
	}
	c.w, c.hasW = me, true
	c.reads = c.reads[:0]
}

// R / W are the access probes inserted by the instrumenter in tracking mode; MR / MW are the
// accesses to a map's contents (keyed apart from the field that holds the map).
func R(p unsafe.Pointer, site string)  { hbRead(p, site, 0) }

// Rt is R for conditionally evaluated operands: the instrumenter rewrites `a && b.f` into `a && (vrt.Rt(&b.f) && b.f)`,
// so the read is announced exactly when - and only when - the operand is evaluated.
func Rt(p unsafe.Pointer, site string) bool { hbRead(p, site, 0); return true }
func W(p unsafe.Pointer, site string)  { hbWrite(p, site, 0) }
func MR(p unsafe.Pointer, site string) { hbRead(p, site, 1) }
func MW(p unsafe.Pointer, site string) { hbWrite(p, site, 1) }

// SR / SW: the elements of a tracked slice; the location is its backing array (nil for an empty, unallocated slice).
func SR(p unsafe.Pointer, site string) {
	if p != nil {
		hbRead(p, site, 2)
	}
}
func SW(p unsafe.Pointer, site string) {
	if p != nil {
		hbWrite(p, site, 2)
	}
}
