//go:build verif

package vrt

// Manual mode: the controller (thread 0) names the thread to run and a stopping
// condition; the named thread then runs alone (choice 0 at every inner point) until
// it finishes, blocks, spins or reaches a point where stop(t) holds. A big step is
// therefore deterministic and is executed by the unmodified code under test.

func (s *Sched) manualSwitch(t *Thread, exiting bool) {
	ctl := s.Threads[0]
	if t == ctl {
		next := s.target
		if next == nil {
			if t.cond != nil && !t.cond() {
				s.ErrKind = "deadlock"
				s.Err = "manual mode: controller would block on " + t.What + " " + t.Obj
				s.finish()
				panic(abortT{})
			}
			t.cond = nil
			return
		}
		if next.done {
			s.StepStat = "done"
			return
		}
		if !s.enabled(next) {
			s.StepStat = "blocked"
			return
		}
		s.StepStat = ""
		s.handOff(t, next, false)
		return
	}
	status := ""
	switch {
	case t.done:
		status = "done"
	case t.yielded:
		status = "spin"
	case !s.enabled(t):
		status = "blocked"
	case s.stopFn != nil && s.stopFn(t):
		status = "stopped"
	case s.Steps > s.Cfg.MaxSteps:
		status = "horizon"
	}
	if status == "" {
		t.cond = nil
		return
	}
	s.StepStat = status
	s.handOff(t, ctl, exiting)
}

// StepThread (manual mode, controller only) runs t until it is done / blocked / spinning /
// stopped by stop. It returns the status.
func StepThread(t *Thread, stop func(t *Thread) bool) string {
	s := S
	if s == nil || !s.Cfg.Manual || s.cur.ID != 0 {
		panic("vrt.StepThread: manual mode controller only")
	}
	s.checkAbort()
	s.target, s.stopFn = t, stop
	ctl := s.cur
	ctl.What = "step"
	s.switchFrom(ctl, false)
	s.target, s.stopFn = nil, nil
	return s.StepStat
}

// Spawn (manual mode) creates a thread that does not run until stepped.
func Spawn(name string, f func()) *Thread {
	s := S
	if s == nil || !s.on {
		panic("vrt.Spawn outside scheduler")
	}
	t := s.newThread(name, s.cur.ID)
	s.start(t, f)
	return t
}

// Enabled reports whether t could take a step now.
func Enabled(t *Thread) bool {
	s := S
	en := false
	Quiet(func() { en = s.enabled(t) })
	return en
}
