//go:build verif

// Package vrt is the controlled runtime the instrumented theine-go code runs on.
//
// Exactly one thread (a real goroutine) holds the baton at any time. Every
// synchronisation operation of the instrumented code (locks, atomics, channel
// operations, spawns, Gosched, clock reads used as waits, environment answers)
// calls into this package, which decides who runs next. The decisions form the
// schedule (a list of choice indices); the explorers in explore.go enumerate
// schedules.
package vrt

import (
	"fmt"
	"hash/fnv"
	"runtime"
	"strings"
)

// Thread is one controlled goroutine.
type Thread struct {
	ID      int
	Name    string
	Creator int // id of the spawning thread (-1 for the root)
	wake    chan struct{}
	exited  chan struct{}
	started bool
	done    bool
	cond    func() bool // nil = runnable; otherwise enabled iff cond()
	idle    bool        // parked in WaitIdle: enabled iff nobody else is
	yielded bool        // called Gosched: not eligible until someone else stepped
	What    string      // what it is waiting for / last point kind
	Obj     string
	Op, Pt  int    // operation index / point index within it (state keys)
	Chain   uint64 // hash chain of values learned since the op started
	Panic   any    // non-nil if the thread died with an un-recovered panic
	Goexit  bool
	Steps   int
	VC      []uint32    // vector clock (HB monitor)
	Pending any         // value of the channel send the thread is parked in front of (nil otherwise)
	forced  *forcedCase // a rendezvous completed by the counterpart while this thread was blocked
}

type abortT struct{}

// IsAbort reports whether a recovered panic value is the scheduler's unwind sentinel (harness
// code that recovers panics of the code under test must re-panic it).
func IsAbort(r any) bool { _, ok := r.(abortT); return ok }

// PointKind distinguishes scheduling points from environment choices.
type PointKind uint8

const (
	PSched PointKind = iota
	PEnv
)

// Point is one recorded decision.
type Point struct {
	Kind   PointKind
	N      int  // number of alternatives (canonical order)
	Chosen int  // index taken
	RunOK  bool // sched points: the running thread was still enabled (alt != 0 is a preemption)
	Tid    int  // thread that was running when the point was reached
	What   string
	Obj    string
	Next   int // thread that got the baton
}

// Config of one execution.
type Config struct {
	Prefix    []int // choices to replay; afterwards choice 0 everywhere
	MaxSteps  int   // horizon (points); exceeding it is an error, never a pass
	KeyFn     func() string
	Visited   map[uint64]struct{} // state-key pruning (nil = stateless)
	Procs     int                 // value reported by GOMAXPROCS/NumCPU shims
	RandFn    func(site string) uint32
	HB        bool // happens-before monitor on
	PoolFresh bool // sync.Pool.Get may return a fresh object (enumerated)
	Manual    bool // manual mode: only the controller (thread 0) decides who runs
	Director  func(s *Sched, enabled []*Thread, runOK bool) int
}

// Sched is the state of one execution.
type Sched struct {
	Cfg      Config
	Threads  []*Thread
	cur      *Thread
	Trace    []Point
	pos      int
	on       bool
	aborted  bool
	Pruned   bool
	Err      string // "", "deadlock ...", "step limit", "panic ...", "divergence ..."
	ErrKind  string // "", deadlock, livelock, horizon, panic, divergence
	Blocked  []string
	quiet    int
	noBranch int
	NewKeys  int
	Now      int64 // virtual nanoseconds
	Tickers  []*TickerState
	Timers   []*TimerState
	endCh    chan struct{}
	Epoch    uint64
	Log      []string // observation log of the harness
	hb       *hbState
	// manual mode
	target   *Thread
	stopFn   func(t *Thread) bool
	StepStat string
	Races    []string
	finisher *Thread
	objIDs   map[any]int
	Steps    int
}

// TimerState is the scheduler-side state of a vtime.Timer.
type TimerState struct {
	At    int64 // virtual deadline
	Fire  func()
	Fired bool
	Off   bool
}

// AddTimer registers a one-shot timer d nanoseconds from the current virtual time.
func AddTimer(d int64, fire func()) *TimerState {
	s := S
	t := &TimerState{At: s.Now + d, Fire: fire}
	s.Timers = append(s.Timers, t)
	return t
}

// StopTimer disarms t; it reports whether the timer was still pending.
func StopTimer(t *TimerState) bool {
	if t == nil || t.Fired || t.Off {
		return false
	}
	t.Off = true
	return true
}

// TickerState is the scheduler-side state of a vtime.Ticker.
type TickerState struct {
	Fire    func() bool // pushes a tick if the channel has room; reports whether it did
	Stopped *bool
}

// S is the active execution (nil when the code runs free on real primitives).
var S *Sched

var epoch uint64

// On reports whether the models (not the real primitives) are in force.
func On() bool { return S != nil && S.on }

// Cur returns the running thread.
func Cur() *Thread { return S.cur }

// Run executes body as thread 0 under the scheduler and returns the finished execution.
func Run(cfg Config, body func()) *Sched {
	if cfg.MaxSteps == 0 {
		cfg.MaxSteps = 20000
	}
	if cfg.Procs == 0 {
		cfg.Procs = 1
	}
	epoch++
	s := &Sched{Cfg: cfg, on: true, endCh: make(chan struct{}, 1), Epoch: epoch}
	if cfg.HB {
		s.hb = newHB()
	}
	S = s
	resetChans()
	t := s.newThread("main", -1)
	s.cur = t
	s.start(t, body)
	t.wake <- struct{}{}
	<-s.endCh
	// the execution is over: unwind whatever is still parked, one thread at a time
	s.aborted = true
	if s.finisher != nil {
		<-s.finisher.exited
	}
	for _, x := range s.Threads {
		if !x.done {
			select {
			case x.wake <- struct{}{}:
			default:
			}
			<-x.exited
		}
	}
	s.on = false
	S = nil
	return s
}

func (s *Sched) newThread(name string, creator int) *Thread {
	t := &Thread{ID: len(s.Threads), Name: name, Creator: creator, wake: make(chan struct{}, 1), exited: make(chan struct{})}
	s.Threads = append(s.Threads, t)
	if s.hb != nil {
		s.hb.newThread(s, t, creator)
	}
	return t
}

func (s *Sched) start(t *Thread, f func()) {
	go func() {
		defer close(t.exited)
		<-t.wake
		t.started = true
		if s.aborted {
			t.done = true
			return
		}
		normal := false
		defer func() {
			r := recover()
			if s.aborted {
				t.done = true
				return
			}
			if !normal {
				if r != nil {
					if _, ok := r.(abortT); !ok {
						t.Panic = r
						buf := make([]byte, 4096)
						buf = buf[:runtime.Stack(buf, false)]
						if s.Err == "" {
							s.ErrKind = "panic"
							s.Err = fmt.Sprintf("panic in thread %d(%s): %v\n%s", t.ID, t.Name, r, buf)
						}
					}
				} else {
					t.Goexit = true
				}
			}
			t.done = true
			if t.ID == 0 || s.ErrKind == "panic" {
				s.finish()
				return
			}
			s.switchFrom(t, true)
		}()
		f()
		normal = true
	}()
}

// finish ends the execution (called by the thread holding the baton).
func (s *Sched) finish() {
	if !s.aborted {
		s.aborted = true
		s.finisher = s.cur
		s.endCh <- struct{}{}
	}
}

// Go spawns a controlled thread.
func Go(f func()) { GoNamed("", f) }

func GoNamed(name string, f func()) *Thread {
	s := S
	if s == nil || !s.on {
		go f()
		return nil
	}
	s.checkAbort()
	cur := s.cur
	t := s.newThread(name, cur.ID)
	s.start(t, f)
	Yield("go", "")
	return t
}

func (s *Sched) checkAbort() {
	if s.aborted {
		panic(abortT{})
	}
}

// BeginOp marks the start of client operation number op on the current thread (state keys).
func BeginOp(op int) {
	if s := S; s != nil && s.on {
		t := s.cur
		t.Op, t.Pt, t.Chain = op, 0, 0
	}
}

// Note mixes a value the current thread just learned into its local-state hash.
func Note(v uint64) {
	s := S
	if s == nil || !s.on || s.quiet > 0 || s.Cfg.Visited == nil {
		return
	}
	t := s.cur
	t.Chain = (t.Chain ^ v) * 1099511628211
	t.Chain ^= t.Chain >> 29
}

func (s *Sched) enabled(x *Thread) bool {
	if x.done || x.idle {
		return false
	}
	return x.cond == nil || x.cond()
}

func (s *Sched) key() uint64 {
	h := fnv.New64a()
	s.quiet++
	k := s.Cfg.KeyFn()
	s.quiet--
	fmt.Fprint(h, k, "|", s.cur.ID)
	for _, t := range s.Threads {
		fmt.Fprint(h, "|", t.done, t.Op, t.Pt, t.Chain, t.cond != nil, t.yielded, t.What)
	}
	return h.Sum64()
}

// switchFrom is the scheduling point: t (the running thread) offers the baton.
func (s *Sched) switchFrom(t *Thread, exiting bool) {
	if s.aborted {
		if exiting {
			return
		}
		panic(abortT{})
	}
	t.Pt++
	t.Steps++
	s.Steps++
	if s.Cfg.Manual {
		s.manualSwitch(t, exiting)
		return
	}
	var order []*Thread
	runOK := false
	if !t.yielded && s.enabled(t) {
		runOK = true
		order = append(order, t)
	}
	for _, x := range s.Threads {
		if x == t {
			continue
		}
		if s.enabled(x) {
			order = append(order, x)
		}
	}
	if len(order) == 0 && t.yielded && s.enabled(t) {
		// only spinners: let the spinner go on; a pure spin loop hits the horizon (livelock)
		order = append(order, t)
	}
	if len(order) == 0 {
		// nobody runnable: idle waiters become enabled (lowest priority)
		for _, x := range s.Threads {
			if x.idle && !x.done {
				order = append(order, x)
			}
		}
	}
	if len(order) == 0 {
		var b []string
		for _, x := range s.Threads {
			if !x.done {
				b = append(b, fmt.Sprintf("t%d(%s):%s %s", x.ID, x.Name, x.What, x.Obj))
			}
		}
		s.Blocked = b
		s.ErrKind = "deadlock"
		s.Err = "deadlock " + strings.Join(b, " ; ")
		s.finish()
		if !exiting {
			panic(abortT{})
		}
		return
	}
	if s.Cfg.Visited != nil && s.pos >= len(s.Cfg.Prefix) && s.noBranch == 0 {
		k := s.key()
		if _, seen := s.Cfg.Visited[k]; seen {
			s.Pruned = true
			s.finish()
			if !exiting {
				panic(abortT{})
			}
			return
		}
		s.Cfg.Visited[k] = struct{}{}
		s.NewKeys++
	}
	n := len(order)
	if s.noBranch > 0 {
		n = 1
	}
	c := 0
	if n > 1 {
		if s.Cfg.Director != nil {
			c = s.Cfg.Director(s, order, runOK)
		} else if s.pos < len(s.Cfg.Prefix) {
			c = s.Cfg.Prefix[s.pos]
			if c >= n || c < 0 {
				s.ErrKind = "divergence"
				s.Err = fmt.Sprintf("replay divergence at point %d: choice %d of %d", s.pos, c, n)
				s.finish()
				if !exiting {
					panic(abortT{})
				}
				return
			}
		}
	}
	if n > 1 || s.noBranch == 0 {
		// every point outside no-branch regions is recorded, even with one alternative,
		// so that prefixes index points uniformly
		if n == 1 && s.pos < len(s.Cfg.Prefix) && s.Cfg.Prefix[s.pos] != 0 {
			s.ErrKind = "divergence"
			s.Err = fmt.Sprintf("replay divergence at point %d: choice %d of 1", s.pos, s.Cfg.Prefix[s.pos])
			s.finish()
			if !exiting {
				panic(abortT{})
			}
			return
		}
		s.pos++
		s.Trace = append(s.Trace, Point{Kind: PSched, N: n, Chosen: c, RunOK: runOK, Tid: t.ID, What: t.What, Obj: t.Obj, Next: order[c].ID})
		if len(s.Trace) > s.Cfg.MaxSteps {
			s.ErrKind = "horizon"
			s.Err = fmt.Sprintf("step limit %d exceeded (livelock or horizon too small)", s.Cfg.MaxSteps)
			s.finish()
			if !exiting {
				panic(abortT{})
			}
			return
		}
	}
	next := order[c]
	s.handOff(t, next, exiting)
}

func (s *Sched) handOff(t, next *Thread, exiting bool) {
	for _, x := range s.Threads {
		if x != next {
			x.yielded = false
		}
	}
	if next.idle {
		next.idle = false
	}
	next.cond = nil
	if next == t {
		return
	}
	s.cur = next
	next.wake <- struct{}{}
	if !exiting {
		<-t.wake
		if s.aborted {
			panic(abortT{})
		}
	}
}

// Quiet runs f with all scheduling points disabled (snapshots, oracles).
func Quiet(f func()) {
	s := S
	if s == nil {
		f()
		return
	}
	s.quiet++
	defer func() { s.quiet-- }()
	f()
}

// NoBranch runs f with scheduling still happening (other threads may need to run)
// but every decision forced to choice 0 and not offered to the explorer.
func NoBranch(f func()) {
	s := S
	if s == nil {
		f()
		return
	}
	s.noBranch++
	defer func() { s.noBranch-- }()
	f()
}

// Yield is a scheduling point at which the caller stays runnable.
func Yield(what, obj string) {
	s := S
	if s == nil || !s.on {
		return
	}
	if s.quiet > 0 {
		return
	}
	s.checkAbort()
	t := s.cur
	t.What, t.Obj = what, obj
	s.switchFrom(t, false)
}

// Block is a scheduling point at which the caller is enabled iff cond().
func Block(what, obj string, cond func() bool) {
	s := S
	if s == nil || !s.on {
		panic("vrt.Block outside scheduler: " + what)
	}
	s.checkAbort()
	if s.quiet > 0 {
		if !cond() {
			panic("vrt: operation would block in quiet mode: " + what + " " + obj)
		}
		return
	}
	t := s.cur
	t.What, t.Obj = what, obj
	t.cond = cond
	s.switchFrom(t, false)
}

// Gosched: the caller spins; it is not eligible again until another thread has stepped.
func Gosched() {
	s := S
	if s == nil || !s.on {
		runtime.Gosched()
		return
	}
	if s.quiet > 0 {
		return
	}
	s.checkAbort()
	t := s.cur
	t.yielded = true
	t.What, t.Obj = "gosched", ""
	s.switchFrom(t, false)
}

// WaitIdle parks the caller until no other thread can run (quiescence).
func WaitIdle() {
	s := S
	if s == nil || !s.on {
		panic("vrt.WaitIdle outside scheduler")
	}
	s.checkAbort()
	t := s.cur
	t.What, t.Obj = "waitidle", ""
	t.idle = true
	s.switchFrom(t, false)
}

// Choose is an environment choice among n answers; 0 is the default answer.
func Choose(what string, n int) int {
	s := S
	if s == nil || !s.on || n <= 1 {
		return 0
	}
	s.checkAbort()
	if s.quiet > 0 || s.noBranch > 0 {
		return 0
	}
	c := 0
	if s.pos < len(s.Cfg.Prefix) {
		c = s.Cfg.Prefix[s.pos]
		if c >= n || c < 0 {
			s.ErrKind = "divergence"
			s.Err = fmt.Sprintf("replay divergence at env point %d (%s): choice %d of %d", s.pos, what, c, n)
			s.finish()
			panic(abortT{})
		}
	}
	s.pos++
	s.Trace = append(s.Trace, Point{Kind: PEnv, N: n, Chosen: c, Tid: s.cur.ID, What: what})
	return c
}

// Rand is the scheduler-owned source behind xruntime.Fastrand.
func Rand(site string) uint32 {
	s := S
	if s == nil || !s.on {
		return 1
	}
	if s.Cfg.RandFn != nil {
		v := s.Cfg.RandFn(site)
		Note(uint64(v))
		return v
	}
	return 1
}

// Procs is what the GOMAXPROCS / NumCPU shims report.
func Procs() int {
	s := S
	if s == nil || !s.on {
		return 1
	}
	return s.Cfg.Procs
}

// Logf appends to the execution's observation log.
func Logf(format string, a ...any) {
	if s := S; s != nil {
		s.Log = append(s.Log, fmt.Sprintf(format, a...))
	}
}

// Alive lists threads that have not finished, with what they wait for.
func (s *Sched) Alive() []*Thread {
	var r []*Thread
	for _, t := range s.Threads {
		if !t.done {
			r = append(r, t)
		}
	}
	return r
}

// Done reports whether thread t has finished.
func (t *Thread) Done() bool { return t.done }

// Choices returns the full choice list of the execution (a replayable schedule).
func (s *Sched) Choices() []int {
	r := make([]int, len(s.Trace))
	for i, p := range s.Trace {
		r[i] = p.Chosen
	}
	return r
}

// ---- virtual time ----

// Advance moves the virtual clock (a scheduling point).
func Advance(d int64) {
	s := S
	if s == nil || !s.on {
		panic("vrt.Advance outside scheduler")
	}
	Yield("advance", "")
	s.Now += d
	for _, t := range s.Timers {
		if !t.Fired && !t.Off && t.At <= s.Now {
			t.Fired = true
			t.Fire()
		}
	}
}

// Tick delivers one tick to every live ticker whose channel has room (a scheduling point).
func Tick() int {
	s := S
	if s == nil || !s.on {
		panic("vrt.Tick outside scheduler")
	}
	Yield("tick", "")
	n := 0
	for _, tk := range s.Tickers {
		if *tk.Stopped {
			continue
		}
		if tk.Fire() {
			n++
		}
	}
	return n
}

// NowNanos is the virtual clock.
func NowNanos() int64 {
	if s := S; s != nil {
		return s.Now
	}
	return 0
}

// PoolFresh reports whether sync.Pool.Get may answer "fresh" as an environment choice.
func PoolFresh() bool {
	s := S
	return s != nil && s.on && s.Cfg.PoolFresh
}

// CancelRelease is the HB edge of a context cancellation.
func CancelRelease(ch any) { hbRelease(ch) }

// NoYield replaces Yield in the coarse variant of the atomic shims.
func NoYield(what, obj string) {
	if s := S; s != nil && s.on {
		s.checkAbort()
	}
}

// TraceString renders the schedule for humans (replay output).
func (s *Sched) TraceString() string {
	var b strings.Builder
	for i, p := range s.Trace {
		if p.Kind == PEnv {
			fmt.Fprintf(&b, "%3d env   t%d %s -> %d/%d\n", i, p.Tid, p.What, p.Chosen, p.N)
			continue
		}
		name := ""
		if p.Next < len(s.Threads) {
			name = s.Threads[p.Next].Name
		}
		fmt.Fprintf(&b, "%3d sched t%d at %s %s -> choice %d/%d runOK=%v next=t%d(%s)\n", i, p.Tid, p.What, p.Obj, p.Chosen, p.N, p.RunOK, p.Next, name)
	}
	return b.String()
}

// ObjName gives an object a canonical per-execution name (first-use order, never an address).
func ObjName(kind string, p any) string {
	s := S
	if s == nil {
		return kind
	}
	if s.objIDs == nil {
		s.objIDs = map[any]int{}
	}
	id, ok := s.objIDs[p]
	if !ok {
		id = len(s.objIDs) + 1
		s.objIDs[p] = id
	}
	return fmt.Sprintf("%s#%d", kind, id)
}
