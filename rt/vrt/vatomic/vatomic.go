//go:build verif

// Package vatomic shims sync/atomic: every operation is a scheduling point followed by
// the real atomic operation (so the shims are also correct when running free).
package vatomic

import (
	"sync/atomic"
	"unsafe"

	"github.com/Yiling-J/theine-go/internal/vrt"
)

func b2u(b bool) uint64 {
	if b {
		return 1
	}
	return 2
}

type Int32 struct{ v atomic.Int32 }

func (a *Int32) Load() int32 {
	vrt.Yield("a.Load", "")
	vrt.AtomicLoad(unsafe.Pointer(a))
	x := a.v.Load()
	vrt.Note(uint64(x))
	return x
}
func (a *Int32) Store(x int32) {
	vrt.Yield("a.Store", "")
	vrt.AtomicStore(unsafe.Pointer(a))
	a.v.Store(x)
}
func (a *Int32) Swap(x int32) int32 {
	vrt.Yield("a.Swap", "")
	vrt.AtomicRMW(unsafe.Pointer(a))
	o := a.v.Swap(x)
	vrt.Note(uint64(o))
	return o
}
func (a *Int32) Add(d int32) int32 {
	vrt.Yield("a.Add", "")
	vrt.AtomicRMW(unsafe.Pointer(a))
	n := a.v.Add(d)
	vrt.Note(uint64(n))
	return n
}
func (a *Int32) CompareAndSwap(o, n int32) bool {
	vrt.Yield("a.CAS", "")
	vrt.AtomicRMW(unsafe.Pointer(a))
	ok := a.v.CompareAndSwap(o, n)
	vrt.Note(b2u(ok))
	return ok
}

type Int64 struct{ v atomic.Int64 }

func (a *Int64) Load() int64 {
	vrt.Yield("a.Load", "")
	vrt.AtomicLoad(unsafe.Pointer(a))
	x := a.v.Load()
	vrt.Note(uint64(x))
	return x
}
func (a *Int64) Store(x int64) {
	vrt.Yield("a.Store", "")
	vrt.AtomicStore(unsafe.Pointer(a))
	a.v.Store(x)
}
func (a *Int64) Swap(x int64) int64 {
	vrt.Yield("a.Swap", "")
	vrt.AtomicRMW(unsafe.Pointer(a))
	o := a.v.Swap(x)
	vrt.Note(uint64(o))
	return o
}
func (a *Int64) Add(d int64) int64 {
	vrt.Yield("a.Add", "")
	vrt.AtomicRMW(unsafe.Pointer(a))
	n := a.v.Add(d)
	vrt.Note(uint64(n))
	return n
}
func (a *Int64) CompareAndSwap(o, n int64) bool {
	vrt.Yield("a.CAS", "")
	vrt.AtomicRMW(unsafe.Pointer(a))
	ok := a.v.CompareAndSwap(o, n)
	vrt.Note(b2u(ok))
	return ok
}

type Uint32 struct{ v atomic.Uint32 }

func (a *Uint32) Load() uint32 {
	vrt.Yield("a.Load", "")
	vrt.AtomicLoad(unsafe.Pointer(a))
	x := a.v.Load()
	vrt.Note(uint64(x))
	return x
}
func (a *Uint32) Store(x uint32) {
	vrt.Yield("a.Store", "")
	vrt.AtomicStore(unsafe.Pointer(a))
	a.v.Store(x)
}
func (a *Uint32) Swap(x uint32) uint32 {
	vrt.Yield("a.Swap", "")
	vrt.AtomicRMW(unsafe.Pointer(a))
	o := a.v.Swap(x)
	vrt.Note(uint64(o))
	return o
}
func (a *Uint32) Add(d uint32) uint32 {
	vrt.Yield("a.Add", "")
	vrt.AtomicRMW(unsafe.Pointer(a))
	n := a.v.Add(d)
	vrt.Note(uint64(n))
	return n
}
func (a *Uint32) CompareAndSwap(o, n uint32) bool {
	vrt.Yield("a.CAS", "")
	vrt.AtomicRMW(unsafe.Pointer(a))
	ok := a.v.CompareAndSwap(o, n)
	vrt.Note(b2u(ok))
	return ok
}

type Uint64 struct{ v atomic.Uint64 }

func (a *Uint64) Load() uint64 {
	vrt.Yield("a.Load", "")
	vrt.AtomicLoad(unsafe.Pointer(a))
	x := a.v.Load()
	vrt.Note(x)
	return x
}
func (a *Uint64) Store(x uint64) {
	vrt.Yield("a.Store", "")
	vrt.AtomicStore(unsafe.Pointer(a))
	a.v.Store(x)
}
func (a *Uint64) Swap(x uint64) uint64 {
	vrt.Yield("a.Swap", "")
	vrt.AtomicRMW(unsafe.Pointer(a))
	o := a.v.Swap(x)
	vrt.Note(o)
	return o
}
func (a *Uint64) Add(d uint64) uint64 {
	vrt.Yield("a.Add", "")
	vrt.AtomicRMW(unsafe.Pointer(a))
	n := a.v.Add(d)
	vrt.Note(n)
	return n
}
func (a *Uint64) CompareAndSwap(o, n uint64) bool {
	vrt.Yield("a.CAS", "")
	vrt.AtomicRMW(unsafe.Pointer(a))
	ok := a.v.CompareAndSwap(o, n)
	vrt.Note(b2u(ok))
	return ok
}

type Bool struct{ v atomic.Bool }

func (a *Bool) Load() bool {
	vrt.Yield("a.Load", "")
	vrt.AtomicLoad(unsafe.Pointer(a))
	x := a.v.Load()
	vrt.Note(b2u(x))
	return x
}
func (a *Bool) Store(x bool) {
	vrt.Yield("a.Store", "")
	vrt.AtomicStore(unsafe.Pointer(a))
	a.v.Store(x)
}
func (a *Bool) Swap(x bool) bool {
	vrt.Yield("a.Swap", "")
	vrt.AtomicRMW(unsafe.Pointer(a))
	o := a.v.Swap(x)
	vrt.Note(b2u(o))
	return o
}
func (a *Bool) CompareAndSwap(o, n bool) bool {
	vrt.Yield("a.CAS", "")
	vrt.AtomicRMW(unsafe.Pointer(a))
	ok := a.v.CompareAndSwap(o, n)
	vrt.Note(b2u(ok))
	return ok
}

type Pointer[T any] struct{ v atomic.Pointer[T] }

func (a *Pointer[T]) Load() *T {
	vrt.Yield("a.Load", "")
	vrt.AtomicLoad(unsafe.Pointer(a))
	x := a.v.Load()
	vrt.Note(b2u(x != nil))
	return x
}
func (a *Pointer[T]) Store(x *T) {
	vrt.Yield("a.Store", "")
	vrt.AtomicStore(unsafe.Pointer(a))
	a.v.Store(x)
}
func (a *Pointer[T]) Swap(x *T) *T {
	vrt.Yield("a.Swap", "")
	vrt.AtomicRMW(unsafe.Pointer(a))
	return a.v.Swap(x)
}
func (a *Pointer[T]) CompareAndSwap(o, n *T) bool {
	vrt.Yield("a.CAS", "")
	vrt.AtomicRMW(unsafe.Pointer(a))
	ok := a.v.CompareAndSwap(o, n)
	vrt.Note(b2u(ok))
	return ok
}

type Value = atomic.Value

func LoadInt32(p *int32) int32 {
	vrt.Yield("LoadInt32", "")
	vrt.AtomicLoad(unsafe.Pointer(p))
	x := atomic.LoadInt32(p)
	vrt.Note(uint64(x))
	return x
}
func StoreInt32(p *int32, v int32) {
	vrt.Yield("StoreInt32", "")
	vrt.AtomicStore(unsafe.Pointer(p))
	atomic.StoreInt32(p, v)
}
func AddInt32(p *int32, d int32) int32 {
	vrt.Yield("AddInt32", "")
	vrt.AtomicRMW(unsafe.Pointer(p))
	n := atomic.AddInt32(p, d)
	vrt.Note(uint64(n))
	return n
}
func SwapInt32(p *int32, v int32) int32 {
	vrt.Yield("SwapInt32", "")
	vrt.AtomicRMW(unsafe.Pointer(p))
	o := atomic.SwapInt32(p, v)
	vrt.Note(uint64(o))
	return o
}
func CompareAndSwapInt32(p *int32, o, n int32) bool {
	vrt.Yield("CASInt32", "")
	vrt.AtomicRMW(unsafe.Pointer(p))
	ok := atomic.CompareAndSwapInt32(p, o, n)
	vrt.Note(b2u(ok))
	return ok
}
func LoadUint32(p *uint32) uint32 {
	vrt.Yield("LoadUint32", "")
	vrt.AtomicLoad(unsafe.Pointer(p))
	x := atomic.LoadUint32(p)
	vrt.Note(uint64(x))
	return x
}
func StoreUint32(p *uint32, v uint32) {
	vrt.Yield("StoreUint32", "")
	vrt.AtomicStore(unsafe.Pointer(p))
	atomic.StoreUint32(p, v)
}
func AddUint32(p *uint32, d uint32) uint32 {
	vrt.Yield("AddUint32", "")
	vrt.AtomicRMW(unsafe.Pointer(p))
	n := atomic.AddUint32(p, d)
	vrt.Note(uint64(n))
	return n
}
func CompareAndSwapUint32(p *uint32, o, n uint32) bool {
	vrt.Yield("CASUint32", "")
	vrt.AtomicRMW(unsafe.Pointer(p))
	ok := atomic.CompareAndSwapUint32(p, o, n)
	vrt.Note(b2u(ok))
	return ok
}
func LoadInt64(p *int64) int64 {
	vrt.Yield("LoadInt64", "")
	vrt.AtomicLoad(unsafe.Pointer(p))
	x := atomic.LoadInt64(p)
	vrt.Note(uint64(x))
	return x
}
func StoreInt64(p *int64, v int64) {
	vrt.Yield("StoreInt64", "")
	vrt.AtomicStore(unsafe.Pointer(p))
	atomic.StoreInt64(p, v)
}
func AddInt64(p *int64, d int64) int64 {
	vrt.Yield("AddInt64", "")
	vrt.AtomicRMW(unsafe.Pointer(p))
	n := atomic.AddInt64(p, d)
	vrt.Note(uint64(n))
	return n
}
func SwapInt64(p *int64, v int64) int64 {
	vrt.Yield("SwapInt64", "")
	vrt.AtomicRMW(unsafe.Pointer(p))
	o := atomic.SwapInt64(p, v)
	vrt.Note(uint64(o))
	return o
}
func CompareAndSwapInt64(p *int64, o, n int64) bool {
	vrt.Yield("CASInt64", "")
	vrt.AtomicRMW(unsafe.Pointer(p))
	ok := atomic.CompareAndSwapInt64(p, o, n)
	vrt.Note(b2u(ok))
	return ok
}
func LoadUint64(p *uint64) uint64 {
	vrt.Yield("LoadUint64", "")
	vrt.AtomicLoad(unsafe.Pointer(p))
	x := atomic.LoadUint64(p)
	vrt.Note(x)
	return x
}
func StoreUint64(p *uint64, v uint64) {
	vrt.Yield("StoreUint64", "")
	vrt.AtomicStore(unsafe.Pointer(p))
	atomic.StoreUint64(p, v)
}
func AddUint64(p *uint64, d uint64) uint64 {
	vrt.Yield("AddUint64", "")
	vrt.AtomicRMW(unsafe.Pointer(p))
	n := atomic.AddUint64(p, d)
	vrt.Note(n)
	return n
}
func SwapUint64(p *uint64, v uint64) uint64 {
	vrt.Yield("SwapUint64", "")
	vrt.AtomicRMW(unsafe.Pointer(p))
	o := atomic.SwapUint64(p, v)
	vrt.Note(o)
	return o
}
func CompareAndSwapUint64(p *uint64, o, n uint64) bool {
	vrt.Yield("CASUint64", "")
	vrt.AtomicRMW(unsafe.Pointer(p))
	ok := atomic.CompareAndSwapUint64(p, o, n)
	vrt.Note(b2u(ok))
	return ok
}
func LoadPointer(p *unsafe.Pointer) unsafe.Pointer {
	vrt.Yield("LoadPointer", "")
	vrt.AtomicLoad(unsafe.Pointer(p))
	x := atomic.LoadPointer(p)
	vrt.Note(b2u(x != nil))
	return x
}
func StorePointer(p *unsafe.Pointer, v unsafe.Pointer) {
	vrt.Yield("StorePointer", "")
	vrt.AtomicStore(unsafe.Pointer(p))
	atomic.StorePointer(p, v)
}
func SwapPointer(p *unsafe.Pointer, v unsafe.Pointer) unsafe.Pointer {
	vrt.Yield("SwapPointer", "")
	vrt.AtomicRMW(unsafe.Pointer(p))
	return atomic.SwapPointer(p, v)
}
func CompareAndSwapPointer(p *unsafe.Pointer, o, n unsafe.Pointer) bool {
	vrt.Yield("CASPointer", "")
	vrt.AtomicRMW(unsafe.Pointer(p))
	ok := atomic.CompareAndSwapPointer(p, o, n)
	vrt.Note(b2u(ok))
	return ok
}
