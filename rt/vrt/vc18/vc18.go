//go:build verif

// Package vc18 is the key catalogue of property C18 (key identity): key types x value
// alphabets x construction paths. It is shared by the black-box harness (package theine,
// harness/root/c18_pairs_test.go) and the white-box one (package internal,
// harness/internal/c18_index_test.go); it contains no oracle.
//
// Everything is a fixed list; nothing is sampled.
package vc18

import (
	"fmt"
	"math"
	"reflect"
	"strconv"
	"strings"
	"unsafe"
)

// Key is one catalogue entry: a key value together with how it was made.
type Key[K comparable] struct {
	K    K
	Val  string // readable value
	Path string // construction path
	Rank int    // how unusual the path is (literal = 0); used as witness cost
	Lvl  int    // 0 = quick and thorough, 1 = thorough only
}

// Type is one key type of the catalogue.
type Type[K comparable] struct {
	Name  string // Go type
	Class string // mechanism class (part of violation signatures)
	// Pre124: the type is in the class the property claims for toolchains before Go 1.24
	// WITHOUT a StringKey function (byte-wise equality). With a StringKey function every type is claimed.
	Pre124 bool
	// StrKey is an equality-respecting StringKey function for this type (nil = none in the catalogue).
	StrKey func(K) string
	Keys   []Key[K]
	Size   uintptr
	HasPad bool // the in-memory representation has bytes that == ignores
	RegABI bool // small aggregate that the register ABI passes field-wise (padding does not travel with the value)
}

// ---------------------------------------------------------------------------------------------
// stack dirtying

var sink int

// Dirty overwrites the 6 KiB of stack directly below the caller's frame with fill (one frame, no
// gaps: the only bytes not written are Dirty's own return address / frame pointer, which every later
// call from the same caller overwrites with its own). What a later callee finds in a stack slot it
// has not written yet (e.g. the padding of a struct argument that the register ABI spills field by
// field) is then this byte. Dirty(0) is the "clean stack" configuration.
//
//go:noinline
func Dirty(fill byte) {
	var buf [6144]byte
	for i := range buf {
		buf[i] = fill
	}
	s := 0
	for i := 0; i < len(buf); i += 64 {
		s += int(buf[i])
	}
	sink += s
}

// ---------------------------------------------------------------------------------------------
// generic construction paths

//go:noinline
func ViaIface[K comparable](k K) K {
	var i any = k
	return c18unbox[K](i)
}

//go:noinline
func c18unbox[K comparable](i any) K { return i.(K) }

// ViaReflect: reflect.New(T), Set the whole value, read it back through the pointer.
//
//go:noinline
func ViaReflect[K comparable](k K) K {
	p := reflect.New(reflect.TypeOf(&k).Elem())
	p.Elem().Set(reflect.ValueOf(&k).Elem())
	return *(p.Interface().(*K))
}

// ViaReflectFields: reflect.New(T), then every leaf field / array element assigned separately.
//
//go:noinline
func ViaReflectFields[K comparable](k K) K {
	p := reflect.New(reflect.TypeOf(&k).Elem())
	copyLeaves(p.Elem(), reflect.ValueOf(&k).Elem())
	return *(p.Interface().(*K))
}

func copyLeaves(dst, src reflect.Value) {
	switch src.Kind() {
	case reflect.Struct:
		for i := 0; i < src.NumField(); i++ {
			copyLeaves(dst.Field(i), src.Field(i))
		}
	case reflect.Array:
		for i := 0; i < src.Len(); i++ {
			copyLeaves(dst.Index(i), src.Index(i))
		}
	default:
		dst.Set(src)
	}
}

// ViaFrame: plain assignment into a fresh local of a frame whose stack area was dirtied first.
//
//go:noinline
func ViaFrame[K comparable](k K) K {
	Dirty(0xEE)
	return viaFrame2(k)
}

//go:noinline
func viaFrame2[K comparable](k K) K {
	var a [4]K
	a[2] = k
	return a[2]
}

// FieldMask reports, per byte of the representation of t, whether the byte belongs to a leaf field.
func FieldMask(t reflect.Type) []bool {
	m := make([]bool, t.Size())
	markFields(t, 0, m)
	return m
}

func markFields(t reflect.Type, base uintptr, m []bool) {
	switch t.Kind() {
	case reflect.Struct:
		for i := 0; i < t.NumField(); i++ {
			f := t.Field(i)
			markFields(f.Type, base+f.Offset, m)
		}
	case reflect.Array:
		for i := 0; i < t.Len(); i++ {
			markFields(t.Elem(), base+uintptr(i)*t.Elem().Size(), m)
		}
	default:
		for j := uintptr(0); j < t.Size(); j++ {
			m[base+j] = true
		}
	}
}

func hasPadding(t reflect.Type) bool {
	for _, b := range FieldMask(t) {
		if !b {
			return true
		}
	}
	return false
}

// DirtyPadInto writes into *dst the value k with every padding byte set to fill: the value a
// program gets when it reads the struct out of a raw byte buffer (unsafe cast, mmap, cgo) whose
// padding was never cleared. *dst == k afterwards. Only for pointer-free types.
func DirtyPadInto[K comparable](dst *K, k K, fill byte) {
	t := reflect.TypeOf(&k).Elem()
	n := t.Size()
	m := FieldMask(t)
	buf := make([]byte, 2*n+128)
	for i := range buf {
		buf[i] = fill
	}
	off := (64 - uintptr(unsafe.Pointer(&buf[0]))%64) % 64
	src := unsafe.Slice((*byte)(unsafe.Pointer(&k)), n)
	for j := uintptr(0); j < n; j++ {
		if m[j] {
			buf[off+j] = src[j]
		}
	}
	// raw copy buffer -> *dst (memmove keeps the padding bytes)
	copy(unsafe.Slice((*byte)(unsafe.Pointer(dst)), n), buf[off:off+n])
}

// ReprEqual: do the catalogue slots of x and y hold identical bytes (string: identical header)?
func ReprEqual[K comparable](x, y *K) bool {
	n := unsafe.Sizeof(*x)
	if n == 0 {
		return true
	}
	a := unsafe.Slice((*byte)(unsafe.Pointer(x)), n)
	b := unsafe.Slice((*byte)(unsafe.Pointer(y)), n)
	for i := range a {
		if a[i] != b[i] {
			return false
		}
	}
	return true
}

// regABI: would the amd64/arm64 register ABI pass a value of t in integer/float registers
// (i.e. field by field)? Arrays of length > 1 and anything needing more than 9 integer registers
// go through memory.
func regABI(t reflect.Type) bool {
	n, ok := regCount(t)
	return ok && n <= 9 && n > 0
}

func regCount(t reflect.Type) (int, bool) {
	switch t.Kind() {
	case reflect.Struct:
		s := 0
		for i := 0; i < t.NumField(); i++ {
			n, ok := regCount(t.Field(i).Type)
			if !ok {
				return 0, false
			}
			s += n
		}
		return s, true
	case reflect.Array:
		if t.Len() == 0 {
			return 0, true
		}
		if t.Len() == 1 {
			return regCount(t.Elem())
		}
		return 0, false
	case reflect.String, reflect.Complex64, reflect.Complex128, reflect.Interface:
		return 2, true
	case reflect.Slice:
		return 3, true
	default:
		return 1, true
	}
}

func mkType[K comparable](name, class string, pre124 bool, keys []Key[K]) Type[K] {
	var z K
	t := reflect.TypeOf(&z).Elem()
	agg := t.Kind() == reflect.Struct || t.Kind() == reflect.Array
	return Type[K]{Name: name, Class: class, Pre124: pre124, Keys: keys, Size: t.Size(),
		HasPad: hasPadding(t), RegABI: agg && regABI(t)}
}

// scalarKeys: each value along literal / dirty-frame / interface / reflect.
func scalarKeys[K comparable](vals []K, labels []string) []Key[K] {
	var out []Key[K]
	for i, v := range vals {
		out = append(out,
			Key[K]{K: v, Val: labels[i], Path: "literal", Rank: 0, Lvl: 0},
			Key[K]{K: ViaFrame(v), Val: labels[i], Path: "dirty-frame", Rank: 1, Lvl: 0},
			Key[K]{K: ViaIface(v), Val: labels[i], Path: "iface", Rank: 2, Lvl: 1},
			Key[K]{K: ViaReflect(v), Val: labels[i], Path: "reflect.New", Rank: 3, Lvl: 1},
		)
	}
	return out
}

// aggKeys: struct/array values along literal / field-wise (type-specific) / interface / reflect /
// reflect field-wise / raw buffer with dirty padding.
func aggKeys[K comparable](vals []K, labels []string, fieldwise func(K) K, ptrFree bool) []Key[K] {
	var z K
	pad := hasPadding(reflect.TypeOf(&z).Elem())
	var out []Key[K]
	for i, v := range vals {
		out = append(out,
			Key[K]{K: v, Val: labels[i], Path: "literal", Rank: 0, Lvl: 0},
			Key[K]{K: fieldwise(v), Val: labels[i], Path: "fieldwise-dirty-frame", Rank: 1, Lvl: 0},
			Key[K]{K: ViaIface(v), Val: labels[i], Path: "iface", Rank: 2, Lvl: 1},
			Key[K]{K: ViaReflect(v), Val: labels[i], Path: "reflect.New", Rank: 3, Lvl: 1},
			Key[K]{K: ViaReflectFields(v), Val: labels[i], Path: "reflect-fieldwise", Rank: 3, Lvl: 1},
		)
		if pad && ptrFree {
			for _, f := range []struct {
				fill byte
				lvl  int
			}{{0xA5, 0}, {0xFF, 1}} {
				out = append(out, Key[K]{Val: labels[i], Path: fmt.Sprintf("raw-buffer-padding=0x%02X", f.fill), Rank: 5, Lvl: f.lvl})
				DirtyPadInto(&out[len(out)-1].K, v, f.fill)
			}
		}
	}
	return out
}

// ---------------------------------------------------------------------------------------------
// integers

type Signed interface {
	~int8 | ~int16 | ~int32 | ~int64 | ~int
}
type Unsigned interface {
	~uint8 | ~uint16 | ~uint32 | ~uint64 | ~uint | ~uintptr
}

func signedType[K Signed](name string) Type[K] {
	var z K
	bits := uint(unsafe.Sizeof(z)) * 8
	min := K(-1) << (bits - 1)
	max := ^min
	return mkType(name, "integer", true, scalarKeys([]K{0, 1, K(0) - 1, min, max}, []string{"0", "1", "-1", "min", "max"}))
}

func unsignedType[K Unsigned](name string) Type[K] {
	var z K
	bits := uint(unsafe.Sizeof(z)) * 8
	max := ^K(0)
	high := K(1) << (bits - 1)
	return mkType(name, "integer", true, scalarKeys([]K{0, 1, high, max - 1, max}, []string{"0", "1", "highbit", "max-1", "max"}))
}

type MyInt int

func Int8() Type[int8]       { return signedType[int8]("int8") }
func Int16() Type[int16]     { return signedType[int16]("int16") }
func Int32() Type[int32]     { return signedType[int32]("int32") }
func Int64() Type[int64]     { return signedType[int64]("int64") }
func Int() Type[int]         { return signedType[int]("int") }
func NamedInt() Type[MyInt]  { return signedType[MyInt]("type MyInt int") }
func Uint8() Type[uint8]     { return unsignedType[uint8]("uint8") }
func Uint16() Type[uint16]   { return unsignedType[uint16]("uint16") }
func Uint32() Type[uint32]   { return unsignedType[uint32]("uint32") }
func Uint64() Type[uint64]   { return unsignedType[uint64]("uint64") }
func Uint() Type[uint]       { return unsignedType[uint]("uint") }
func Uintptr() Type[uintptr] { return unsignedType[uintptr]("uintptr") }

func Bool() Type[bool] {
	return mkType("bool", "bool", true, scalarKeys([]bool{false, true}, []string{"false", "true"}))
}

// ---------------------------------------------------------------------------------------------
// pointers

var ptrArr [2]int

func Pointer() Type[*int] {
	a, b := new(int), new(int) // equal contents, different addresses
	return mkType("*int", "pointer", true, scalarKeys(
		[]*int{nil, a, b, &ptrArr[0], (*int)(unsafe.Pointer(&ptrArr)), &ptrArr[1]},
		[]string{"nil", "p1=new(int)", "p2=new(int)", "&arr[0]", "(*int)(&arr)", "&arr[1]"}))
}

func Chan() Type[chan int] {
	a, b := make(chan int), make(chan int)
	return mkType("chan int", "chan", false, scalarKeys([]chan int{nil, a, b}, []string{"nil", "c1", "c2"}))
}

// ---------------------------------------------------------------------------------------------
// strings

func rebuilt(s string) string { // same contents, fresh backing array
	b := make([]byte, len(s))
	copy(b, s)
	return string(b)
}

func stringVals() ([]string, []string, []string, []int, []int) {
	big := strings.Repeat("x", 65536)
	bigLast := big[:65535] + "y"
	bigFirst := "y" + big[1:]
	var sb strings.Builder
	sb.WriteByte('a')
	raw := []byte{'a', 'b'}
	type e struct {
		s, val, path string
		rank, lvl    int
	}
	es := []e{
		{"", `""`, "literal", 0, 0},
		{rebuilt(""), `""`, "rebuilt-from-bytes", 1, 1},
		// empty strings whose data pointers are non-nil and differ (an empty string is not always the zero header)
		{"xyz"[1:1], `""`, `empty substring "xyz"[1:1]`, 1, 0},
		{bigFirst[7:7], `""`, "empty substring of a heap string", 1, 1},
		{"a", `"a"`, "literal", 0, 0},
		{rebuilt("a"), `"a"`, "rebuilt-from-bytes", 1, 0},
		{"ab"[:1], `"a"`, `substring "ab"[:1]`, 1, 0},
		{strings.Clone("a"), `"a"`, "strings.Clone", 1, 1},
		{sb.String(), `"a"`, "strings.Builder", 1, 1},
		{unsafe.String(&raw[0], 1), `"a"`, "unsafe.String", 2, 1},
		{ViaIface("a"), `"a"`, "iface", 2, 1},
		{ViaReflect(rebuilt("a")), `"a"`, "reflect.New(rebuilt)", 3, 1},
		{"b", `"b"`, "literal", 0, 0},
		{"a\x00", `"a\x00"`, "literal", 0, 0},
		{"aa", `"aa"`, "literal", 0, 1},
		{strings.Repeat("k", 17), `"k"*17`, "strings.Repeat", 0, 1},
		{rebuilt(strings.Repeat("k", 17)), `"k"*17`, "rebuilt-from-bytes", 1, 1},
		{strings.Repeat("k", 129), `"k"*129`, "strings.Repeat", 0, 1},
		{rebuilt(strings.Repeat("k", 129)), `"k"*129`, "rebuilt-from-bytes", 1, 1},
		{strings.Repeat("k", 241), `"k"*241`, "strings.Repeat", 0, 1},
		{rebuilt(strings.Repeat("k", 241)), `"k"*241`, "rebuilt-from-bytes", 1, 1},
		{big, `"x"*65536`, "strings.Repeat", 0, 0},
		{rebuilt(big), `"x"*65536`, "rebuilt-from-bytes", 1, 0},
		{bigLast, `"x"*65535+"y"`, "concat", 0, 0},
		{bigFirst, `"y"+"x"*65535`, "concat", 0, 1},
		{big[:65535], `"x"*65535`, "substring of 64KiB", 1, 1},
	}
	var ss, vals, paths []string
	var ranks, lvls []int
	for _, x := range es {
		ss = append(ss, x.s)
		vals = append(vals, x.val)
		paths = append(paths, x.path)
		ranks = append(ranks, x.rank)
		lvls = append(lvls, x.lvl)
	}
	return ss, vals, paths, ranks, lvls
}

func String() Type[string] {
	ss, vals, paths, ranks, lvls := stringVals()
	var keys []Key[string]
	for i := range ss {
		keys = append(keys, Key[string]{K: ss[i], Val: vals[i], Path: paths[i], Rank: ranks[i], Lvl: lvls[i]})
	}
	return mkType("string", "string", true, keys)
}

// MyStr is a defined type whose underlying type is string (type UserID string ...).
type MyStr string

func NamedString() Type[MyStr] {
	ss, vals, paths, ranks, lvls := stringVals()
	var keys []Key[MyStr]
	for i := range ss {
		keys = append(keys, Key[MyStr]{K: MyStr(ss[i]), Val: "MyStr(" + vals[i] + ")", Path: paths[i], Rank: ranks[i], Lvl: lvls[i]})
	}
	t := mkType("type MyStr string", "named-string", true, keys)
	t.StrKey = func(k MyStr) string { return string(k) }
	return t
}

// ---------------------------------------------------------------------------------------------
// arrays and structs without padding

type Arr3 [3]int32

//go:noinline
func fwArr3(k [3]int32) [3]int32 {
	Dirty(0xEE)
	var r [3]int32
	r[0] = k[0]
	r[1] = k[1]
	r[2] = k[2]
	return r
}

func Array3Int32() Type[[3]int32] {
	mn, mx := int32(math.MinInt32), int32(math.MaxInt32)
	return mkType("[3]int32", "array-nopad", true, aggKeys(
		[][3]int32{{}, {1, 0, 0}, {0, 0, 1}, {-1, mn, mx}, {mx, mx, mx}},
		[]string{"{0,0,0}", "{1,0,0}", "{0,0,1}", "{-1,min,max}", "{max,max,max}"}, fwArr3, true))
}

//go:noinline
func fwArr2Bool(k [2]bool) [2]bool {
	Dirty(0xEE)
	var r [2]bool
	r[0] = k[0]
	r[1] = k[1]
	return r
}

func Array2Bool() Type[[2]bool] {
	return mkType("[2]bool", "array-nopad", true, aggKeys(
		[][2]bool{{}, {true, false}, {false, true}, {true, true}},
		[]string{"{f,f}", "{t,f}", "{f,t}", "{t,t}"}, fwArr2Bool, true))
}

type Empty struct{}

func EmptyStruct() Type[Empty] {
	return mkType("struct{}", "zero-size", true, scalarKeys([]Empty{{}}, []string{"{}"}))
}

type Pair32 struct{ A, B int32 }

//go:noinline
func fwPair32(k Pair32) Pair32 {
	Dirty(0xEE)
	var r Pair32
	r.A = k.A
	r.B = k.B
	return r
}

func StructPair32() Type[Pair32] {
	mn, mx := int32(math.MinInt32), int32(math.MaxInt32)
	return mkType("struct{A,B int32}", "struct-nopad", true, aggKeys(
		[]Pair32{{}, {1, 0}, {0, 1}, {-1, -1}, {mn, mx}},
		[]string{"{0,0}", "{1,0}", "{0,1}", "{-1,-1}", "{min,max}"}, fwPair32, true))
}

type PtrWord struct {
	P *int
	Q uintptr
}

//go:noinline
func fwPtrWord(k PtrWord) PtrWord {
	Dirty(0xEE)
	var r PtrWord
	r.P = k.P
	r.Q = k.Q
	return r
}

func StructPtrWord() Type[PtrWord] {
	a, b := new(int), new(int)
	return mkType("struct{P *int; Q uintptr}", "struct-nopad", true, aggKeys(
		[]PtrWord{{}, {a, 0}, {b, 0}, {a, 1}, {nil, ^uintptr(0)}},
		[]string{"{nil,0}", "{p1,0}", "{p2,0}", "{p1,1}", "{nil,max}"}, fwPtrWord, false))
}

type Nested struct {
	A [3]int32
	B Pair32
	C int32
}

//go:noinline
func fwNested(k Nested) Nested {
	Dirty(0xEE)
	var r Nested
	r.A[0], r.A[1], r.A[2] = k.A[0], k.A[1], k.A[2]
	r.B.A, r.B.B = k.B.A, k.B.B
	r.C = k.C
	return r
}

func StructNested() Type[Nested] {
	mx := int32(math.MaxInt32)
	return mkType("struct{A [3]int32; B struct{A,B int32}; C int32}", "struct-nopad", true, aggKeys(
		[]Nested{{}, {A: [3]int32{1, 0, 0}}, {C: 1}, {B: Pair32{0, 1}}, {[3]int32{mx, mx, mx}, Pair32{mx, mx}, mx}},
		[]string{"{}", "{A[0]:1}", "{C:1}", "{B.B:1}", "{all max}"}, fwNested, true))
}

// ---------------------------------------------------------------------------------------------
// structs with padding ("structs of non-string, non-float, non-interface scalars" - in the claimed class)

type PadLead struct {
	A uint8
	B uint64
}

//go:noinline
func fwPadLead(k PadLead) PadLead {
	Dirty(0xEE)
	var r PadLead
	r.A = k.A
	r.B = k.B
	return r
}

func padLeadVals() ([]PadLead, []string) {
	return []PadLead{{}, {1, 0}, {0, 1}, {255, math.MaxUint64}},
		[]string{"{A:0,B:0}", "{A:1,B:0}", "{A:0,B:1}", "{A:255,B:max}"}
}

func StructPadLead() Type[PadLead] {
	v, l := padLeadVals()
	t := mkType("struct{A uint8; B uint64}", "struct-pad-reg", true, aggKeys(v, l, fwPadLead, true))
	t.StrKey = func(k PadLead) string { return strconv.Itoa(int(k.A)) + "/" + strconv.FormatUint(k.B, 10) }
	return t
}

type PadTrail struct {
	A uint64
	B uint8
}

//go:noinline
func fwPadTrail(k PadTrail) PadTrail {
	Dirty(0xEE)
	var r PadTrail
	r.A = k.A
	r.B = k.B
	return r
}

func StructPadTrail() Type[PadTrail] {
	return mkType("struct{A uint64; B uint8}", "struct-pad-reg", true, aggKeys(
		[]PadTrail{{}, {1, 0}, {0, 1}, {math.MaxUint64, 255}},
		[]string{"{A:0,B:0}", "{A:1,B:0}", "{A:0,B:1}", "{A:max,B:255}"}, fwPadTrail, true))
}

type PadMid struct {
	A bool
	B int32
	C int8
}

//go:noinline
func fwPadMid(k PadMid) PadMid {
	Dirty(0xEE)
	var r PadMid
	r.A = k.A
	r.B = k.B
	r.C = k.C
	return r
}

func StructPadMid() Type[PadMid] {
	return mkType("struct{A bool; B int32; C int8}", "struct-pad-reg", true, aggKeys(
		[]PadMid{{}, {true, 0, 0}, {false, -1, 0}, {true, math.MinInt32, -128}},
		[]string{"{f,0,0}", "{t,0,0}", "{f,-1,0}", "{t,min,min}"}, fwPadMid, true))
}

type PadNest struct {
	P PadLead
	C uint8
}

//go:noinline
func fwPadNest(k PadNest) PadNest {
	Dirty(0xEE)
	var r PadNest
	r.P.A = k.P.A
	r.P.B = k.P.B
	r.C = k.C
	return r
}

func StructPadNest() Type[PadNest] {
	return mkType("struct{P struct{A uint8; B uint64}; C uint8}", "struct-pad-reg", true, aggKeys(
		[]PadNest{{}, {PadLead{1, 0}, 0}, {PadLead{0, 0}, 1}, {PadLead{255, math.MaxUint64}, 255}},
		[]string{"{{0,0},0}", "{{1,0},0}", "{{0,0},1}", "{{255,max},255}"}, fwPadNest, true))
}

// PadNestOff nests a struct with TRAILING padding at a NON-ZERO offset (and has more padding after it).
type PadCell struct {
	X, Y int32
	L    uint8
}
type PadNestOff struct {
	T    uint64
	Cell PadCell
	Z    uint16
}

//go:noinline
func fwPadNestOff(k PadNestOff) PadNestOff {
	Dirty(0xEE)
	var r PadNestOff
	r.T = k.T
	r.Cell.X, r.Cell.Y, r.Cell.L = k.Cell.X, k.Cell.Y, k.Cell.L
	r.Z = k.Z
	return r
}

func StructPadNestOff() Type[PadNestOff] {
	return mkType("struct{T uint64; Cell struct{X,Y int32; L uint8}; Z uint16}", "struct-pad-mem", true, aggKeys(
		[]PadNestOff{{}, {T: 1}, {Cell: PadCell{0, 0, 1}}, {math.MaxUint64, PadCell{math.MinInt32, math.MaxInt32, 255}, 65535}},
		[]string{"{0,{0,0,0},0}", "{1,{0,0,0},0}", "{0,{0,0,1},0}", "{max,{min,max,255},max}"}, fwPadNestOff, true))
}

// PadDeep nests structs THREE levels deep, each inner struct at a non-zero offset and with padding of its own: the
// padding map of the innermost struct has to be placed at the sum of two offsets.
type PadDeepMid struct {
	U  uint16
	In PadLead // offset 8 inside PadDeepMid: A at 8, padding 9..15, B at 16
	V  uint8   // offset 24, trailing padding 25..31
}
type PadDeep struct {
	T   uint32     // padding 4..7
	Mid PadDeepMid // offset 8: the innermost padding sits at 8+8+1 .. 8+8+7
}

//go:noinline
func fwPadDeep(k PadDeep) PadDeep {
	Dirty(0xEE)
	var r PadDeep
	r.T = k.T
	r.Mid.U = k.Mid.U
	r.Mid.In.A = k.Mid.In.A
	r.Mid.In.B = k.Mid.In.B
	r.Mid.V = k.Mid.V
	return r
}

func StructPadDeep() Type[PadDeep] {
	return mkType("struct{T uint32; Mid struct{U uint16; In struct{A uint8; B uint64}; V uint8}}", "struct-pad-mem", true, aggKeys(
		[]PadDeep{{}, {T: 1}, {Mid: PadDeepMid{In: PadLead{1, 0}}}, {Mid: PadDeepMid{V: 1}}, {math.MaxUint32, PadDeepMid{65535, PadLead{255, math.MaxUint64}, 255}}},
		[]string{"{0,{0,{0,0},0}}", "{1,{0,{0,0},0}}", "{0,{0,{1,0},0}}", "{0,{0,{0,0},1}}", "{max,{max,{255,max},255}}"}, fwPadDeep, true))
}

type PadPtr struct {
	P *int
	B bool
}

//go:noinline
func fwPadPtr(k PadPtr) PadPtr {
	Dirty(0xEE)
	var r PadPtr
	r.P = k.P
	r.B = k.B
	return r
}

func StructPadPtr() Type[PadPtr] {
	a, b := new(int), new(int)
	return mkType("struct{P *int; B bool}", "struct-pad-reg", true, aggKeys(
		[]PadPtr{{}, {a, false}, {b, false}, {a, true}},
		[]string{"{nil,f}", "{p1,f}", "{p2,f}", "{p1,t}"}, fwPadPtr, false))
}

// memory-passed aggregates with padding

//go:noinline
func fwPadArr(k [2]PadLead) [2]PadLead {
	Dirty(0xEE)
	var r [2]PadLead
	r[0].A, r[0].B = k[0].A, k[0].B
	r[1].A, r[1].B = k[1].A, k[1].B
	return r
}

func ArrayPadLead() Type[[2]PadLead] {
	return mkType("[2]struct{A uint8; B uint64}", "struct-pad-mem", true, aggKeys(
		[][2]PadLead{{}, {{1, 0}, {0, 0}}, {{0, 0}, {1, 0}}, {{255, math.MaxUint64}, {255, math.MaxUint64}}},
		[]string{"{{0,0},{0,0}}", "{{1,0},{0,0}}", "{{0,0},{1,0}}", "{{255,max},{255,max}}"}, fwPadArr, true))
}

type PadWide struct {
	A uint8
	B [2]uint64
}

//go:noinline
func fwPadWide(k PadWide) PadWide {
	Dirty(0xEE)
	var r PadWide
	r.A = k.A
	r.B[0] = k.B[0]
	r.B[1] = k.B[1]
	return r
}

func StructPadWide() Type[PadWide] {
	return mkType("struct{A uint8; B [2]uint64}", "struct-pad-mem", true, aggKeys(
		[]PadWide{{}, {1, [2]uint64{}}, {0, [2]uint64{0, 1}}, {255, [2]uint64{math.MaxUint64, math.MaxUint64}}},
		[]string{"{0,{0,0}}", "{1,{0,0}}", "{0,{0,1}}", "{255,{max,max}}"}, fwPadWide, true))
}

type PadMany struct {
	A uint8
	B uint64
	C uint8
	D uint64
	E uint8
	F uint64
	G uint8
	H uint64
	I uint8
	J uint64
	K uint8
	L uint64
}

//go:noinline
func fwPadMany(k PadMany) PadMany {
	Dirty(0xEE)
	var r PadMany
	r.A, r.B, r.C, r.D, r.E, r.F = k.A, k.B, k.C, k.D, k.E, k.F
	r.G, r.H, r.I, r.J, r.K, r.L = k.G, k.H, k.I, k.J, k.K, k.L
	return r
}

func StructPadMany() Type[PadMany] {
	m8, m64 := uint8(255), uint64(math.MaxUint64)
	return mkType("struct{A uint8; B uint64; ... 12 alternating fields}", "struct-pad-mem", true, aggKeys(
		[]PadMany{{}, {A: 1}, {L: 1}, {m8, m64, m8, m64, m8, m64, m8, m64, m8, m64, m8, m64}},
		[]string{"{}", "{A:1}", "{L:1}", "{all max}"}, fwPadMany, true))
}

// ---------------------------------------------------------------------------------------------
// struct with a string field: claimed before Go 1.24 only with a StringKey function

type StrInt struct {
	S string
	I int
}

//go:noinline
func fwStrInt(k StrInt) StrInt {
	Dirty(0xEE)
	var r StrInt
	r.S = k.S
	r.I = k.I
	return r
}

func StructStrInt() Type[StrInt] {
	big := strings.Repeat("x", 65536)
	keys := []Key[StrInt]{
		{K: StrInt{}, Val: `{"",0}`, Path: "literal"},
		{K: StrInt{"a", 0}, Val: `{"a",0}`, Path: "literal"},
		{K: StrInt{rebuilt("a"), 0}, Val: `{"a",0}`, Path: "S rebuilt-from-bytes", Rank: 1},
		{K: fwStrInt(StrInt{"ab"[:1], 0}), Val: `{"a",0}`, Path: "fieldwise-dirty-frame, S substring", Rank: 1},
		{K: ViaIface(StrInt{rebuilt("a"), 0}), Val: `{"a",0}`, Path: "iface(rebuilt)", Rank: 2, Lvl: 1},
		{K: ViaReflectFields(StrInt{rebuilt("a"), 0}), Val: `{"a",0}`, Path: "reflect-fieldwise(rebuilt)", Rank: 3, Lvl: 1},
		{K: StrInt{"a", 1}, Val: `{"a",1}`, Path: "literal"},
		{K: StrInt{"b", 0}, Val: `{"b",0}`, Path: "literal"},
		{K: StrInt{"a", -1}, Val: `{"a",-1}`, Path: "literal", Lvl: 1},
		{K: StrInt{"a/0", 0}, Val: `{"a/0",0}`, Path: "literal", Lvl: 1},
		{K: StrInt{big, math.MaxInt}, Val: `{"x"*65536,max}`, Path: "strings.Repeat"},
		{K: StrInt{rebuilt(big), math.MaxInt}, Val: `{"x"*65536,max}`, Path: "S rebuilt-from-bytes", Rank: 1},
		{K: StrInt{big[:65535] + "y", math.MaxInt}, Val: `{"x"*65535+"y",max}`, Path: "concat", Lvl: 1},
	}
	t := mkType("struct{S string; I int}", "struct-with-string", false, keys)
	t.StrKey = func(k StrInt) string { return k.S + "/" + strconv.Itoa(k.I) }
	return t
}

func Array2String() Type[[2]string] {
	keys := []Key[[2]string]{
		{K: [2]string{}, Val: `{"",""}`, Path: "literal"},
		{K: [2]string{"a", ""}, Val: `{"a",""}`, Path: "literal"},
		{K: [2]string{rebuilt("a"), rebuilt("")}, Val: `{"a",""}`, Path: "rebuilt-from-bytes", Rank: 1},
		{K: [2]string{"", "a"}, Val: `{"","a"}`, Path: "literal"},
		{K: [2]string{"a", "a"}, Val: `{"a","a"}`, Path: "literal"},
		{K: [2]string{"ab"[:1], rebuilt("a")}, Val: `{"a","a"}`, Path: "substring+rebuilt", Rank: 1},
	}
	return mkType("[2]string", "array-of-string", false, keys)
}

// ---------------------------------------------------------------------------------------------
// floats, complex, interface keys: outside the pre-1.24 claim (run there only with a StringKey function)

func Float64() Type[float64] {
	negz := math.Copysign(0, -1)
	nan2 := math.Float64frombits(0x7FF8000000000001 | 1<<40)
	t := mkType("float64", "float", false, scalarKeys(
		[]float64{0, negz, 1, -1, math.Inf(1), math.MaxFloat64, math.SmallestNonzeroFloat64, math.NaN(), nan2},
		[]string{"+0", "-0", "1", "-1", "+Inf", "max", "denormal-min", "NaN", "NaN(payload)"}))
	return t
}

func Float32() Type[float32] {
	negz := float32(math.Copysign(0, -1))
	return mkType("float32", "float", false, scalarKeys(
		[]float32{0, negz, 1, float32(math.Inf(-1)), float32(math.NaN())},
		[]string{"+0", "-0", "1", "-Inf", "NaN"}))
}

func Complex128() Type[complex128] {
	negz := math.Copysign(0, -1)
	return mkType("complex128", "float", false, scalarKeys(
		[]complex128{0, complex(negz, 0), complex(0, negz), complex(1, 0), complex(0, 1), complex(math.NaN(), 0)},
		[]string{"(+0,+0)", "(-0,+0)", "(+0,-0)", "(1,0)", "(0,1)", "(NaN,0)"}))
}

type FloatPair struct {
	A float64
	B int8
}

//go:noinline
func fwFloatPair(k FloatPair) FloatPair {
	Dirty(0xEE)
	var r FloatPair
	r.A = k.A
	r.B = k.B
	return r
}

func StructFloat() Type[FloatPair] {
	negz := math.Copysign(0, -1)
	return mkType("struct{A float64; B int8}", "struct-with-float", false, aggKeys(
		[]FloatPair{{}, {negz, 0}, {1, 0}, {0, 1}},
		[]string{"{+0,0}", "{-0,0}", "{1,0}", "{0,1}"}, fwFloatPair, true))
}

func Iface() Type[any] {
	p := new(int)
	keys := []Key[any]{
		{K: nil, Val: "nil", Path: "literal"},
		{K: int(1), Val: "int(1)", Path: "literal"},
		{K: ViaReflect[any](int(1)), Val: "int(1)", Path: "reflect.New", Rank: 3},
		{K: int(1000), Val: "int(1000)", Path: "literal"},
		{K: boxInt(1000), Val: "int(1000)", Path: "boxed again", Rank: 1},
		{K: int64(1), Val: "int64(1)", Path: "literal"},
		{K: uint8(1), Val: "uint8(1)", Path: "literal", Lvl: 1},
		{K: true, Val: "true", Path: "literal", Lvl: 1},
		{K: "a", Val: `"a"`, Path: "literal"},
		{K: rebuilt("a"), Val: `"a"`, Path: "rebuilt-from-bytes", Rank: 1},
		{K: MyStr("a"), Val: `MyStr("a")`, Path: "literal"},
		{K: PadLead{1, 2}, Val: "PadLead{1,2}", Path: "literal"},
		{K: fwPadLead(PadLead{1, 2}), Val: "PadLead{1,2}", Path: "fieldwise-dirty-frame", Rank: 1},
		{K: p, Val: "p1", Path: "literal"},
		{K: float64(0), Val: "float64(+0)", Path: "literal", Lvl: 1},
		{K: math.Copysign(0, -1), Val: "float64(-0)", Path: "literal", Lvl: 1},
	}
	return mkType("any", "interface", false, keys)
}

//go:noinline
func boxInt(i int) any { return i }

// Label is a short human-readable description of a key.
func (k *Key[K]) Label() string { return k.Val + " via " + k.Path }
