//go:build verif

// Package vcontext shims package context: cancellation is recorded in the scheduler's
// closed-channel table so that selects on ctx.Done() are decided by the scheduler.
package vcontext

import (
	"context"
	"time"

	"github.com/Yiling-J/theine-go/internal/vrt"
)

type Context = context.Context
type CancelFunc = context.CancelFunc

var Canceled = context.Canceled
var DeadlineExceeded = context.DeadlineExceeded

func Background() Context { return context.Background() }
func TODO() Context       { return context.TODO() }
func WithCancel(p Context) (Context, CancelFunc) {
	c, cancel := context.WithCancel(p)
	if !vrt.On() {
		return c, cancel
	}
	return c, func() {
		vrt.Yield("cancel", "")
		cancel()
		vrt.NoteClosed(c.Done())
		vrt.CancelRelease(c.Done())
	}
}
func WithValue(p Context, k, v any) Context { return context.WithValue(p, k, v) }
func WithTimeout(p Context, d time.Duration) (Context, CancelFunc) {
	return context.WithTimeout(p, d)
}
func WithDeadline(p Context, d time.Time) (Context, CancelFunc) {
	return context.WithDeadline(p, d)
}
