//go:build verif

// Package vh holds what every harness shares: the result record a worker writes for
// cmd/check to merge, environment parsing, outcome hashing and a generic explicit-state
// BFS driver.
package vh

import (
	"encoding/json"
	"fmt"
	"hash/fnv"
	"os"
	"sort"
	"strconv"
	"strings"
	"time"
)

type Violation struct {
	Clause    string `json:"clause"`    // which oracle clause failed
	Signature string `json:"signature"` // narrow witness pattern (matched against known_findings.jsonl)
	Detail    string `json:"detail"`
	Cost      int    `json:"cost"` // deviations of the witness (preemptions / depth)
	Replay    any    `json:"replay,omitempty"`
	Count     int64  `json:"count"`
}

type Result struct {
	Scenario     string         `json:"scenario"`
	Shard        int            `json:"shard"`
	NShards      int            `json:"nshards"`
	Tier         string         `json:"tier"`
	Engine       string         `json:"engine"`
	Executions   int64          `json:"executions"`
	Completed    int64          `json:"completed"`
	Pruned       int64          `json:"pruned"`
	States       int64          `json:"states"`
	Transitions  int64          `json:"transitions"`
	MaxDepth     int            `json:"max_depth"`
	Outcomes     []string       `json:"outcomes"` // distinct outcome hashes (capped)
	OutcomesCap  bool           `json:"outcomes_capped"`
	Exhaustive   bool           `json:"exhaustive"`
	Caps         []string       `json:"caps"`
	Bounds       map[string]any `json:"bounds"`
	Samples      []any          `json:"samples"`
	Violations   []*Violation   `json:"violations"`
	WallS        float64        `json:"wall_s"`
	Notes        []string       `json:"notes"`
	Error        string         `json:"error,omitempty"` // harness/infrastructure failure (not a property violation)
	outcomes     map[uint64]struct{}
	viol         map[string]*Violation
	start        time.Time
	out          string
	MaxOutcomes  int `json:"-"`
	MaxSamples   int `json:"-"`
	sampleStride int64
}

type EnvT struct {
	Tier     string
	Shard    int
	NShards  int
	Deadline time.Time
	BudgetS  float64
	Out      string
	Replay   string
	Params   map[string]string
}

// Env reads the worker environment set by cmd/check.
func Env() EnvT {
	e := EnvT{Tier: "quick", NShards: 1, Params: map[string]string{}}
	if v := os.Getenv("VERIF_TIER"); v != "" {
		e.Tier = v
	}
	if v := os.Getenv("VERIF_SHARD"); v != "" {
		p := strings.Split(v, "/")
		e.Shard, _ = strconv.Atoi(p[0])
		if len(p) > 1 {
			e.NShards, _ = strconv.Atoi(p[1])
		}
	}
	if v := os.Getenv("VERIF_BUDGET_S"); v != "" {
		e.BudgetS, _ = strconv.ParseFloat(v, 64)
		if e.BudgetS > 0 {
			e.Deadline = time.Now().Add(time.Duration(e.BudgetS * float64(time.Second)))
		}
	}
	e.Out = os.Getenv("VERIF_OUT")
	e.Replay = os.Getenv("VERIF_REPLAY")
	for _, kv := range strings.Split(os.Getenv("VERIF_PARAMS"), ",") {
		if i := strings.IndexByte(kv, '='); i > 0 {
			e.Params[kv[:i]] = kv[i+1:]
		}
	}
	return e
}

func (e EnvT) Int(name string, def int) int {
	if v, ok := e.Params[name]; ok {
		n, err := strconv.Atoi(v)
		if err == nil {
			return n
		}
	}
	return def
}

func (e EnvT) Thorough() bool { return e.Tier == "thorough" }

// Expired: the worker's budget is used up (never true without a deadline).
func (e EnvT) Expired() bool { return !e.Deadline.IsZero() && time.Now().After(e.Deadline) }

func NewResult(scenario, engine string, e EnvT) *Result {
	return &Result{Scenario: scenario, Engine: engine, Shard: e.Shard, NShards: e.NShards, Tier: e.Tier,
		Bounds: map[string]any{}, outcomes: map[uint64]struct{}{}, viol: map[string]*Violation{},
		start: time.Now(), out: e.Out, MaxOutcomes: 20000, MaxSamples: 4, Exhaustive: true}
}

func Hash(parts ...any) uint64 {
	h := fnv.New64a()
	fmt.Fprint(h, parts...)
	return h.Sum64()
}

// Outcome records one observed terminal outcome (distinct ones are counted).
func (r *Result) Outcome(s string) {
	h := Hash(s)
	if _, ok := r.outcomes[h]; ok {
		return
	}
	if len(r.outcomes) >= r.MaxOutcomes {
		r.OutcomesCap = true
		return
	}
	r.outcomes[h] = struct{}{}
}

func (r *Result) NOutcomes() int { return len(r.outcomes) }

// Sample keeps a few written-out cases for the evidence file.
func (r *Result) Sample(s any) {
	if len(r.Samples) < r.MaxSamples {
		r.Samples = append(r.Samples, s)
	}
}

// Violate records a violation; instances with the same clause+signature are counted and
// the one with the lowest cost is kept.
func (r *Result) Violate(clause, signature, detail string, cost int, replay any) {
	k := clause + "|" + signature
	if v, ok := r.viol[k]; ok {
		v.Count++
		if cost < v.Cost {
			v.Cost, v.Detail, v.Replay = cost, detail, replay
		}
		return
	}
	v := &Violation{Clause: clause, Signature: signature, Detail: detail, Cost: cost, Replay: replay, Count: 1}
	r.viol[k] = v
	r.Violations = append(r.Violations, v)
}

func (r *Result) NViolations() int { return len(r.Violations) }

func (r *Result) Cap(what string) {
	r.Exhaustive = false
	r.Caps = append(r.Caps, what)
}

func (r *Result) Note(format string, a ...any) { r.Notes = append(r.Notes, fmt.Sprintf(format, a...)) }

// Write stores the record where cmd/check expects it (or prints it when run by hand).
func (r *Result) Write() {
	r.WallS = time.Since(r.start).Seconds()
	r.Outcomes = r.Outcomes[:0]
	for h := range r.outcomes {
		r.Outcomes = append(r.Outcomes, strconv.FormatUint(h, 16))
	}
	sort.Strings(r.Outcomes)
	b, err := json.Marshal(r)
	if err != nil {
		panic(err)
	}
	if r.out == "" {
		r.Outcomes = nil
		b, _ = json.MarshalIndent(r, "", " ")
		fmt.Println(string(b))
		return
	}
	if err := os.WriteFile(r.out+".tmp", b, 0o644); err != nil {
		panic(err)
	}
	if err := os.Rename(r.out+".tmp", r.out); err != nil {
		panic(err)
	}
}

// LoadReplay reads the "replay" member of a violation artefact.
func LoadReplay(path string, into any) error {
	b, err := os.ReadFile(path)
	if err != nil {
		return err
	}
	var art struct {
		Replay json.RawMessage `json:"replay"`
	}
	if err := json.Unmarshal(b, &art); err != nil {
		return err
	}
	return json.Unmarshal(art.Replay, into)
}
