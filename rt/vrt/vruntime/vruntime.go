//go:build verif

// Package vruntime shims the few package runtime entry points the code under test uses.
package vruntime

import (
	"runtime"

	"github.com/Yiling-J/theine-go/internal/vrt"
)

func Gosched() { vrt.Gosched() }
func GOMAXPROCS(n int) int {
	if !vrt.On() {
		return runtime.GOMAXPROCS(n)
	}
	return vrt.Procs()
}
func NumCPU() int {
	if !vrt.On() {
		return runtime.NumCPU()
	}
	return vrt.Procs()
}
func Goexit()                                      { runtime.Goexit() }
func NumGoroutine() int                            { return runtime.NumGoroutine() }
func Stack(buf []byte, all bool) int               { return runtime.Stack(buf, all) }
func KeepAlive(x any)                              { runtime.KeepAlive(x) }
func GC()                                          { runtime.GC() }
func Caller(skip int) (uintptr, string, int, bool) { return runtime.Caller(skip + 1) }
