//go:build verif

// Package vsync shims package sync. Under the scheduler the primitives are plain state
// machines whose blocking is decided by the scheduler; running free they delegate to the
// real primitives they embed.
package vsync

import (
	"sync"

	"github.com/Yiling-J/theine-go/internal/vrt"
)

type Locker = sync.Locker

type Mutex struct {
	real   sync.Mutex
	locked bool
	name   string
	// Snap (harness, state-key pruning): fingerprint of the data this lock protects, mixed into
	// the acquiring thread's learned-values chain at every acquisition.
	Snap func() uint64
}

func noteSnap(f func() uint64) {
	if f != nil {
		var v uint64
		vrt.Quiet(func() { v = f() })
		vrt.Note(v)
	}
}

func (m *Mutex) obj() string {
	if m.name != "" {
		return m.name
	}
	return vrt.ObjName("mutex", m)
}

// SetName labels the mutex for diagnostics / stop conditions (harness use).
func (m *Mutex) SetName(n string) { m.name = n }

// Held reports the model state (harness use, quiet mode).
func (m *Mutex) Held() bool { return m.locked }

func (m *Mutex) Lock() {
	if !vrt.On() {
		m.real.Lock()
		return
	}
	vrt.Block("mutex.Lock", m.obj(), func() bool { return !m.locked })
	m.locked = true
	vrt.HBAcquire(m)
	noteSnap(m.Snap)
}
func (m *Mutex) Unlock() {
	if !vrt.On() {
		m.real.Unlock()
		return
	}
	if !m.locked {
		panic("sync: unlock of unlocked mutex")
	}
	// The scheduling point comes BEFORE the release (as before every other visible operation): other
	// threads can then run while the lock is held, so a TryLock can fail on a critical section that
	// contains no scheduling point of its own. (A yield after the release would add nothing: the next
	// visible operation of this thread yields before it executes.)
	vrt.Yield("mutex.Unlock", m.obj())
	vrt.HBRelease(m)
	m.locked = false
}
func (m *Mutex) TryLock() bool {
	if !vrt.On() {
		return m.real.TryLock()
	}
	vrt.Yield("mutex.TryLock", m.obj())
	if m.locked {
		vrt.Note(2)
		return false
	}
	m.locked = true
	vrt.HBAcquire(m)
	vrt.Note(1)
	return true
}

// RWMutex with Go's writer preference: a waiting writer blocks new readers.
type RWMutex struct {
	real  sync.RWMutex
	w     bool
	r     int
	wwait int
	Snap  func() uint64 // see Mutex.Snap
	// Quiet (harness): operations on this lock are not scheduling points unless they have to
	// block. Used for the locks of shards that hold none of a driver's keys: such shards stay
	// empty, everything done under their locks commutes, so interleavings there add nothing.
	Quiet bool
}

type rside struct{ m *RWMutex }

func (m *RWMutex) obj() string { return vrt.ObjName("rw", m) }

// State is for harness snapshots.
func (m *RWMutex) State() (w bool, r int, wwait int) { return m.w, m.r, m.wwait }

func (m *RWMutex) Lock() {
	if !vrt.On() {
		m.real.Lock()
		return
	}
	m.wwait++
	if !(m.Quiet && !m.w && m.r == 0) {
		vrt.Block("rw.Lock", m.obj(), func() bool { return !m.w && m.r == 0 })
	}
	m.wwait--
	m.w = true
	vrt.HBAcquire(m)
	vrt.HBAcquire(rside{m})
	noteSnap(m.Snap)
}
func (m *RWMutex) Unlock() {
	if !vrt.On() {
		m.real.Unlock()
		return
	}
	if !m.w {
		panic("sync: Unlock of unlocked RWMutex")
	}
	if !m.Quiet {
		vrt.Yield("rw.Unlock", m.obj()) // before the release, see Mutex.Unlock
	}
	vrt.HBRelease(m)
	m.w = false
}
func (m *RWMutex) RLock() {
	if !vrt.On() {
		m.real.RLock()
		return
	}
	if !(m.Quiet && !m.w && m.wwait == 0) {
		vrt.Block("rw.RLock", m.obj(), func() bool { return !m.w && m.wwait == 0 })
	}
	m.r++
	vrt.HBAcquire(m)
	noteSnap(m.Snap)
}
func (m *RWMutex) RUnlock() {
	if !vrt.On() {
		m.real.RUnlock()
		return
	}
	if m.r <= 0 {
		panic("sync: RUnlock of unlocked RWMutex")
	}
	if !m.Quiet {
		vrt.Yield("rw.RUnlock", m.obj()) // before the release, see Mutex.Unlock
	}
	vrt.HBRelease(rside{m})
	m.r--
}
func (m *RWMutex) TryLock() bool {
	if !vrt.On() {
		return m.real.TryLock()
	}
	vrt.Yield("rw.TryLock", m.obj())
	if m.w || m.r > 0 {
		vrt.Note(2)
		return false
	}
	m.w = true
	vrt.HBAcquire(m)
	vrt.HBAcquire(rside{m})
	vrt.Note(1)
	return true
}
func (m *RWMutex) TryRLock() bool {
	if !vrt.On() {
		return m.real.TryRLock()
	}
	vrt.Yield("rw.TryRLock", m.obj())
	if m.w || m.wwait > 0 {
		vrt.Note(2)
		return false
	}
	m.r++
	vrt.HBAcquire(m)
	vrt.Note(1)
	return true
}
func (m *RWMutex) RLocker() Locker { return (*rlocker)(m) }

type rlocker RWMutex

func (r *rlocker) Lock()   { (*RWMutex)(r).RLock() }
func (r *rlocker) Unlock() { (*RWMutex)(r).RUnlock() }

type WaitGroup struct {
	real sync.WaitGroup
	n    int
}

// N is for harness snapshots.
func (w *WaitGroup) N() int { return w.n }

func (w *WaitGroup) Add(d int) {
	if !vrt.On() {
		w.real.Add(d)
		return
	}
	vrt.HBRelease(w)
	w.n += d
	if w.n < 0 {
		panic("sync: negative WaitGroup counter")
	}
	vrt.Yield("wg.Add", "")
}
func (w *WaitGroup) Done() { w.Add(-1) }
func (w *WaitGroup) Wait() {
	if !vrt.On() {
		w.real.Wait()
		return
	}
	vrt.Block("wg.Wait", vrt.ObjName("wg", w), func() bool { return w.n == 0 })
	vrt.HBAcquire(w)
}

// Pool: deterministic LIFO under the scheduler, emptied at the start of every execution.
// With Config.PoolFresh, Get may (as an environment choice) return a fresh object although
// one is pooled: that models the GC clearing the pool.
type Pool struct {
	New   func() any
	real  sync.Pool
	items []any
	epoch uint64
	// Fingerprint (harness, state-key pruning): what a thread learns from a pooled object it gets.
	Fingerprint func(any) uint64
	// Sched (harness): Get and Put on this pool are scheduling points (off by default: the token pools
	// of RBMutex / the striped counter are hit on every read, and nothing is done with a pooled token
	// after it is put back; the singleflight record pool is different: a record handed back may be
	// taken and overwritten by the next leader at once).
	Sched bool
}

func (p *Pool) sync() {
	if e := vrt.S.Epoch; p.epoch != e {
		p.epoch = e
		p.items = nil
	}
}

// Items is for harness snapshots (pooled objects, oldest first).
func (p *Pool) Items() []any {
	if !vrt.On() {
		return nil
	}
	p.sync()
	return p.items
}

// Depth is for harness snapshots.
func (p *Pool) Depth() int {
	if !vrt.On() {
		return 0
	}
	p.sync()
	return len(p.items)
}

func (p *Pool) Get() any {
	if !vrt.On() {
		if p.real.New == nil && p.New != nil {
			p.real.New = p.New
		}
		return p.real.Get()
	}
	p.sync()
	if p.Sched {
		vrt.Yield("pool.Get", "")
	}
	if n := len(p.items); n > 0 {
		if vrt.PoolFresh() && vrt.Choose("pool-get-fresh", 2) == 1 {
			if p.New != nil {
				return p.New()
			}
			return nil
		}
		x := p.items[n-1]
		p.items = p.items[:n-1]
		vrt.HBAcquire(p)
		if p.Fingerprint != nil {
			vrt.Note(1 + p.Fingerprint(x))
		} else {
			vrt.Note(uint64(n))
		}
		return x
	}
	vrt.Note(0)
	if p.New != nil {
		return p.New()
	}
	return nil
}
func (p *Pool) Put(x any) {
	if !vrt.On() {
		p.real.Put(x)
		return
	}
	p.sync()
	vrt.HBRelease(p)
	p.items = append(p.items, x)
	if p.Sched {
		vrt.Yield("pool.Put", "")
	}
}

type Once struct {
	real sync.Once
	done bool
	m    Mutex
}

func (o *Once) Do(f func()) {
	if !vrt.On() {
		o.real.Do(f)
		return
	}
	o.m.Lock()
	defer o.m.Unlock()
	if !o.done {
		defer func() { o.done = true }()
		f()
	}
}

type Map = sync.Map

// Cond (not used by the code under test today; present so that a change which introduces it still builds
// and stays under the scheduler's control).
type Cond struct {
	L     Locker
	real  *sync.Cond
	gen   int
	woken int // signals not yet consumed
	wait  int
}

func NewCond(l Locker) *Cond { return &Cond{L: l} }

func (c *Cond) r() *sync.Cond {
	if c.real == nil {
		c.real = sync.NewCond(c.L)
	}
	return c.real
}

func (c *Cond) Wait() {
	if !vrt.On() {
		c.r().Wait()
		return
	}
	c.wait++
	my := c.gen
	c.L.Unlock()
	vrt.Block("cond.Wait", vrt.ObjName("cond", c), func() bool { return c.gen != my || c.woken > 0 })
	if c.gen == my {
		c.woken--
	}
	c.wait--
	vrt.HBAcquire(c)
	c.L.Lock()
}

func (c *Cond) Signal() {
	if !vrt.On() {
		c.r().Signal()
		return
	}
	vrt.HBRelease(c)
	if c.wait > c.woken {
		c.woken++
	}
	vrt.Yield("cond.Signal", "")
}

func (c *Cond) Broadcast() {
	if !vrt.On() {
		c.r().Broadcast()
		return
	}
	vrt.HBRelease(c)
	c.gen++
	c.woken = 0
	vrt.Yield("cond.Broadcast", "")
}
