//go:build verif

// Package vtime shims package time: under the scheduler the clock is virtual and only the
// harness's environment actions move it; tickers are filled by vrt.Tick.
package vtime

import (
	"time"

	"github.com/Yiling-J/theine-go/internal/vrt"
)

type Duration = time.Duration
type Time = time.Time
type Month = time.Month
type Location = time.Location

const (
	Nanosecond  = time.Nanosecond
	Microsecond = time.Microsecond
	Millisecond = time.Millisecond
	Second      = time.Second
	Minute      = time.Minute
	Hour        = time.Hour
)

var UTC = time.UTC

// Base is the wall-clock instant of virtual time 0.
var Base = time.Unix(1_700_000_000, 0)

func Now() Time {
	if !vrt.On() {
		return time.Now()
	}
	vrt.Note(uint64(vrt.NowNanos()))
	return Base.Add(Duration(vrt.NowNanos()))
}
func Since(t Time) Duration                    { return Now().Sub(t) }
func Until(t Time) Duration                    { return t.Sub(Now()) }
func Unix(s, ns int64) Time                    { return time.Unix(s, ns) }
func UnixMilli(ms int64) Time                  { return time.UnixMilli(ms) }
func ParseDuration(s string) (Duration, error) { return time.ParseDuration(s) }

func Sleep(d Duration) {
	if !vrt.On() {
		time.Sleep(d)
		return
	}
	// virtual: a sleep is just a scheduling point; only the environment moves the clock
	vrt.Yield("sleep", "")
}

type Ticker struct {
	C       chan Time
	real    *time.Ticker
	stopped bool
	Period  Duration
	done    chan struct{}
	// next: virtual time at which the ticker is due next (under the scheduler). vrt.Tick delivers a tick only to
	// tickers that are due, so a period chosen by the code under test (NewTicker / Reset) matters.
	next int64
}

func NewTicker(d Duration) *Ticker {
	t := &Ticker{C: make(chan Time, 1), Period: d}
	if !vrt.On() {
		t.real = time.NewTicker(d)
		t.done = make(chan struct{})
		go func() {
			for {
				select {
				case x := <-t.real.C:
					select {
					case t.C <- x:
					default:
					}
				case <-t.done:
					return
				}
			}
		}()
		return t
	}
	vrt.NameChan(t.C, "ticker.C")
	t.next = vrt.NowNanos() + int64(d)
	vrt.S.Tickers = append(vrt.S.Tickers, &vrt.TickerState{
		Stopped: &t.stopped,
		Fire: func() bool {
			now := vrt.NowNanos()
			if now < t.next {
				return false // not due yet
			}
			t.next += int64(t.Period)
			if t.next <= now {
				t.next = now + int64(t.Period) // ticks that were missed are dropped, as time.Ticker does
			}
			if len(t.C) < cap(t.C) {
				t.C <- Now()
				return true
			}
			return false
		},
	})
	return t
}
func (t *Ticker) Stop() {
	if t.real != nil {
		t.real.Stop()
		if !t.stopped {
			close(t.done)
		}
		t.stopped = true
		return
	}
	t.stopped = true
}
func (t *Ticker) Reset(d Duration) {
	t.Period = d
	if t.real != nil {
		t.real.Reset(d)
		return
	}
	t.stopped = false
	t.next = vrt.NowNanos() + int64(d)
}

// ---- timers (not used by the code under test today; present so that a change which introduces them
// still builds and stays under the scheduler's control) ----

// Timer: under the scheduler it fires when the environment advances the virtual clock past its deadline.
type Timer struct {
	C    <-chan Time
	c    chan Time
	real *time.Timer
	ts   *vrt.TimerState
	f    func()
}

func newTimer(d Duration, f func()) *Timer {
	t := &Timer{f: f}
	if !vrt.On() {
		if f != nil {
			t.real = time.AfterFunc(d, f)
		} else {
			t.real = time.NewTimer(d)
			t.C = t.real.C
		}
		return t
	}
	t.c = make(chan Time, 1)
	t.C = t.c
	t.arm(d)
	return t
}

func (t *Timer) arm(d Duration) {
	t.ts = vrt.AddTimer(int64(d), func() {
		if t.f != nil {
			vrt.Go(t.f)
			return
		}
		select {
		case t.c <- Now():
		default:
		}
	})
}

func NewTimer(d Duration) *Timer            { return newTimer(d, nil) }
func AfterFunc(d Duration, f func()) *Timer { return newTimer(d, f) }
func After(d Duration) <-chan Time          { return newTimer(d, nil).C }
func Tick(d Duration) <-chan Time {
	tk := NewTicker(d)
	return tk.C
}

func (t *Timer) Stop() bool {
	if t.real != nil {
		return t.real.Stop()
	}
	return vrt.StopTimer(t.ts)
}

func (t *Timer) Reset(d Duration) bool {
	if t.real != nil {
		return t.real.Reset(d)
	}
	was := vrt.StopTimer(t.ts)
	t.arm(d)
	return was
}
