#!/bin/bash
# import_seed.sh <Cxx> <name-suffix> <demo-relative-path-in-repo>   e.g. import_seed.sh C08 savecache-replays-peeked-reads internal/zz_demo_test.go
# copies a sub-agent's deliverables from /tmp/seed7/<Cxx> into seeded/<Cxx>g-<suffix>/
id=$1; name=$2; demo=$3; src=/tmp/${SEEDROUND:-seed8}/$id; dst=/verif/seeded/${id}${SEEDSFX:-h}-$name
mkdir -p $dst
( cd $src && git diff -- . ':(exclude)*_test.go' ':(exclude)patch.diff' ':(exclude)notes.md' ) > $dst/patch.diff
cp $src/$demo $dst/zz_demo_test.go
cp $src/notes.md $dst/notes.md 2>/dev/null
echo "$dst: $(grep -c '^[-+][^-+]' $dst/patch.diff) changed lines"; grep '^+++' $dst/patch.diff
