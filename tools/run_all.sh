#!/bin/bash
# run_all.sh [tier] : runs every registered check once and prints one summary line per check
export GOFLAGS=-mod=mod GOPROXY=off GOSUMDB=off GOTOOLCHAIN=local
cd /verif && go build -o bin/check ./cmd/check || exit 2
tier=${1:-quick}
rc=0
for id in $(python3 -c "import json;print(' '.join(c['property_id'] for c in json.load(open('MANIFEST.json'))['checks']))"); do
  out=$(./bin/check $id --tier $tier 2>&1); code=$?
  echo "$out" | grep -E "^(VIOLATION|CHECK-BROKEN|check:)" | head -5
  echo "$out" | tail -1 | sed "s/^/[exit $code] /"
  [ $code -ne 0 ] && rc=1
done
exit $rc
