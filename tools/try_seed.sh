#!/bin/bash
# try_seed.sh <seed-out-dir> <demo-relative-path> <go test args...> -- <check ids...>
# Confirms a seeded change: the patch applies to /repo HEAD, the demonstration fails with it and passes without it,
# then runs the named checks (quick tier) against a scratch copy with the change applied.
export GOFLAGS=-mod=mod GOPROXY=off GOSUMDB=off GOTOOLCHAIN=local
out="$1"; demo="$2"; shift 2
args=(); while [ $# -gt 0 ] && [ "$1" != "--" ]; do args+=("$1"); shift; done; shift
scratch=$(mktemp -d /tmp/verif-seed-XXXXXX); trap 'rm -rf "$scratch"' EXIT
cp -r /repo "$scratch/clean"; cp -r /repo "$scratch/mut"
( cd "$scratch/mut" && git apply "$out/patch.diff" ) || { echo "SEED: patch does not apply to /repo HEAD"; exit 3; }
demofile=$(ls "$out"/*_test.go | head -1)
cp "$demofile" "$scratch/clean/$demo"; cp "$demofile" "$scratch/mut/$demo"
echo "== build with the change"; ( cd "$scratch/mut" && go build ./... && echo build-ok )
echo "== demo WITHOUT the change"; ( cd "$scratch/clean" && go test -vet=off -count=1 "${args[@]}" 2>&1 | tail -3 )
echo "== demo WITH the change";    ( cd "$scratch/mut" && go test -vet=off -count=1 "${args[@]}" 2>&1 | tail -6 )
rm "$scratch/mut/$demo"
for id in "$@"; do
  echo "== check $id against the change"
  ( cd /verif && VERIF_REPO="$scratch/mut" ${CHECK_BIN:-./bin/check} $id --tier quick 2>&1 | grep -E "^(VIOLATION|KNOWN|CHECK-BROKEN|  scenario|C[0-9]+ quick)" | head -12 )
done
