#!/bin/bash
# with_patch.sh <patch> -- <command...>
# Runs <command> with VERIF_REPO pointing at a scratch copy of /repo that has <patch> applied; /repo itself is untouched.
# The copy is removed afterwards.
set -u
patch="$(readlink -f "$1")"; shift
[ "${1:-}" = "--" ] && shift
scratch="$(mktemp -d /tmp/verif-mut-XXXXXX)"
trap 'rm -rf "$scratch"' EXIT
cp -r /repo "$scratch/repo"
if ! git -C "$scratch/repo" apply "$patch"; then echo "with_patch: patch does not apply" >&2; exit 3; fi
env VERIF_REPO="$scratch/repo" "$@"
